# -*- coding: utf-8 -*-
"""
C10 - RDF export is a faithful, well-formed graph that imports back unchanged.

Tie between lean/OdmlModel/Model/Rdf.lean and /repo:
  * the graph RDFWriter builds (set of triples, fresh nodes renamed canonically) == exportRdf
  * the documents RDFReader returns for the parsed text == importRdf (parsed graph)
  * library contracts validated on every case and reported through the oracle when breached:
    rdflib serialise -> parse gives back the same graph for every format, Literal(v) datatype map
Oracle: the property restated over the public API (independent of the model).
"""
import datetime
import os
import shutil
import sys
import tempfile

import framework as fw

NS = "https://g-node.org/odml-rdf#"
RDFNS = "http://www.w3.org/1999/02/22-rdf-syntax-ns#"
RDFS = "http://www.w3.org/2000/01/rdf-schema#"
XSD = "http://www.w3.org/2001/XMLSchema#"
FORMATS = ["xml", "nt", "json-ld", "turtle", "n3"]
EXT = {"xml": ".rdf", "nt": ".nt", "json-ld": ".jsonld", "turtle": ".ttl", "n3": ".n3"}
LIST_KEYS = ("id", "sections", "properties", "value")

STRINGS = ["a", "b", "ab", "x y", " lead", "trail ", "q\"uote", "it's", "line1\nline2", u"été",
           u"αβ", u"\U0001F600", "a<b&c>d", "back\\slash", "tab\there", "1", "1.5", "true",
           "2020-01-02", "[a,b]", "(1;2)", "http://x.org/a#b", "{curly}", "per%cent", "semi;colon",
           "''", "\"\"\"", "a\n\nb", "\\n", "_:b0", "<tag>", "@en", "^^"]
# (round 2) other line breaks than \n, whitespace-only text, text that looks like a Python constant
STRINGS += ["\r", "a\r\nb", u"a\x85b", u"a\u2028b", u"a\u2029b", " ", "None", "nan", u"\ufeffx", u"e\u0301"]
NAMES = ["a", "b", "ab", "c", "name one", u"näme", "x\"y"]
TYPES = ["cell", "analysis", "setup/daq", "custom", "n.s.", "mytype", "subject", "recording", u"tüp"]
# (round 6) types next to the keys of the sub-class maps: sub-paths and parents of mapped types, other case,
# two types of one class, a type that only a custom map can know
TYPES += ["setup", "hardware/daq", "analysis/psth", "Cell", "person", "datacite/creator/affiliation",
          "datacite/contributor/affiliation", "setup/rig"]
CLASS_NAMES = ["Custom", "MyCell", "Mine", "Unspecified", u"T\u00fcp", "Cell", "Setup", "A1", "RecordingRig",
               "Section", "Property"]
URLS = ["http://x.org/t.xml", "https://terms.example/v1/t.xml", "http://x.org/other.xml"]
FLOATS = [0.5, 0.30000000000000004, 1.5, 1e20, 1e-7, 123456.789, 2.0, -0.1, 0.1 + 0.7, 5e-324,
          1.7976931348623157e308, 3.141592653589793, 1e16, 0.0, -0.0, 100.0, 0.25, 1234567.0, 12345678.0]
INTS = [0, 1, -3, 7, 10 ** 30, -(10 ** 19), 2 ** 63, 42, 1000000]
# (round 2) floats as values: the non-finite ones as well (not as uncertainties: nan != nan)
VFLOATS = FLOATS + [float("inf"), float("-inf"), float("nan"), 1e-320, 9007199254740993.0]


# ----------------------------------------------------------------------------- value encoding
def enc_val(v):
    if isinstance(v, bool) or isinstance(v, str):
        return v
    if isinstance(v, int):
        return {"i": str(v)}
    if isinstance(v, float):
        return {"f": repr(v)}
    if isinstance(v, datetime.datetime):
        return {"dt": v.isoformat()}
    if isinstance(v, datetime.date):
        return {"d": v.isoformat()}
    if isinstance(v, datetime.time):
        return {"t": v.isoformat()}
    raise ValueError(v)


def dec_val(e):
    if isinstance(e, (bool, str)):
        return e
    if "i" in e:
        return int(e["i"])
    if "f" in e:
        return float(e["f"])
    if "dt" in e:
        return datetime.datetime.fromisoformat(e["dt"])
    if "d" in e:
        return datetime.date.fromisoformat(e["d"])
    if "t" in e:
        return datetime.time.fromisoformat(e["t"])
    raise ValueError(e)


def py_to_lit(v):
    """The literal (lexical form, datatype) RDF uses for a Python value - the harness's own
    statement of the rdflib datatype contract (checked against every graph)."""
    if isinstance(v, bool):
        return ["true" if v else "false", XSD + "boolean"]
    if isinstance(v, int):
        return [str(v), XSD + "integer"]
    if isinstance(v, float):
        return [repr(v), XSD + "double"]
    if isinstance(v, datetime.datetime):
        return [v.isoformat(), XSD + "dateTime"]
    if isinstance(v, datetime.date):
        return [v.isoformat(), XSD + "date"]
    if isinstance(v, datetime.time):
        return [v.isoformat(), XSD + "time"]
    if isinstance(v, (list, tuple)):
        return ["(%s)" % ";".join(v), ""]
    return [u"%s" % v, ""]


def pyval(v):
    """attribute value -> model PyVal"""
    if isinstance(v, str):
        return {"s": v}
    if isinstance(v, bool):
        return {"s": repr(v)}
    if isinstance(v, int):
        return {"i": v}
    if isinstance(v, float):
        return {"f": repr(v)}
    if isinstance(v, datetime.date):
        return {"d": v.isoformat()}
    return {"s": u"%s" % v}


# ----------------------------------------------------------------------------- documents
def _quiet_terminology():
    try:
        import odml.terminology as term
        term.deferred_load = lambda *a, **k: None
    except Exception:
        pass


def build_prop(spec, parent):
    import odml
    kw = {}
    for k in ("unit", "definition", "reference", "value_origin", "dtype"):
        if spec.get(k) is not None:
            kw[k] = spec[k]
    if spec.get("uncertainty") is not None:
        kw["uncertainty"] = dec_val(spec["uncertainty"])
    if spec.get("val_cardinality") is not None:
        # (round 3) cardinalities are no RDF attributes; objects that carry one are exported like the others
        kw["val_cardinality"] = spec["val_cardinality"]
    vals = [dec_val(v) for v in spec.get("values", [])]
    return odml.Property(name=spec.get("name"), values=vals if vals else None, parent=parent, **kw)


def build_sec(spec, parent):
    import odml
    kw = {}
    for k in ("definition", "reference", "repository"):
        if spec.get(k) is not None:
            kw[k] = spec[k]
    for k in ("sec_cardinality", "prop_cardinality"):
        if spec.get(k) is not None:
            kw[k] = spec[k]
    sec = odml.Section(name=spec.get("name"), type=spec.get("type", "n.s."), parent=parent, **kw)
    for p in spec.get("props", []):
        build_prop(p, sec)
    for s in spec.get("subs", []):
        build_sec(s, sec)
    return sec


def build_doc(spec):
    import odml
    kw = {}
    for k in ("author", "version", "date", "repository"):
        if spec.get(k) is not None:
            kw[k] = spec[k]
    doc = odml.Document(**kw)
    if spec.get("origin"):
        doc.origin_file_name = spec["origin"]
    for s in spec.get("secs", []):
        build_sec(s, doc)
    return doc


def rdf_keys(fmt_obj):
    return [k for k in fmt_obj.rdf_map_keys if k not in LIST_KEYS]


def snap_attrs(obj, fmt_obj):
    out = []
    for k in rdf_keys(fmt_obj):
        v = getattr(obj, k, None)
        if v is not None:
            out.append([k, pyval(v)])
    return out


def snap_prop(p):
    from odml import format as ofmt
    return {"id": str(p.id), "attrs": snap_attrs(p, ofmt.Property),
            "values": [py_to_lit(v) for v in p.values]}


def snap_sec(s):
    from odml import format as ofmt
    return {"id": str(s.id), "attrs": snap_attrs(s, ofmt.Section),
            "props": [snap_prop(p) for p in s.properties],
            "subs": [snap_sec(c) for c in s.sections]}


def snap_doc(d):
    from odml import format as ofmt
    return {"id": str(d.id), "attrs": snap_attrs(d, ofmt.Document),
            "origin": getattr(d, "origin_file_name", None),
            "secs": [snap_sec(s) for s in d.sections]}


def canon_doc(d, rename=None, drop_origin=True):
    """order-free form of a snapshot/model document: children sorted by id, attrs by key."""
    def attrs(a):
        out = []
        for k, v in a:
            if rename and k == "repository" and "s" in v:
                v = {"s": rename.get(v["s"], v["s"])}
            out.append([k, v])
        return sorted(out, key=lambda e: e[0])

    def prop(p):
        return {"id": p["id"], "attrs": attrs(p["attrs"]), "values": [list(v) for v in p["values"]]}

    def sec(s):
        return {"id": s["id"], "attrs": attrs(s["attrs"]),
                "props": sorted([prop(p) for p in s["props"]], key=lambda p: p["id"]),
                "subs": sorted([sec(c) for c in s["subs"]], key=lambda c: c["id"])}
    return {"id": d["id"], "attrs": attrs(d["attrs"]),
            "secs": sorted([sec(s) for s in d["secs"]], key=lambda s: s["id"])}


# ----------------------------------------------------------------------------- graphs
def norm_literal(lit):
    """literal -> ["l", lex, datatype] with the lexical form re-derived from the value for the
    datatypes Python values map to (a parsed turtle double `1.5e+00` is the value 1.5)."""
    dt = str(lit.datatype) if lit.datatype is not None else ""
    lex = str(lit)
    if dt in (XSD + "double", XSD + "integer", XSD + "boolean", XSD + "date", XSD + "time", XSD + "dateTime"):
        try:
            val = lit.toPython()
            if not hasattr(val, "toPython"):      # ill-typed literals stay rdflib Literals
                cand = py_to_lit(val)
                if cand[1] == dt:
                    lex = cand[0]
        except Exception:
            pass
    return ["l", lex, dt]


def canon_graph(graph, value_pred):
    """sorted triple list with the writer's fresh nodes renamed: the object of a hasValue triple
    becomes ["q", <property id>], a node linked from the Hub by hasTerminology becomes
    ["t", <url it is typed with>]. Returns (triples, rename map iri -> canonical text)."""
    from rdflib import URIRef, Literal, BNode
    from rdflib.namespace import RDF
    ren = {}
    for s, _p, o in graph.triples((None, URIRef(value_pred), None)):
        if isinstance(o, (URIRef, BNode)) and isinstance(s, URIRef) and str(s).startswith(NS):
            ren[o] = ["q", str(s)[len(NS):]]
    for _s, _p, o in graph.triples((URIRef(NS + "Hub"), URIRef(NS + "hasTerminology"), None)):
        types = sorted(str(t) for t in graph.objects(o, RDF.type))
        if types:
            ren[o] = ["t", types[0]]

    def term(x):
        if x in ren:
            return ren[x]
        if isinstance(x, Literal):
            return norm_literal(x)
        if isinstance(x, BNode):
            return ["b", str(x)]
        return ["i", str(x)]
    triples = sorted([term(s), term(p), term(o)] for s, p, o in graph)
    text = {}
    for k, v in ren.items():
        text[str(k)] = ("_:seq:" if v[0] == "q" else "_:term:") + v[1]
    return triples, text


def canon_triples_multi(graph, value_pred, shorten=False):
    """(round 2) set of canonical triples (as JSON text) of a graph that may hold several value nodes
    per Property - a writer that converted more than once leaves one per conversion. A value node is
    named by its Property and its content, so identical copies coincide and differing ones stay apart;
    terminology nodes are named by their url as in canon_graph. shorten=True: doubles as turtle / n3
    write them (7 significant digits), to compare texts of different serialisations."""
    from rdflib import URIRef, Literal, BNode
    from rdflib.namespace import RDF
    ren = {}

    def plain(x):
        if isinstance(x, Literal):
            lit = norm_literal(x)
            if shorten and lit[2] == XSD + "double":
                try:
                    lit[1] = repr(float("%e" % float(lit[1])))
                except ValueError:
                    pass
            return lit
        return ["i", str(x)]
    for s, _p, o in graph.triples((None, URIRef(value_pred), None)):
        if isinstance(o, (URIRef, BNode)) and isinstance(s, URIRef) and str(s).startswith(NS):
            content = sorted([str(pp), plain(x)] for pp, x in graph.predicate_objects(o))
            ren[o] = ["q", str(s)[len(NS):], content]
    for _s, _p, o in graph.triples((URIRef(NS + "Hub"), URIRef(NS + "hasTerminology"), None)):
        types = sorted(str(t) for t in graph.objects(o, RDF.type))
        if types:
            ren[o] = ["t", types[0]]

    def term(x):
        if x in ren:
            return ren[x]
        if isinstance(x, BNode):
            return ["b", str(x)]
        return plain(x)
    return set(fw.canon([term(s), term(p), term(o)]) for s, p, o in graph)


def default_subclasses():
    try:
        from odml.tools.rdf_converter import load_rdf_subclasses
        d = load_rdf_subclasses()
    except Exception:
        import yaml
        import odml
        path = os.path.join(os.path.dirname(odml.__file__), "resources", "section_subclasses.yaml")
        with open(path) as fh:
            d = yaml.safe_load(fh)
    return dict(d or {})


# ----------------------------------------------------------------------------- the check
class C10(fw.Check):
    prop = "C10"
    lean_targets = ["OdmlModel.Props.C10"]
    obligations = ["C10." + t for t in [
        "rdf_tables_wellformed", "reader_accepts_rdf_keys", "formats_supported", "export_shape",
        "export_one_hub", "export_hub_links_every_document", "export_object_nodes",
        "export_property_node", "export_values_ordered", "export_section_typed", "writer_keeps_switch",
        "export_subclassing_off", "export_off_with_custom_map", "objects_perm",
        "rdf_roundtrip", "rdf_roundtrip_partial", "import_perm_invariant",
        "uncertainty_imported_as_text", "rdf_roundtrip_counterexample",
        "empty_attribute_dropped_counterexample"]]
    trusted_base = [
        "Lean 4.33.0 kernel; axioms propext, Classical.choice, Quot.sound only (audited per theorem)",
        "hand-written model lean/OdmlModel/Model/Rdf.lean, tied to /repo by this correspondence run",
        "harness/extract_tables.py (format._rdf_map / _rdf_type regenerated into Lean on every run)",
        "Driver/C10.lean JSON glue; harness/framework.py, harness/c10.py (canonical renaming of fresh nodes, literal normalisation)",
        "rdflib: Graph as a set of triples, serialise/parse per format, Literal <-> Python value (validated per case, breaches reported)",
    ]
    assumptions = [
        "in the streams tied to the model documents carry no link/include (finalize is the identity); ids are "
        "canonical uuid strings. Documents with resolved links, writers / readers used more than once and the "
        "run in another process are judged by the implementation-level oracle alone; what a reader does with a "
        "graph that is not an export (the damaged texts of the reader histories) is not judged at all",
        "repository URLs are not IRIs of RDF classes occurring in the graph",
        "values conform to their dtype (C05), so Property(values=..., dtype=...) keeps imported values",
    ]
    rule = ("random small document sets (1-3 documents, depth <= 3, <= 3 children per kind, <= 4 values) "
            "x {xml, nt, json-ld, turtle, n3} x sub-classing on/off/custom x string/file/ODMLWriter entry; "
            "values of every dtype incl. full-precision floats, big ints, tuples, text with quotes/newlines/"
            "non-ASCII (since round 2: 0-12 values, non-finite floats, years < 1000, fractions of seconds, \\r / NEL / "
            "U+2028 / whitespace-only text, unnamed objects, empty document lists). Round 2 adds: the other entry "
            "points (a Document instead of a list, RDFReader(file, fmt).to_odml(), ODMLReader.from_file, odml.save, "
            "file names that already carry the extension / non-ASCII / blank); histories of ONE writer (2-3 exports "
            "through get_rdf_str / write_file / convert_to_rdf / str(), refused calls in between, the documents "
            "grow, change, shrink or carry links in between); one reader used twice; a run in another process "
            "(locale C, other hash seed). Round 3 adds: histories of ONE reader (RDFReader, RDFReader(file, fmt), "
            "ODMLReader; 2-4 imports in mixed serialisations and entry points: exports damaged below the top "
            "level - a Section / Property at any depth without a name, a link to a node that is not there, a "
            "Section that links its own parent, an unknown dtype, no Hub, text that is no RDF - then the repaired "
            "or edited export of the same documents, other documents, an empty export, the same graph once "
            "more, a second reader in between, a new reader afterwards); an export that is refused while it "
            "runs (unresolvable link) before the next export of the same writer; chains of 9-100 nested "
            "Sections and 10-21 siblings; objects with cardinalities. Round 6 adds the writer configuration as a "
            "dimension of its own: switch on/off x no map / custom map (as often off as on; keys drawn from the "
            "types of the documents, from the default map, next to them; a dict / OrderedDict / None / {}) x the "
            "switch set through the public attribute after the writer was created (one-shot) or between the "
            "exports of one writer (histories); types on and next to the keys of both maps. Non-trivial = at least one Section and one Property with values (history: "
            "at least one edit took effect); distinct = distinct canonical JSON of the case.")
    quick_n = 400
    thorough_n = 7000

    # -- generation ----------------------------------------------------------
    @staticmethod
    def gen_year(rng):
        # (round 2) years below 1000 as well: four-digit zero padded in ISO text
        return rng.choice([rng.randrange(1000, 3000), rng.randrange(1000, 3000), rng.randrange(1000, 3000),
                           rng.randrange(1, 1000)])

    def gen_values(self, rng):
        kind = rng.choice(["string", "int", "float", "boolean", "date", "time", "datetime", "tuple",
                           "text", "url", "person", "none", "float", "string", "int"])
        # now and then ten and more values: rdf:_10 sorts before rdf:_2 as text
        n = rng.choice([1, 2, 3, 4, 1, 2, 3, 4, 10, 12])
        if kind == "none":
            return rng.choice([None, "int", "string"]), []
        if kind in ("string", "person"):
            pool = [s for s in STRINGS if "\n" not in s]
            return kind, [rng.choice(pool) for _ in range(n)]
        if kind == "text":
            return kind, [rng.choice(STRINGS) for _ in range(n)]
        if kind == "url":
            return kind, [rng.choice(URLS + ["http://a.b/c?d=e&f=g"]) for _ in range(n)]
        if kind == "int":
            return kind, [enc_val(rng.choice(INTS + [rng.randrange(-10 ** 6, 10 ** 25)])) for _ in range(n)]
        if kind == "float":
            return kind, [enc_val(rng.choice(VFLOATS + [rng.random(), rng.uniform(-1e6, 1e6),
                                                       round(rng.uniform(0, 100), 2)])) for _ in range(n)]
        if kind == "boolean":
            return kind, [rng.choice([True, False]) for _ in range(n)]
        if kind == "date":
            return kind, [{"d": "%04d-%02d-%02d" % (self.gen_year(rng), rng.randrange(1, 13),
                                                    rng.randrange(1, 29))} for _ in range(n)]
        if kind == "time":
            return kind, [{"t": "%02d:%02d:%02d" % (rng.randrange(24), rng.randrange(60), rng.randrange(60))
                           + rng.choice(["", "", "", ".000456", ".5"])} for _ in range(n)]
        if kind == "datetime":
            return kind, [{"dt": "%04d-%02d-%02dT%02d:%02d:%02d" % (
                self.gen_year(rng), rng.randrange(1, 13), rng.randrange(1, 29), rng.randrange(24),
                rng.randrange(60), rng.randrange(60)) + rng.choice(["", "", "", ".000789"])} for _ in range(n)]
        k = rng.randrange(2, 4)
        return "%d-tuple" % k, ["(%s)" % ";".join(rng.choice(["1", "2", "30", "x", "1.5", "a b"])
                                                   for _ in range(k)) for _ in range(n)]

    def opt(self, rng, pool, p=0.4):
        return rng.choice(pool) if rng.random() < p else None

    def gen_prop(self, rng, name):
        dtype, vals = self.gen_values(rng)
        unc = None
        r = rng.random()
        if r < 0.3:
            unc = enc_val(rng.choice(FLOATS))
        elif r < 0.35:
            unc = enc_val(rng.choice([1, 2, 0]))
        if rng.random() < 0.04:
            name = None       # (round 2) an unnamed Property is named by its id
        card = rng.choice([1, [1, 2], [None, 3], [5, 6], [0, None], 12]) if rng.random() < 0.06 else None
        return {"val_cardinality": card, "name": name, "dtype": dtype, "values": vals, "unit": self.opt(rng, ["mV", "s", u"µm", ""]),
                "uncertainty": unc, "definition": self.opt(rng, STRINGS), "reference": self.opt(rng, STRINGS),
                "value_origin": self.opt(rng, STRINGS + ["file.dat"])}

    def gen_sec(self, rng, name, depth):
        names = list(NAMES)
        rng.shuffle(names)
        nprops = rng.choice([0, 1, 1, 2, 3])
        nsubs = 0 if depth >= 3 else rng.choice([0, 0, 1, 2, 3] if depth < 2 else [0, 0, 1])
        if rng.random() < 0.04:
            name = None       # (round 2) an unnamed Section is named by its id
        cards = [None, None]
        if rng.random() < 0.06:
            cards = [rng.choice([None, 1, [1, 2], [None, 1], [3, None]]) for _ in range(2)]
        return {"sec_cardinality": cards[0], "prop_cardinality": cards[1], "name": name, "type": rng.choice(TYPES), "definition": self.opt(rng, STRINGS),
                "reference": self.opt(rng, STRINGS), "repository": self.opt(rng, URLS, 0.15),
                "props": [self.gen_prop(rng, names[i]) for i in range(nprops)],
                "subs": [self.gen_sec(rng, names[i], depth + 1) for i in range(nsubs)]}

    def gen_doc(self, rng, small=False):
        names = list(NAMES)
        rng.shuffle(names)
        nsecs = rng.choice([0, 1, 1, 2] if small else [0, 1, 1, 2, 3])
        return {"author": self.opt(rng, STRINGS), "version": self.opt(rng, ["1", "v1.2", u"é"]),
                "date": self.opt(rng, ["2020-01-02", "1999-12-31", "0987-06-05"]), "repository": self.opt(rng, URLS, 0.2),
                "origin": self.opt(rng, ["file.xml"], 0.1),
                "secs": [self.gen_sec(rng, names[i], 2 if small else 1) for i in range(nsecs)]}

    # -- generation, round 6: the writer configuration as a dimension of its own --------------
    @staticmethod
    def spec_types(docs):
        out = []

        def walk(s):
            out.append(s.get("type", "n.s."))
            for c in s.get("subs", []):
                walk(c)
        for d in docs:
            for s in d.get("secs", []):
                walk(s)
        return out

    def gen_custom(self, rng, docs):
        """a custom map seen from the documents it is used on: keys that are types of their Sections
        (mapped by the default map or not), parents / sub-paths / other spellings of such types, types
        that do not occur; one to three entries, now and then two types of one class"""
        present = sorted(set(self.spec_types(docs))) or ["cell"]
        near = []
        for t in present:
            near += [t.split("/")[0], t + "/sub", t.upper(), t + " "]
        pool = present * 4 + ["cell", "analysis", "setup", "recording"] + near + ["no/such/type"]
        names = list(CLASS_NAMES)
        rng.shuffle(names)
        if rng.random() < 0.2:
            names[1] = names[0]
        keys = []
        for _ in range(rng.choice([1, 1, 2, 3])):
            k = rng.choice(pool)
            if k not in keys:
                keys.append(k)
        return dict((k, names[i]) for i, k in enumerate(keys))

    def gen_config(self, rng, mode, docs, old=None):
        """-> the configuration fields of a case. `subclassing` is the value of the switch when the export
        runs; `flag_set` (now and then): the writer was created with another (or the same) value and the
        public attribute `rdf_subclassing` was set afterwards; `custom_as`: how the map is handed over"""
        custom = {}
        if mode.startswith("custom"):
            custom = rng.choice(old) if (old and rng.random() < 0.25) else self.gen_custom(rng, docs)
        cfg = {"subclassing": mode in ("on", "custom"), "custom": custom}
        if rng.random() < 0.15:
            other = rng.random() < 0.75
            cfg["flag_set"] = {"ctor": (not cfg["subclassing"]) if other else cfg["subclassing"]}
        if custom:
            cfg["custom_as"] = rng.choice(["dict", "dict", "dict", "ordered"])
        else:
            cfg["custom_as"] = rng.choice(["absent", "absent", "none", "empty"])
        return cfg

    def generate(self, tier, rng):
        n = self.quick_n if tier == "quick" else self.thorough_n
        cases = []
        for i in range(n):
            ndocs = rng.choice([1, 1, 1, 2, 3])
            # (round 6) the switch and the custom map are independent: off + custom map as often as the rest
            mode = rng.choice(["on", "off", "custom", "custom-off"])
            entry = rng.choice(["string", "string", "file", "parser", "reuse"])
            if entry == "parser":
                ndocs, mode = 1, "on"
            docs = [self.gen_doc(rng) for _ in range(ndocs)]
            case = {"stream": "rt", "docs": docs, "fmt": FORMATS[i % len(FORMATS)], "entry": entry}
            case.update(self.gen_config(rng, mode, docs, old=[{"custom": "Custom"}, {"cell": "MyCell", "mytype": "Mine"},
                                                              {"n.s.": "Unspecified"}]))
            cases.append(case)
        cases += self.generate_round2(tier, rng)
        cases += self.generate_round3(tier, rng)
        for fmt in ["xml", "turtle", "nt", "json-ld", "n3", "pretty-xml", "trig", "bogus", "", "XML", "rdf"]:
            cases.append({"stream": "format", "fmt": fmt})
        for custom in [{"a": "B C"}, {"a": "B", "c": "D\tE"}, {"a": "B\n"}, {"cell": "X"}, {"k": u"A B"}]:
            cases.append({"stream": "custom", "custom": custom})
        # (round 6) module-level state after a writer with the switch off (with and without a custom map):
        # the next writer starts from the declared sub-classes; whether a writer that is switched off
        # looks at its custom map at all is not judged (oracle-only)
        for custom in [{"cell": "X"}, {}, {"a": "B C"}]:
            cases.append({"stream": "custom", "custom": custom, "subclassing": False})
        return cases

    # -- generation, round 2: entry points, object histories, process state -----
    MORE_ENTRIES = ["single", "ctor", "oreader", "save", "file:ext", "file:extdir", "file:extmid",
                    "file:nonascii", "file:space"]

    def generate_round2(self, tier, rng):
        quick = tier == "quick"
        cases = []
        # (a) the remaining public entry points and argument shapes of a one-shot export / import
        for i in range(27 if quick else 600):
            entry = self.MORE_ENTRIES[i % len(self.MORE_ENTRIES)]
            ndocs = rng.choice([1, 1, 2, 0])
            mode = rng.choice(["on", "off", "custom", "custom-off"])
            if entry == "save":
                ndocs, mode = 1, "on"
            if entry == "single":
                ndocs = 1
            docs = [self.gen_doc(rng, small=quick) for _ in range(ndocs)]
            case = {"stream": "rt", "docs": docs, "entry": entry,
                    "fmt": FORMATS[(i // len(self.MORE_ENTRIES) + i) % len(FORMATS)]}
            case.update(self.gen_config(rng, mode, docs, old=[
                {"custom": "Custom"}, {"cell": "MyCell", "mytype": "Mine"}, {"n.s.": "Unspecified"},
                {u"tüp": u"Tüp"}]))
            if entry == "save":
                case.pop("flag_set", None)
            cases.append(case)
        # (b) one writer, several exports, the documents change in between
        kinds = ["grow", "grow", "edit", "grow", "link", "grow", "edit", "grow", "link"]
        for i in range(36 if quick else 630):
            cases.append(self.gen_hist(rng, kinds[i % len(kinds)], FORMATS[i % len(FORMATS)]))
        # (c) one reader, several imports
        for i in range(8 if quick else 60):
            cases.append({"stream": "rreuse", "fmt": FORMATS[i % len(FORMATS)],
                          "a": [self.gen_doc(rng, small=True) for _ in range(rng.choice([1, 1, 2]))],
                          "b": [self.gen_doc(rng, small=True) for _ in range(rng.choice([1, 1, 2]))],
                          "between": rng.choice([None, None, "garbage", "same"]),
                          "entry": rng.choice(["string", "file", "oreader"])})
        # (d) another process: C locale (ASCII default encoding), another hash seed
        for i in range(2 if quick else 6):
            cases.append({"stream": "proc", "fmt": FORMATS[rng.randrange(len(FORMATS))],
                          "docs": [self.gen_doc(rng, small=True) for _ in range(rng.choice([1, 2]))],
                          "hashseed": rng.randrange(1, 1000), "marker": u"Köln \u03b1\u03b2 \U0001F600"})
        return cases

    GROW_OPS = ["add_prop", "add_prop", "add_prop", "add_sec", "add_sec", "set_attr", "set_attr", "add_doc",
                "fill_values"]
    EDIT_OPS = ["set_attr!", "rename", "retype", "remove_prop", "remove_sec", "rev_values", "dup_value",
                "drop_value", "set_attr!", "add_prop", "add_sec"]

    def gen_path(self, rng):
        return [rng.randrange(6) for _ in range(rng.choice([1, 2, 2, 3, 3, 4]))]

    def gen_edit(self, rng, op):
        e = {"op": op.rstrip("!"), "at": self.gen_path(rng)}
        if op in ("add_prop",):
            e["spec"] = self.gen_prop(rng, rng.choice(NAMES + ["new", "temperature"]))
        elif op == "add_sec":
            e["spec"] = self.gen_sec(rng, rng.choice(NAMES + ["new", "stimulus"]), 2)
        elif op == "add_doc":
            e["spec"] = self.gen_doc(rng)
        elif op in ("set_attr", "set_attr!"):
            e["prop"] = rng.choice([None, 0, 1, 2])
            e["attr"] = rng.randrange(6)
            e["value"] = rng.choice([x for x in STRINGS if x.strip()])
            e["overwrite"] = op.endswith("!")
        elif op == "rename":
            e["prop"] = rng.choice([None, 0, 1])
            e["name"] = rng.choice(["renamed", u"r\u00e9", "z z"])
        elif op == "retype":
            e["type"] = rng.choice(TYPES)
        elif op in ("remove_prop", "rev_values", "dup_value", "drop_value", "fill_values"):
            e["prop"] = rng.randrange(3)
        return e

    def gen_hist(self, rng, kind, fmt):
        ndocs = rng.choice([1, 1, 2])
        docs = []
        for _ in range(ndocs):
            d = self.gen_doc(rng)
            names = list(NAMES)
            rng.shuffle(names)
            d["secs"] = [self.gen_sec(rng, names[i], 2) for i in range(rng.choice([1, 2, 2, 3]))]
            docs.append(d)
        # (round 6) the custom map also with the switch off, keys drawn from the types of the documents
        mode = rng.choice(["on", "on", "off", "custom", "custom-off"])
        custom = {}
        if mode.startswith("custom"):
            custom = rng.choice([{"custom": "Custom"}, {"cell": "MyCell"}, self.gen_custom(rng, docs),
                                 self.gen_custom(rng, docs)])
        links = []
        if kind == "link":
            links = [{"at": self.gen_path(rng), "to": self.gen_path(rng)} for _ in range(rng.choice([1, 1, 2]))]
        nsteps = rng.choice([2, 2, 3]) if kind != "link" else rng.choice([1, 2, 2])
        steps = []
        for k in range(nsteps):
            edits = []
            if k > 0 or rng.random() < 0.2:
                ops = self.EDIT_OPS if kind == "edit" else self.GROW_OPS
                edits = [self.gen_edit(rng, rng.choice(ops)) for _ in range(rng.choice([1, 2, 3]))]
            steps.append({"edits": edits, "fmt": fmt if rng.random() < 0.6 else rng.choice(FORMATS),
                          "entry": rng.choice(["string", "string", "file", "convert", "str"]),
                          "refused": rng.choice([None, None, None, "badfmt", "nodir", "badlink"]),
                          "refused_at": self.gen_path(rng),
                          # (round 6) the switch is a public attribute of the writer: it is turned off / on
                          # (or set to what it is) before this step; the export follows its value at that time
                          "set_flag": rng.choice([None, None, None, True, False])})
        return {"stream": "hist", "kind": kind, "docs": docs, "links": links,
                "subclassing": mode in ("on", "custom"), "custom": custom, "steps": steps}

    # -- generation, round 3: histories of ONE reader, refusals below the top level, deep / wide trees --
    DAMAGES = ["noname", "noname", "noname", "dangling", "dangling", "cycle", "baddtype", "nohub", "garbage"]

    def gen_damage(self, rng):
        return {"kind": rng.choice(self.DAMAGES), "tkind": rng.choice(["sec", "prop"]),
                "nested": rng.random() < 0.6, "target": rng.randrange(12), "up": rng.randrange(3)}

    def gen_rhist(self, rng, fmt):
        def some_docs(n):
            docs = []
            for _ in range(n):
                d = self.gen_doc(rng, small=True)
                names = list(NAMES)
                rng.shuffle(names)
                d["secs"] = [self.gen_sec(rng, names[i], rng.choice([1, 2, 2]))
                             for i in range(rng.choice([1, 1, 2]))]
                docs.append(d)
            return docs
        mode = rng.choice(["on", "on", "off", "custom", "custom-off"])
        custom = rng.choice([{"custom": "Custom"}, {"cell": "MyCell"}, {"n.s.": "Section", "cell": "Property"}]) \
            if mode.startswith("custom") else {}
        whats = ["good", "damaged", "damaged", "damaged", "damaged", "edited", "other", "empty", "again"]
        nsteps = rng.choice([2, 2, 3, 3, 4])
        steps = []
        for k in range(nsteps):
            what = rng.choice(whats)
            if k == nsteps - 1:
                # a history ends with an import that is judged
                what = rng.choice(["good", "good", "good", "edited", "other", "again"])
            st = {"what": what, "fmt": fmt if rng.random() < 0.6 else rng.choice(FORMATS),
                  "entry": rng.choice(["string", "string", "file"]),
                  "reader2": what == "damaged" and rng.random() < 0.15}
            if what == "damaged":
                st["damage"] = self.gen_damage(rng)
            if what == "edited":
                st["edits"] = [self.gen_edit(rng, rng.choice(self.EDIT_OPS + self.GROW_OPS))
                               for _ in range(rng.choice([1, 2, 3]))]
            steps.append(st)
        return {"stream": "rhist", "docs": some_docs(rng.choice([1, 1, 2, 3])), "other": some_docs(rng.choice([1, 2])),
                "subclassing": mode in ("on", "custom"), "custom": custom,
                "reader": rng.choice(["rdf", "rdf", "rdf", "ctor", "oreader", "oreader:warn"]),
                "writer": rng.choice(["fresh", "fresh", "owriter"]),
                "fresh_after": rng.random() < 0.5, "steps": steps}

    def gen_deep_doc(self, rng, depth):
        """a chain of `depth` nested Sections (a Property here and there, one at the bottom)"""
        inner = None
        for i in range(depth, 0, -1):
            sec = {"name": "lvl%d" % i, "type": rng.choice(TYPES), "definition": self.opt(rng, STRINGS, 0.2),
                   "reference": None, "repository": None,
                   "props": [self.gen_prop(rng, "p")] if (i == depth or rng.random() < 0.2) else [],
                   "subs": [inner] if inner else []}
            inner = sec
        d = self.gen_doc(rng, small=True)
        d["secs"] = [inner] + d["secs"][:1]
        if len(d["secs"]) == 2 and d["secs"][1].get("name") == inner["name"]:
            d["secs"] = d["secs"][:1]
        return d

    def gen_wide_doc(self, rng, nprops, nsubs):
        """ten and more siblings of every kind (counted and named with two digits)"""
        top = self.gen_sec(rng, "wide", 3)
        top["props"] = [self.gen_prop(rng, "p%d" % i) for i in range(nprops)]
        top["subs"] = [{"name": "s%d" % i, "type": rng.choice(TYPES), "definition": None, "reference": None,
                        "repository": None, "props": [self.gen_prop(rng, "p")] if i % 4 == 0 else [], "subs": []}
                       for i in range(nsubs)]
        d = self.gen_doc(rng, small=True)
        d["secs"] = [top] + [{"name": "t%d" % i, "type": "t", "definition": None, "reference": None,
                              "repository": None, "props": [], "subs": []} for i in range(rng.choice([0, 10]))]
        return d

    def generate_round3(self, tier, rng):
        quick = tier == "quick"
        cases = []
        # (a) one reader, a history of imports: exports that were damaged below the top level (refused by
        #     the odML layer, not by rdflib), the repaired / edited export of the same documents, other
        #     documents, nothing, the same graph again; RDFReader, RDFReader(file, fmt), ODMLReader
        for i in range(45 if quick else 500):
            cases.append(self.gen_rhist(rng, FORMATS[i % len(FORMATS)]))
        # (b) boundary sizes of the tree: long chains of nested Sections, ten and more siblings
        shapes = ["deep:12", "wide:11:10", "deep:40", "deep:100", "wide:10:12", "deep:25",
                  "wide:13:11", "deep:60", "wide:12:21", "deep:9", "wide:10:10", "deep:33"]
        for i in range(6 if quick else 36):
            shape = shapes[i % len(shapes)]
            if shape.startswith("wide"):
                doc = self.gen_wide_doc(rng, int(shape.split(":")[1]), int(shape.split(":")[2]))
            else:
                doc = self.gen_deep_doc(rng, int(shape[5:]))
            docs = [doc] + ([self.gen_doc(rng, small=True)] if rng.random() < 0.3 else [])
            case = {"stream": "rt", "docs": docs, "fmt": FORMATS[(i + i // 12) % len(FORMATS)],
                    "entry": rng.choice(["string", "file", "ctor"])}
            case.update(self.gen_config(rng, rng.choice(["on", "on", "off", "custom", "custom-off"]), docs))
            cases.append(case)
        cases += self.generate_round6(tier, rng)
        return cases

    # -- generation, round 6: every combination of switch x map x later change of the switch, on documents
    #    whose Section types sit on and next to the keys of both maps ------------------------------------
    def generate_round6(self, tier, rng):
        quick = tier == "quick"
        cases = []
        combos = [(flag, cust, ctor) for flag in (True, False) for cust in ("none", "own", "default", "miss", "both")
                  for ctor in (None, None, True, False)]
        rng.shuffle(combos)
        for i in range(14 if quick else 240):
            flag, cust, ctor = combos[i % len(combos)]
            doc = self.gen_doc(rng, small=True)
            names = list(NAMES)
            rng.shuffle(names)
            doc["secs"] = [self.gen_sec(rng, names[k], 2) for k in range(rng.choice([2, 3]))]
            # a type of the default map, one only a custom map knows, an unmapped one - at the top and nested
            doc["secs"][0]["type"] = rng.choice(["cell", "setup", "analysis/psth", "recording"])
            doc["secs"][1]["type"] = rng.choice(["setup/rig", "mytype", "custom"])
            doc["secs"][0]["subs"] = doc["secs"][0]["subs"][:2] + [
                {"name": "inner", "type": doc["secs"][1]["type"], "definition": None, "reference": None,
                 "repository": None, "props": [self.gen_prop(rng, "p")], "subs": []}]
            docs = [doc] + ([self.gen_doc(rng, small=True)] if rng.random() < 0.3 else [])
            custom = {}
            if cust in ("own", "both"):
                custom[doc["secs"][1]["type"]] = rng.choice(CLASS_NAMES)
            if cust in ("default", "both"):
                custom[doc["secs"][0]["type"]] = rng.choice(CLASS_NAMES)
            if cust == "miss":
                custom = {doc["secs"][1]["type"] + "/x": "Custom", "no/such/type": "Mine"}
            case = {"stream": "rt", "docs": docs, "fmt": FORMATS[i % len(FORMATS)], "subclassing": flag,
                    "custom": custom, "custom_as": "dict" if custom else "absent",
                    "entry": rng.choice(["string", "string", "file", "single", "reuse", "ctor"])}
            if case["entry"] == "single":
                case["docs"] = docs[:1]
            if ctor is not None:
                case["flag_set"] = {"ctor": ctor}
            cases.append(case)
        return cases

    # -- implementation ------------------------------------------------------
    def impl(self, case):
        _quiet_terminology()
        st = case["stream"]
        if st == "hist":
            return self.impl_hist(case)
        if st == "rreuse":
            return self.impl_rreuse(case)
        if st == "rhist":
            return self.impl_rhist(case)
        if st == "proc":
            return self.impl_proc(case)
        if st == "format":
            return self.impl_format(case)
        if st == "custom":
            return self.impl_custom(case)
        return self.impl_rt(case)

    def impl_format(self, case):
        import odml
        from odml.tools.rdf_converter import RDFWriter
        from odml.tools.parser_utils import RDF_CONVERSION_FORMATS
        doc = odml.Document()
        odml.Section(name="s", type="t", parent=doc)
        try:
            text = RDFWriter([doc]).get_rdf_str(case["fmt"])
            out = "ok" if text else "empty"
        except Exception as exc:
            out = fw.exc_name(exc)
        return {"outcome": out, "formats": sorted(RDF_CONVERSION_FORMATS)}

    def impl_custom(self, case):
        import odml
        from odml.tools.rdf_converter import RDFWriter
        try:
            kw = {"custom_subclasses": dict(case["custom"])}
            if case.get("subclassing") is False:
                kw["rdf_subclassing"] = False
            w = RDFWriter([odml.Document()], **kw)
            out = {"outcome": "ok", "map": sorted(w.section_subclasses.items()),
                   "default": sorted(default_subclasses().items())}
        except Exception as exc:
            out = {"outcome": fw.exc_name(exc), "default": sorted(default_subclasses().items())}
        # (round 2) the next writer, created without a custom map, against the yaml file itself
        try:
            import yaml
            path = os.path.join(os.path.dirname(odml.__file__), "resources", "section_subclasses.yaml")
            with open(path) as fh:
                declared = yaml.safe_load(fh) or {}
            out["yaml"] = sorted([k, v] for k, v in declared.items())
            out["after"] = sorted([k, v] for k, v in RDFWriter([odml.Document()]).section_subclasses.items())
        except Exception:
            out.pop("yaml", None)
            out.pop("after", None)
        return out

    @staticmethod
    def writer_kw(case):
        """constructor arguments that give the configuration of the case (the switch as it is when the
        export runs). (round 6) `custom_as`: the map as a dict / an OrderedDict; no map = argument left
        out / None / an empty dict"""
        kw = {"rdf_subclassing": case["subclassing"]}
        how = case.get("custom_as")
        if case["custom"]:
            if how == "ordered":
                import collections
                kw["custom_subclasses"] = collections.OrderedDict(case["custom"].items())
            else:
                kw["custom_subclasses"] = dict(case["custom"])
        elif how == "none":
            kw["custom_subclasses"] = None
        elif how == "empty":
            kw["custom_subclasses"] = {}
        return kw

    @staticmethod
    def mk_writer(what, case, kw):
        """(round 6) a writer with the configuration `kw`; with `flag_set` it is created with another (or the
        same) value of the switch, which is then set through the public attribute `rdf_subclassing`"""
        from odml.tools.rdf_converter import RDFWriter
        fs = case.get("flag_set")
        if fs:
            kw2 = dict(kw)
            kw2["rdf_subclassing"] = fs["ctor"]
            writer = RDFWriter(what, **kw2)
            if hasattr(writer, "rdf_subclassing"):
                writer.rdf_subclassing = kw["rdf_subclassing"]
                return writer
        return RDFWriter(what, **kw)

    def impl_rt(self, case):
        import warnings
        import rdflib
        from odml import format as ofmt
        from odml.tools.rdf_converter import RDFWriter, RDFReader
        warnings.simplefilter("ignore")
        fmt = case["fmt"]
        docs = [build_doc(d) for d in case["docs"]]
        snap = [snap_doc(d) for d in docs]
        kw = self.writer_kw(case)
        value_pred = str(ofmt.Property.rdf_map("value"))
        obs = {"docs": snap, "default": sorted(default_subclasses().items())}

        def mk_writer(what):
            return self.mk_writer(what, case, kw)
        graph = mk_writer(docs).convert_to_rdf()
        obs["graph"], _ = canon_graph(graph, value_pred)
        obs["shape"] = self.shape_facts(graph, docs, kw)
        tmp = None
        entry = case["entry"]
        path = None
        try:
            if entry == "file":
                tmp = tempfile.mkdtemp(prefix="c10_")
                base = os.path.join(tmp, "out")
                mk_writer(docs).write_file(base, fmt)
                path = base + EXT[fmt]
                # newline="": the text as written (a lone \r in a literal is not a line end to translate)
                with open(path, encoding="utf-8", newline="") as fh:
                    text = fh.read()
            elif entry in ("ctor", "oreader") or entry.startswith("file:") or entry == "save":
                # (round 2) the other ways to a file: a name that already carries the extension (at the
                # end, in the middle, in a directory name), non-ASCII / blank in the name, odml.save;
                # whatever the name becomes, exactly one file has to appear and it is read back
                tmp = tempfile.mkdtemp(prefix="c10_")
                ext = EXT[fmt]
                rel = {"file:ext": "out" + ext, "file:extdir": os.path.join("d" + ext + ".d", "out"),
                       "file:extmid": "out" + ext + ".bak", "file:nonascii": u"aus\u00e9\u03b1",
                       "file:space": "my out"}.get(entry, "out")
                base = os.path.join(tmp, rel)
                if os.path.dirname(base) != tmp:
                    os.makedirs(os.path.dirname(base))
                saved = False
                if entry == "save":
                    import odml
                    try:
                        from odml.validation import Validation
                        saved = not any(e.is_error for e in Validation(docs[0]).errors)
                    except Exception:
                        saved = False
                    # odml.save refuses documents with validation errors; those go the plain way
                    if saved:
                        odml.save(docs[0], base, "RDF", rdf_format=fmt)
                obs["saved"] = saved
                if not saved:
                    mk_writer(docs).write_file(base, fmt)
                found = []
                for root, _dirs, files in os.walk(tmp):
                    found += [os.path.join(root, f) for f in files]
                obs["files"] = len(found)
                if len(found) != 1:
                    obs["original_raw"] = [self.raw_doc(d) for d in docs]
                    return obs
                path = found[0]
                with open(path, encoding="utf-8", newline="") as fh:
                    text = fh.read()
            elif entry == "parser":
                from odml.tools.odmlparser import ODMLWriter
                text = ODMLWriter("RDF").to_string(docs[0], rdf_format=fmt)
            elif entry == "single":
                # (round 2) a Document instead of a list of Documents
                text = mk_writer(docs[0]).get_rdf_str(fmt)
            elif entry == "reuse":
                # one writer asked twice (another serialisation first): the second text must still
                # import to the exported documents
                writer = mk_writer(docs)
                writer.get_rdf_str("nt" if fmt != "nt" else "xml")
                text = writer.get_rdf_str(fmt)
                obs["reused"] = True
            else:
                text = mk_writer(docs).get_rdf_str(fmt)
            parsed = rdflib.Graph().parse(data=text, format=fmt)
            obs["graph_parsed"], rename = canon_graph(parsed, value_pred)
            try:
                if entry == "ctor":
                    back = RDFReader(path, fmt).to_odml()
                elif entry in ("oreader", "save"):
                    from odml.tools.odmlparser import ODMLReader
                    back = ODMLReader("RDF", show_warnings=False).from_file(path, fmt)
                elif path is not None:
                    back = RDFReader().from_file(path, fmt)
                elif entry == "parser":
                    from odml.tools.odmlparser import ODMLReader
                    back = ODMLReader("RDF", show_warnings=False).from_string(text, fmt)
                else:
                    back = RDFReader().from_string(text, fmt)
                obs["imported"] = [canon_doc(snap_doc(d), rename) for d in back]
                obs["imported_raw"] = [self.raw_doc(d) for d in back]
            except Exception as exc:
                obs["imported"] = {"raised": fw.exc_name(exc)}
                obs["imported_raw"] = {"raised": fw.exc_name(exc)}
        finally:
            if tmp:
                shutil.rmtree(tmp, ignore_errors=True)
        obs["original_raw"] = [self.raw_doc(d) for d in docs]
        return obs

    # -- round 2: one writer, a history of edits and exports -------------------
    @staticmethod
    def resolve(docs, at):
        """path of small numbers -> Document or Section (indices wrap around, a path stops early
        where there are no further sub-sections)"""
        cur = docs[at[0] % len(docs)]
        for i in at[1:]:
            secs = list(cur.sections)
            if not secs:
                break
            cur = secs[i % len(secs)]
        return cur

    @staticmethod
    def free_name(name, siblings):
        taken = set(x.name for x in siblings)
        if name is None or name not in taken:
            return name
        n = 2
        while "%s %d" % (name, n) in taken:
            n += 1
        return "%s %d" % (name, n)

    def apply_edit(self, docs, e, grow_only, writer=None):
        """-> None (not applicable here, nothing done) | False (something was added, nothing that had
        been there before changed) | True (an attribute / name / type / value list that may already
        have been exported changed, or an object was removed)"""
        import odml
        op = e["op"]
        if op == "add_doc":
            # a further document is handed to the writer through its public list of documents
            # (weaker reading: a writer may keep a list of its own instead of the caller's)
            held = getattr(writer, "docs", None)
            if not isinstance(held, list):
                return None
            new = build_doc(e["spec"])
            held.append(new)
            if held is not docs:
                docs.append(new)
            return False
        cur = self.resolve(docs, e["at"])
        is_doc = isinstance(cur, odml.doc.BaseDocument)

        def the_prop():
            if is_doc:
                return None
            props = list(cur.properties)
            return props[e["prop"] % len(props)] if props else None
        if op == "add_sec":
            spec = dict(e["spec"])
            spec["name"] = self.free_name(spec.get("name"), cur.sections)
            build_sec(spec, cur)
            return False
        if op == "add_prop":
            if is_doc:
                if not len(cur.sections):
                    return None
                cur = cur.sections[0]
            spec = dict(e["spec"])
            spec["name"] = self.free_name(spec.get("name"), cur.properties)
            build_prop(spec, cur)
            return False
        if op == "set_attr":
            target = cur
            names = ["author", "version"] if is_doc else ["definition", "reference"]
            if e.get("prop") is not None and not is_doc:
                target = the_prop()
                names = ["definition", "reference", "unit", "value_origin"]
                if target is None:
                    return None
            attr = names[e["attr"] % len(names)]
            was_set = getattr(target, attr) not in (None, "")
            if was_set and (grow_only or not e.get("overwrite")):
                return None
            setattr(target, attr, e["value"])
            return was_set
        if op == "rename":
            target = cur if e.get("prop") is None else the_prop()
            if target is None or isinstance(target, odml.doc.BaseDocument):
                return None
            sibs = target.parent.sections if target is cur else target.parent.properties
            new = self.free_name(e["name"], sibs)
            if new == target.name:
                return None
            target.name = new
            return True
        if op == "retype":
            if is_doc or cur.type == e["type"]:
                return None
            cur.type = e["type"]
            return True
        if op == "remove_sec":
            if is_doc:
                return None
            cur.parent.remove(cur)
            return True
        prop = the_prop()
        if prop is None:
            return None
        if op == "remove_prop":
            cur.remove(prop)
            return True
        vals = list(prop.values)
        if op == "fill_values":
            if vals:
                return None
            prop.values = [1, 2, 3] if prop.dtype in (None, "int", "string", "text", "float") else []
            return False if list(prop.values) else None
        if not vals:
            return None
        if op == "rev_values":
            new = list(reversed(vals))
        elif op == "dup_value":
            new = vals + vals[:1]
        else:
            new = vals[:-1]
        if repr(new) == repr(vals):
            return None
        prop.values = new
        return True

    def apply_links(self, docs, links):
        import odml
        n = 0
        for ln in links:
            src, tgt = self.resolve(docs, ln["at"]), self.resolve(docs, ln["to"])
            if isinstance(src, odml.doc.BaseDocument) or isinstance(tgt, odml.doc.BaseDocument):
                continue
            if src.document is not tgt.document or src.link:
                continue
            a, b = src.get_path(), tgt.get_path()
            if a == b or (a + "/").startswith(b + "/") or (b + "/").startswith(a + "/"):
                continue
            try:
                src.link = b
                n += 1
            except Exception:
                pass
        return n

    @staticmethod
    def all_ids(raw_docs):
        out = set()

        def sec(x):
            out.add(x["id"])
            for q in x["props"]:
                out.add(q["id"])
            for c in x["subs"]:
                sec(c)
        for d in raw_docs:
            out.add(d["id"])
            for x in d["secs"]:
                sec(x)
        return out

    def impl_hist(self, case):
        import warnings
        import odml
        import rdflib
        from rdflib import URIRef
        from rdflib.namespace import RDF
        from odml import format as ofmt
        from odml.tools.rdf_converter import RDFWriter, RDFReader
        warnings.simplefilter("ignore")
        value_pred = str(ofmt.Property.rdf_map("value"))
        docs = [build_doc(d) for d in case["docs"]]
        nlinks = self.apply_links(docs, case.get("links", []))
        kw = self.writer_kw(case)
        grow_only = case["kind"] == "grow"
        obs = {"links": nlinks, "steps": []}
        writer = RDFWriter(docs, **kw)
        changed = False                        # something already exported changed or went away
        exported = False
        tmp = None
        if any(st["entry"] == "file" or st.get("refused") == "nodir" for st in case["steps"]):
            tmp = tempfile.mkdtemp(prefix="c10_")
        try:
            for k, step in enumerate(case["steps"]):
                fmt = step["fmt"]
                so = {"fmt": fmt, "entry": step["entry"], "edits": []}
                obs["steps"].append(so)
                for e in step["edits"]:
                    try:
                        r = self.apply_edit(docs, e, grow_only, writer)
                    except Exception as exc:
                        # an edit the library refuses is recorded, not judged here; outside the
                        # grow-only histories it may have been applied half-way
                        r = "refused:" + fw.exc_name(exc)
                        if not grow_only and exported:
                            changed = True
                    so["edits"].append(r)
                    if r is True and exported:
                        changed = True
                # (round 6) the switch of the live writer is set before this step
                if step.get("set_flag") is not None and hasattr(writer, "rdf_subclassing"):
                    if bool(writer.rdf_subclassing) != step["set_flag"] and exported:
                        changed = True
                    writer.rdf_subclassing = step["set_flag"]
                    kw["rdf_subclassing"] = step["set_flag"]
                    so["set_flag"] = step["set_flag"]
                so["flag"] = kw["rdf_subclassing"]
                # an earlier refused call must not matter
                if step.get("refused") == "badfmt":
                    try:
                        writer.get_rdf_str("bogus")
                        so["refused"] = "accepted"
                    except Exception as exc:
                        so["refused"] = fw.exc_name(exc)
                elif step.get("refused") == "nodir":
                    try:
                        writer.write_file(os.path.join(tmp, "missing", "dir", "out"), fmt)
                        so["refused"] = "accepted"
                    except Exception as exc:
                        so["refused"] = fw.exc_name(exc)
                    exported = True
                elif step.get("refused") == "badlink":
                    # (round 3) an export that is refused while it runs: a Section of (typically not the
                    # first) document carries a link that cannot be resolved, Document.finalize() raises
                    # after the documents before it have been converted; the link is taken away again
                    sec = self.resolve(docs, step.get("refused_at") or [0])
                    if isinstance(sec, odml.doc.BaseDocument):
                        sec = sec.sections[-1] if len(sec.sections) else None
                    if sec is not None and getattr(sec, "_link", 0) is None and \
                            getattr(sec, "_include", 0) is None:
                        # (Section.link documents `_link` as the way to set a link without resolving it)
                        sec._link = "/c10 no such section/x"
                        try:
                            writer.get_rdf_str(fmt)
                            so["refused"] = "accepted"
                        except Exception as exc:
                            so["refused"] = fw.exc_name(exc)
                        finally:
                            sec._link = None
                        exported = True
                if exported and nlinks:
                    # every conversion resolves the links again: the linked copies are replaced by new
                    # ones (new ids) and merged content may change
                    changed = True
                so["changed"] = changed
                path = None
                try:
                    if step["entry"] == "file":
                        base = os.path.join(tmp, "step%d" % k)
                        writer.write_file(base, fmt)
                        path = base + EXT[fmt]
                        with open(path, encoding="utf-8", newline="") as fh:
                            text = fh.read()
                    elif step["entry"] == "convert":
                        text = writer.convert_to_rdf().serialize(format=fmt)
                        if isinstance(text, bytes):
                            text = text.decode("utf-8")
                    elif step["entry"] == "str":
                        fmt = so["fmt"] = "turtle"
                        text = str(writer)
                    else:
                        text = writer.get_rdf_str(fmt)
                except Exception as exc:
                    so["export_raised"] = fw.exc_name(exc)
                    exported = True
                    # the writer finalizes the documents first (links are resolved again); a document
                    # that Document.finalize() itself refuses is no input of the export
                    for d in docs:
                        try:
                            d.finalize()
                        except Exception as exc2:
                            so["finalize_raised"] = fw.exc_name(exc2)
                    continue
                exported = True
                so["original_raw"] = [self.raw_doc(d) for d in docs]
                now_ids = self.all_ids(so["original_raw"])
                parsed = rdflib.Graph().parse(data=text, format=fmt)
                g = canon_triples_multi(parsed, value_pred)
                so["untyped"] = sorted(i for i in now_ids
                                       if not list(parsed.objects(URIRef(NS + i), RDF.type)))[:5]
                so["subclass_bad"] = self.subclass_facts(parsed, docs, kw)
                try:
                    back = RDFReader().from_file(path, fmt) if path else RDFReader().from_string(text, fmt)
                    so["imported_raw"] = [self.raw_doc(d) for d in back]
                except Exception as exc:
                    so["imported_raw"] = {"raised": fw.exc_name(exc)}
                # the same documents through a writer of their own
                ftext = RDFWriter(list(docs), **kw).get_rdf_str(fmt)
                volatile = now_ids ^ self.all_ids([self.raw_doc(d) for d in docs])
                f = canon_triples_multi(rdflib.Graph().parse(data=ftext, format=fmt), value_pred)

                def stable(t):
                    return not any(v in t for v in volatile)
                missing = sorted(t for t in f - g if stable(t))
                extra = sorted(t for t in g - f if stable(t))
                if nlinks:
                    # the second writer has resolved the links once more: its graph is the graph of a
                    # later state of the documents and cannot serve as the reference
                    missing, extra = [], []
                so["n_missing"], so["missing"] = len(missing), missing[:3]
                so["n_extra"], so["extra"] = len(extra), extra[:3]
        finally:
            if tmp:
                shutil.rmtree(tmp, ignore_errors=True)
        return obs

    # -- round 2: one reader, several imports ----------------------------------
    def impl_rreuse(self, case):
        import warnings
        from odml.tools.rdf_converter import RDFWriter, RDFReader
        warnings.simplefilter("ignore")
        fmt = case["fmt"]
        da = [build_doc(d) for d in case["a"]]
        db = da if case["between"] == "same" else [build_doc(d) for d in case["b"]]
        ta = RDFWriter(da).get_rdf_str(fmt)
        tb = ta if db is da else RDFWriter(db).get_rdf_str(fmt)
        obs = {"orig_a": [self.raw_doc(d) for d in da], "orig_b": [self.raw_doc(d) for d in db]}
        tmp = tempfile.mkdtemp(prefix="c10_") if case["entry"] == "file" else None
        try:
            if case["entry"] == "oreader":
                from odml.tools.odmlparser import ODMLReader
                reader = ODMLReader("RDF", show_warnings=False)
            else:
                reader = RDFReader()

            def load(text, name):
                if case["entry"] == "file":
                    path = os.path.join(tmp, name + EXT[fmt])
                    with open(path, "w", encoding="utf-8", newline="") as fh:
                        fh.write(text)
                    return reader.from_file(path, fmt)
                return reader.from_string(text, fmt)
            try:
                obs["first"] = [self.raw_doc(d) for d in load(ta, "a")]
            except Exception as exc:
                obs["first"] = {"raised": fw.exc_name(exc)}
            if case["between"] == "garbage":
                try:
                    load("<<< this is no RDF in any serialisation {[ \"", "g")
                    obs["garbage"] = "accepted"
                except Exception as exc:
                    obs["garbage"] = fw.exc_name(exc)
            try:
                obs["second"] = [self.raw_doc(d) for d in load(tb, "b")]
            except Exception as exc:
                obs["second"] = {"raised": fw.exc_name(exc)}
        finally:
            if tmp:
                shutil.rmtree(tmp, ignore_errors=True)
        return obs

    # -- round 3: one reader, a history of imports ------------------------------
    GARBAGE = "<<< this is no RDF in any serialisation {[ \""

    @staticmethod
    def damage_graph(graph, docs, dmg):
        """Turns the exported graph of `docs` into a graph that still is RDF but no export any more: a
        Section / Property at any depth loses its name, a Section links a node that is not there
        (truncated file), a Section links one of its own parents, a Property has an unknown dtype, the
        Hub is gone. -> what was done | None (no such object in these documents: the graph is unchanged)"""
        from rdflib import URIRef, Literal
        from odml import format as ofmt
        secs, props = [], []

        def walk(sec, anc):
            secs.append((str(sec.id), anc))
            for p in sec.properties:
                props.append((str(p.id), anc + [str(sec.id)]))
            for c in sec.sections:
                walk(c, anc + [str(sec.id)])
        for d in docs:
            for sec in d.sections:
                walk(sec, [])

        def pick(pool):
            if dmg.get("nested") and any(anc for _i, anc in pool):
                pool = [e for e in pool if e[1]]
            return pool[dmg["target"] % len(pool)] if pool else None
        kind = dmg["kind"]
        if kind == "nohub":
            graph.remove((URIRef(NS + "Hub"), None, None))
            return "nohub"
        if kind == "noname":
            is_prop = dmg["tkind"] == "prop" and props
            hit = pick(props if is_prop else secs)
            if hit is None:
                return None
            fmt_obj = ofmt.Property if is_prop else ofmt.Section
            graph.remove((URIRef(NS + hit[0]), URIRef(str(fmt_obj.rdf_map("name"))), None))
            return "noname %s depth %d" % ("prop" if is_prop else "sec", len(hit[1]))
        if kind == "baddtype":
            hit = pick(props)
            if hit is None:
                return None
            graph.set((URIRef(NS + hit[0]), URIRef(str(ofmt.Property.rdf_map("dtype"))), Literal("c10 no dtype")))
            return "baddtype depth %d" % len(hit[1])
        hit = pick(secs)
        if hit is None:
            return None
        node = URIRef(NS + hit[0])
        if kind == "dangling":
            key = "properties" if dmg["tkind"] == "prop" else "sections"
            graph.add((node, URIRef(str(ofmt.Section.rdf_map(key))),
                       URIRef(NS + "00000000-0000-4000-8000-%012d" % dmg["target"])))
            return "dangling %s depth %d" % (key, len(hit[1]))
        if kind == "cycle":
            anc = hit[1]
            up = URIRef(NS + anc[dmg["up"] % len(anc)]) if anc else node
            graph.add((node, URIRef(str(ofmt.Section.rdf_map("sections"))), up))
            return "cycle depth %d" % len(hit[1])
        return None

    def impl_rhist(self, case):
        import warnings
        import rdflib
        from odml.tools.rdf_converter import RDFWriter, RDFReader
        from odml.tools.odmlparser import ODMLReader
        warnings.simplefilter("ignore")
        docs = [build_doc(d) for d in case["docs"]]
        others = None
        kw = {"rdf_subclassing": case["subclassing"]}
        if case["custom"]:
            kw["custom_subclasses"] = dict(case["custom"])
        kind = case["reader"]

        def new_reader():
            if kind.startswith("oreader"):
                return ODMLReader("RDF", show_warnings=kind.endswith(":warn"))
            return RDFReader()
        readers = {}
        owriter = None
        holder = type("Held", (object,), {"docs": docs})()
        obs = {"steps": []}
        tmp = tempfile.mkdtemp(prefix="c10_")
        last = None          # (text, fmt, expected documents) of the latest import that was judged
        in_graph = {}        # reader number -> expected documents of the graph the reader holds (or None)
        try:
            for k, step in enumerate(case["steps"]):
                fmt, what = step["fmt"], step["what"]
                so = {"what": what, "fmt": fmt, "judged": False}
                obs["steps"].append(so)
                rno = 2 if step.get("reader2") else 1
                so["reader"] = rno
                if what == "again":
                    # the graph the reader already holds is converted once more
                    reader = readers.get(rno)
                    if reader is not None and in_graph.get(rno) and hasattr(reader, "to_odml"):
                        so["fmt"], so["original_raw"] = in_graph[rno]
                        so["judged"] = True
                        try:
                            so["imported_raw"] = [self.raw_doc(d) for d in reader.to_odml()]
                        except Exception as exc:
                            so["imported_raw"] = {"raised": fw.exc_name(exc)}
                        continue
                    what = so["what"] = "good"
                if what == "edited":
                    so["edits"] = []
                    for e in step.get("edits", []):
                        try:
                            so["edits"].append(self.apply_edit(docs, e, False, holder))
                        except Exception as exc:
                            so["edits"].append("refused:" + fw.exc_name(exc))
                if what == "other" and others is None:
                    others = [build_doc(d) for d in case["other"]]
                src = {"other": others, "empty": []}.get(what, docs)
                if case.get("writer") == "owriter" and len(src) == 1:
                    # the texts of one history come from ONE ODMLWriter("RDF") object
                    if owriter is None:
                        from odml.tools.odmlparser import ODMLWriter
                        owriter = ODMLWriter("RDF")
                    text = owriter.to_string(src[0], rdf_format=fmt)
                else:
                    text = RDFWriter(list(src), **kw).get_rdf_str(fmt)
                if what == "damaged":
                    dmg = step["damage"]
                    done = None
                    if dmg["kind"] == "garbage":
                        text, done = self.GARBAGE, "garbage"
                    else:
                        graph = rdflib.Graph().parse(data=text, format=fmt)
                        done = self.damage_graph(graph, src, dmg)
                        if done:
                            text = graph.serialize(format=fmt)
                            if isinstance(text, bytes):
                                text = text.decode("utf-8")
                    so["damage"] = done
                    if not done:
                        what = so["what"] = "good"
                judged = what != "damaged"
                expected = [self.raw_doc(d) for d in src]
                path = None
                if step["entry"] == "file" or (kind == "ctor" and rno not in readers):
                    path = os.path.join(tmp, "step%d" % k + EXT[fmt])
                    with open(path, "w", encoding="utf-8", newline="") as fh:
                        fh.write(text)
                try:
                    if rno not in readers and kind == "ctor":
                        # RDFReader(file, fmt) parses in the constructor; when that fails there is no
                        # reader and the next step creates one
                        so["entry"] = "ctor"
                        reader = RDFReader(path, fmt)
                        readers[rno] = reader
                        back = reader.to_odml()
                    else:
                        if rno not in readers:
                            readers[rno] = new_reader()
                        reader = readers[rno]
                        so["entry"] = step["entry"]
                        back = reader.from_file(path, fmt) if path else reader.from_string(text, fmt)
                    res = [self.raw_doc(d) for d in back]
                except RecursionError:
                    res = {"raised": "RecursionError"}
                except Exception as exc:
                    res = {"raised": fw.exc_name(exc)}
                if judged:
                    so["judged"] = True
                    so["original_raw"], so["imported_raw"] = expected, res
                    last = (text, fmt, expected)
                    in_graph[rno] = (fmt, expected)
                else:
                    # what a reader does with a graph that is no export is not judged, only recorded
                    so["outcome"] = res["raised"] if isinstance(res, dict) else "accepted"
                    in_graph[rno] = None
            if case.get("fresh_after") and last is not None:
                # a reader created after all this starts from nothing
                text, fmt, expected = last
                so = {"what": "fresh", "fmt": fmt, "judged": True, "original_raw": expected}
                obs["steps"].append(so)
                try:
                    so["imported_raw"] = [self.raw_doc(d) for d in RDFReader().from_string(text, fmt)]
                except Exception as exc:
                    so["imported_raw"] = {"raised": fw.exc_name(exc)}
        finally:
            shutil.rmtree(tmp, ignore_errors=True)
        return obs

    # -- round 2: another process (locale C, ASCII default encoding, other hash seed) ----
    def impl_proc(self, case):
        import json
        import subprocess
        env = dict(os.environ)
        env.update({"LC_ALL": "C", "LANG": "C", "PYTHONUTF8": "0", "PYTHONCOERCECLOCALE": "0",
                    "PYTHONHASHSEED": str(case["hashseed"]), "PYTHONDONTWRITEBYTECODE": "1",
                    "PYTHONIOENCODING": "ascii:backslashreplace",
                    "PYTHONPATH": os.path.dirname(os.path.abspath(__file__))})
        proc = subprocess.run([sys.executable, "-c", "import c10; c10.proc_main()"],
                              input=json.dumps(case, ensure_ascii=True).encode("ascii"), env=env,
                              stdout=subprocess.PIPE, stderr=subprocess.PIPE, timeout=100)
        for line in reversed(proc.stdout.decode("ascii", "replace").split("\n")):
            if line.startswith("C10PROC "):
                return json.loads(line[len("C10PROC "):])
        return {"proc_failed": proc.returncode, "stderr": proc.stderr.decode("utf-8", "replace")[-600:]}

    def proc_body(self, case):
        """runs inside the other process"""
        import locale
        import warnings
        from odml.tools.rdf_converter import RDFWriter, RDFReader
        warnings.simplefilter("ignore")
        _quiet_terminology()
        fmt = case["fmt"]
        docs = [build_doc(d) for d in case["docs"]]
        # make sure there is text outside ASCII in attributes and values
        import odml
        sec = odml.Section(name=case["marker"], type="marker", definition=case["marker"], parent=docs[0])
        odml.Property(name="p", values=[case["marker"], "b"], parent=sec)
        obs = {"encoding": locale.getpreferredencoding(False), "original_raw": [self.raw_doc(d) for d in docs]}
        tmp = tempfile.mkdtemp(prefix="c10_")
        try:
            for how in ("file", "string", "save"):
                try:
                    if how == "file":
                        RDFWriter(docs).write_file(os.path.join(tmp, "out"), fmt)
                        back = RDFReader().from_file(os.path.join(tmp, "out" + EXT[fmt]), fmt)
                    elif how == "string":
                        back = RDFReader().from_string(RDFWriter(docs).get_rdf_str(fmt), fmt)
                    else:
                        from odml.validation import Validation
                        from odml.tools.odmlparser import ODMLReader
                        if len(docs) != 1 or any(e.is_error for e in Validation(docs[0]).errors):
                            continue
                        odml.save(docs[0], os.path.join(tmp, "saved"), "RDF", rdf_format=fmt)
                        names = [n for n in os.listdir(tmp) if n.startswith("saved")]
                        back = ODMLReader("RDF", show_warnings=False).from_file(os.path.join(tmp, names[0]), fmt)
                    obs[how] = [self.raw_doc(d) for d in back]
                except Exception as exc:
                    obs[how] = {"raised": fw.exc_name(exc)}
        finally:
            shutil.rmtree(tmp, ignore_errors=True)
        return obs

    # plain public-API view of a document for the oracle (no model vocabulary)
    @staticmethod
    def raw_val(v):
        if isinstance(v, float):
            return {"float": repr(v)}
        if isinstance(v, bool):
            return {"bool": v}
        if isinstance(v, int):
            return {"int": str(v)}
        if isinstance(v, str):
            return {"str": v}
        if isinstance(v, (list, tuple)):
            return {"tuple": [u"%s" % x for x in v]}
        if v is None:
            return None
        return {type(v).__name__: v.isoformat() if hasattr(v, "isoformat") else repr(v)}

    @staticmethod
    def unset(v):
        """an empty string counts as an unset attribute (weaker reading of 'set attributes')"""
        return None if v == "" else v

    def raw_prop(self, p):
        u = self.unset
        return {"id": str(p.id), "name": p.name, "definition": u(p.definition), "reference": u(p.reference),
                "unit": u(p.unit), "uncertainty": self.raw_val(u(p.uncertainty)),
                "value_origin": u(p.value_origin), "dtype": u(p.dtype),
                "values": [self.raw_val(v) for v in p.values]}

    def raw_sec(self, s):
        u = self.unset
        return {"id": str(s.id), "name": s.name, "type": s.type, "definition": u(s.definition),
                "reference": u(s.reference), "props": [self.raw_prop(p) for p in s.properties],
                "subs": [self.raw_sec(c) for c in s.sections]}

    def raw_doc(self, d):
        return {"id": str(d.id), "secs": [self.raw_sec(s) for s in d.sections]}

    @staticmethod
    def subclass_facts(graph, docs, kw):
        """(round 6) the sub-class clause alone, read off a parsed export with rdflib only (for the
        histories, where the switch of one writer changes between exports): every Section node has one
        type; with the switch off it is odml:Section and no sub-class is declared; with it on it is
        odml:Section or a class of the maps that is declared a sub-class of odml:Section"""
        from rdflib import URIRef
        from rdflib.namespace import RDF, RDFS
        from odml import format as ofmt
        bad = []
        base = str(ofmt.Section.rdf_type)
        flag = kw.get("rdf_subclassing", True)
        names = set(default_subclasses().values()) | set((kw.get("custom_subclasses") or {}).values())
        decl = sorted(str(s) for s in graph.subjects(RDFS.subClassOf, None))
        if decl and not flag:
            bad.append("sub-classing is switched off, the graph declares sub-classes: %s" % decl[:3])

        def walk(sec):
            types = sorted(str(t) for t in graph.objects(URIRef(NS + str(sec.id)), RDF.type))
            if len(types) != 1:
                bad.append("Section %s has %d types" % (sec.id, len(types)))
            elif types[0] != base:
                cls = types[0]
                ok = flag and cls.startswith(NS) and cls[len(NS):] in names and \
                    (URIRef(cls), RDFS.subClassOf, URIRef(base)) in graph
                if not ok:
                    bad.append("Section %s typed %s which is not a declared sub-class" % (sec.id, cls))
            for c in sec.sections:
                walk(c)
        for d in docs:
            for sec in d.sections:
                walk(sec)
        return bad[:5]

    def shape_facts(self, graph, docs, kw):
        """Graph-shape clauses of the property, read off the writer's graph with rdflib only."""
        from rdflib import URIRef, Literal
        from rdflib.namespace import RDF, RDFS
        from odml import format as ofmt
        bad = []
        hub = URIRef(NS + "Hub")
        has_doc = URIRef(NS + "hasDocument")
        links = list(graph.triples((None, has_doc, None)))
        if any(s != hub for s, _p, _o in links):
            bad.append("hasDocument triple whose subject is not the Hub")
        want = sorted(NS + str(d.id) for d in docs)
        got = sorted(str(o) for _s, _p, o in links)
        if want != got:
            bad.append("Hub links %d documents, expected %d" % (len(got), len(want)))
        sub_values = set(default_subclasses().values()) | set((kw.get("custom_subclasses") or {}).values())
        # (round 6) with sub-classing switched off nothing is declared a sub-class, whatever map the writer
        # holds; with it on a declared sub-class is a sub-class of odml:Section
        decl = sorted((str(s), str(o)) for s, _p, o in graph.triples((None, RDFS.subClassOf, None)))
        if decl and not kw.get("rdf_subclassing", True):
            bad.append("sub-classing is switched off, the graph declares sub-classes: %s" % [d[0] for d in decl][:3])
        for sub, sup in decl:
            if sup != str(ofmt.Section.rdf_type):
                bad.append("%s is declared a sub-class of %s, not of odml:Section" % (sub, sup))

        def check_attrs(obj, fmt_obj, node):
            for k in fmt_obj.rdf_map_keys:
                if k in LIST_KEYS or k == "repository":
                    continue
                pred = URIRef(str(fmt_obj.rdf_map(k)))
                objs = list(graph.objects(node, pred))
                v = getattr(obj, k, None)
                isset = v is not None and v != ""
                if isset and len(objs) != 1:
                    bad.append("%s %s: set attribute %s=%r has %d triples" % (fmt_obj.name, obj.id, k, v, len(objs)))
                elif not isset and objs:
                    bad.append("%s %s: unset attribute %s has a triple" % (fmt_obj.name, obj.id, k))
                elif isset:
                    o = objs[0]
                    pv = o.toPython() if isinstance(o, Literal) else None
                    if not (pv == v or u"%s" % pv == u"%s" % v):
                        bad.append("%s %s: attribute %s=%r exported as %r" % (fmt_obj.name, obj.id, k, v, pv))

        def check_children(node, pred_key, fmt_obj, children):
            pred = URIRef(str(fmt_obj.rdf_map(pred_key)))
            got_c = sorted(str(o) for o in graph.objects(node, pred))
            want_c = sorted(NS + str(c.id) for c in children)
            if got_c != want_c:
                bad.append("%s children of %s: %d linked, %d expected" % (pred_key, node, len(got_c), len(want_c)))

        def check_prop(p):
            node = URIRef(NS + str(p.id))
            types = list(graph.objects(node, RDF.type))
            if [str(t) for t in types] != [str(ofmt.Property.rdf_type)]:
                bad.append("Property %s typed %s" % (p.id, [str(t) for t in types]))
            check_attrs(p, ofmt.Property, node)
            seqs = list(graph.objects(node, URIRef(str(ofmt.Property.rdf_map("value")))))
            vals = list(p.values)
            if not vals:
                if seqs:
                    bad.append("Property %s without values has a value node" % p.id)
                return
            if len(seqs) != 1:
                bad.append("Property %s has %d value nodes" % (p.id, len(seqs)))
                return
            seq = seqs[0]
            if (seq, RDF.type, RDF.Seq) not in graph:
                bad.append("value node of Property %s is not an rdf:Seq" % p.id)
            for i, v in enumerate(vals):
                items = list(graph.objects(seq, URIRef(RDFNS + "_%d" % (i + 1))))
                if len(items) != 1:
                    bad.append("Property %s: rdf:_%d has %d objects" % (p.id, i + 1, len(items)))
                    continue
                want_l = py_to_lit(v)
                got_l = norm_literal(items[0])[1:] if isinstance(items[0], Literal) else ["?", "?"]
                if want_l != got_l:
                    bad.append("Property %s: value %d is %r, exported as %r" % (p.id, i + 1, want_l, got_l))
            extra = [pp for pp in graph.predicates(seq, None) if str(pp).startswith(RDFNS + "_")]
            if len(extra) != len(vals):
                bad.append("Property %s: %d sequence members for %d values" % (p.id, len(extra), len(vals)))

        def check_sec(s):
            node = URIRef(NS + str(s.id))
            types = [str(t) for t in graph.objects(node, RDF.type)]
            base = str(ofmt.Section.rdf_type)
            if len(types) != 1:
                bad.append("Section %s has %d types" % (s.id, len(types)))
            elif types[0] != base:
                cls = types[0]
                declared = cls.startswith(NS) and cls[len(NS):] in sub_values and \
                    (URIRef(cls), RDFS.subClassOf, URIRef(base)) in graph
                if not declared or not kw.get("rdf_subclassing", True):
                    bad.append("Section %s typed %s which is not a declared sub-class" % (s.id, cls))
            check_attrs(s, ofmt.Section, node)
            check_children(node, "sections", ofmt.Section, s.sections)
            check_children(node, "properties", ofmt.Section, s.properties)
            for p in s.properties:
                check_prop(p)
            for c in s.sections:
                check_sec(c)

        for d in docs:
            node = URIRef(NS + str(d.id))
            types = [str(t) for t in graph.objects(node, RDF.type)]
            if types != [str(ofmt.Document.rdf_type)]:
                bad.append("Document %s typed %s" % (d.id, types))
            check_attrs(d, ofmt.Document, node)
            check_children(node, "sections", ofmt.Document, d.sections)
            for s in d.sections:
                check_sec(s)
        return bad

    # -- model ---------------------------------------------------------------
    ORACLE_ONLY = ("hist", "rreuse", "proc", "rhist")

    def model_requests(self, case, obs):
        st = case["stream"]
        if st in self.ORACLE_ONLY:
            # the model has no writer / reader object that lives across calls and no second process
            return []
        if st == "format":
            return [{"op": "format", "fmt": case["fmt"], "formats": obs["formats"]}]
        if st == "custom" and case.get("subclassing") is False:
            return []
        if st == "custom":
            return [{"op": "export", "docs": [], "subclassing": True,
                     "default": [list(e) for e in obs["default"]],
                     "custom": [[k, v] for k, v in case["custom"].items()]}]
        reqs = [{"op": "export", "docs": obs["docs"], "subclassing": case["subclassing"],
                 "default": [list(e) for e in obs["default"]],
                 "custom": [[k, v] for k, v in case["custom"].items()]}]
        if "graph_parsed" in obs and not obs.get("reused"):
            # (a writer asked twice leaves two value nodes per Property in its graph; that text is
            #  judged by the oracle - the import must give back the documents - not by the model)
            reqs.append({"op": "import", "triples": obs["graph_parsed"]})
        return reqs

    def compare(self, case, obs, answers):
        st = case["stream"]
        out = []
        if st in self.ORACLE_ONLY:
            return out
        if st == "format":
            if answers[0] != (obs["outcome"] == "ok"):
                out.append("model accepts format=%s, implementation outcome=%s" % (answers[0], obs["outcome"]))
            return out
        if st == "custom" and not answers:
            return out
        if st == "custom":
            raised = "raised" in answers[0]
            if raised != (obs["outcome"] != "ok"):
                out.append("model raised=%s, implementation outcome=%s" % (raised, obs["outcome"]))
            return out
        exp = answers[0]
        if "raised" in exp:
            return ["model refuses the custom subclass map, implementation exported"]
        mt = sorted(set(fw.canon(t) for t in exp["triples"]))
        it = sorted(set(fw.canon(t) for t in obs["graph"]))
        if mt != it:
            only_m = [t for t in mt if t not in set(it)][:3]
            only_i = [t for t in it if t not in set(mt)][:3]
            out.append("export graphs differ: only model %s, only implementation %s" % (only_m, only_i))
        # the model's own round trip must not depend on the order of the triple list
        a, b = exp["import"], exp["import_rev"]
        if ("ok" in a) != ("ok" in b) or ("ok" in a and
                                           sorted(fw.canon(canon_doc(d)) for d in a["ok"]) !=
                                           sorted(fw.canon(canon_doc(d)) for d in b["ok"])):
            out.append("model import depends on triple order")
        # inside the hypotheses of C10.rdf_roundtrip the model's import of its own export must
        # succeed and give back the documents (uncertainty as text)
        if exp.get("wf") and exp.get("repr"):
            if "ok" not in a:
                out.append("inside WFDocs/RdfRepr the model's import of its export raised %s" % a.get("raised"))
            else:
                def lax(d):
                    d = canon_doc(d)
                    def fix(attrs):
                        return [[k, {"s": v["f"]} if k == "uncertainty" and "f" in v else v] for k, v in attrs]
                    def sec(x):
                        x["attrs"] = fix(x["attrs"])
                        for p in x["props"]:
                            p["attrs"] = fix(p["attrs"])
                        for c in x["subs"]:
                            sec(c)
                    for x in d["secs"]:
                        sec(x)
                    d["attrs"] = [e for e in d["attrs"] if e[0] != "repository"]
                    return d
                def norepo(d):
                    d = lax(d)
                    def sec(x):
                        x["attrs"] = [e for e in x["attrs"] if e[0] != "repository"]
                        for c in x["subs"]:
                            sec(c)
                    for x in d["secs"]:
                        sec(x)
                    return d
                if sorted(fw.canon(norepo(d)) for d in a["ok"]) != sorted(fw.canon(norepo(d)) for d in obs["docs"]):
                    out.append("inside WFDocs/RdfRepr the model's round trip does not give back the documents")
        if len(answers) > 1:
            mi = answers[1]
            ii = obs["imported"]
            if "raised" in mi or isinstance(ii, dict):
                if ("raised" in mi) != isinstance(ii, dict):
                    out.append("import: model %s, implementation %s" % (
                        mi.get("raised", "ok"), ii.get("raised") if isinstance(ii, dict) else "ok"))
            else:
                md = sorted(fw.canon(canon_doc(d)) for d in mi["ok"])
                idd = sorted(fw.canon(d) for d in ii)
                if md != idd:
                    out.append("imported documents differ: model %s ... implementation %s"
                               % (md[0][:400] if md else "-", idd[0][:400] if idd else "-"))
        return out

    # -- oracle --------------------------------------------------------------
    def oracle(self, case, obs):
        if "harness_exception" in obs:
            return []
        st = case["stream"]
        out = []
        if st == "format":
            known = case["fmt"] in obs["formats"]
            if known and obs["outcome"] != "ok":
                out.append("supported format %r refused: %s" % (case["fmt"], obs["outcome"]))
            if not known and obs["outcome"] != "ValueError":
                out.append("unsupported format %r gave %s, not ValueError" % (case["fmt"], obs["outcome"]))
            return out
        if st == "custom":
            # (round 2) a custom map belongs to its writer: the next writer starts from the file again
            if "after" in obs and obs["after"] != obs["yaml"]:
                out.append("a writer created after one with a custom map does not start from the "
                           "declared sub-classes")
            return out
        if st == "hist":
            return self.oracle_hist(case, obs)
        if st == "rreuse":
            return self.oracle_rreuse(case, obs)
        if st == "rhist":
            return self.oracle_rhist(case, obs)
        if st == "proc":
            return self.oracle_proc(case, obs)
        for b in obs["shape"]:
            out.append("graph shape: " + b)
        if obs.get("files") is not None and obs["files"] != 1:
            out.append("writing to a file left %d files" % obs["files"])
        if "graph_parsed" in obs and obs["graph_parsed"] != obs["graph"] and not obs.get("reused"):
            only_w = [t for t in obs["graph"] if t not in obs["graph_parsed"]][:2]
            only_p = [t for t in obs["graph_parsed"] if t not in obs["graph"]][:2]
            out.append("serialisation %s does not give back the exported graph: written %s, parsed %s"
                       % (case["fmt"], only_w, only_p))
        imp = obs.get("imported_raw")
        if isinstance(imp, dict):
            out.append("import raised %s" % imp["raised"])
            return out
        if imp is None:
            return out
        orig = obs["original_raw"]
        if sorted(d["id"] for d in imp) != sorted(d["id"] for d in orig):
            out.append("imported %d documents for %d exported (ids differ)" % (len(imp), len(orig)))
            return out
        by_id = dict((d["id"], d) for d in imp)
        for d in orig:
            self.cmp_secs("Document %s" % d["id"], d["secs"], by_id[d["id"]]["secs"], out, case)
        return out

    def cmp_docs(self, orig, imp, fmt):
        """the import clause of the property: one document per exported document, equal per id"""
        out = []
        if isinstance(imp, dict):
            return ["import raised %s" % imp["raised"]]
        if sorted(d["id"] for d in imp) != sorted(d["id"] for d in orig):
            return ["imported %d documents for %d exported (ids differ)" % (len(imp), len(orig))]
        by_id = dict((d["id"], d) for d in imp)
        for d in orig:
            self.cmp_secs("Document %s" % d["id"], d["secs"], by_id[d["id"]]["secs"], out, {"fmt": fmt})
        return out

    def oracle_hist(self, case, obs):
        """Every export of a writer is an export of the documents as they are at that moment. Weaker
        reading where the statement leaves room: several identical value nodes per Property count as
        one. Since the writer starts every conversion with an empty graph (fix 5a93236) 'nothing else is
        there' is demanded of every export, also after something already exported was changed or
        removed (before, only 'nothing of the current documents is missing' and the import clause were
        demanded then)."""
        out = []
        for k, so in enumerate(obs["steps"]):
            fails = []
            if "export_raised" in so:
                if so.get("finalize_raised") != so["export_raised"]:
                    fails.append("export raised %s" % so["export_raised"])
            else:
                if so["n_missing"]:
                    fails.append("the export lacks %d triples of the current documents, e.g. %s"
                                 % (so["n_missing"], so["missing"]))
                if so["untyped"]:
                    fails.append("objects without a typed node in the export: %s" % so["untyped"])
                # (round 6) the sub-class clause under the value the switch has at this export
                fails += ["graph shape: " + b for b in so.get("subclass_bad", [])]
                if so["n_extra"]:
                    fails.append("the export has %d triples that are not of the current documents, e.g. %s"
                                 % (so["n_extra"], so["extra"]))
                fails += self.cmp_docs(so["original_raw"], so["imported_raw"], so["fmt"])
            out += ["%s [step %d]" % (f, k) for f in fails]
        return out

    def oracle_rreuse(self, case, obs):
        out = []
        for f in self.cmp_docs(obs["orig_a"], obs["first"], case["fmt"]):
            out.append(f)
        sec = obs["second"]
        if isinstance(sec, dict):
            return out + ["reader used twice: second import raised %s" % sec["raised"]]
        want = sorted(d["id"] for d in obs["orig_b"])
        got = sorted(d["id"] for d in sec)
        if want != got:
            out.append("reader used twice: second import returned %d documents for %d exported"
                       % (len(got), len(want)))
        # the documents of the second text that did come back are judged as usual
        mine = [d for d in sec if d["id"] in set(want)]
        if case["between"] == "same":
            seen, uniq = set(), []
            for d in mine:
                if d["id"] not in seen:
                    seen.add(d["id"])
                    uniq.append(d)
            mine = uniq
        if sorted(d["id"] for d in mine) == want:
            out += self.cmp_docs(obs["orig_b"], mine, case["fmt"])
        return out

    def oracle_rhist(self, case, obs):
        """(round 3) Every import of an exported graph returns the exported documents, whatever the
        reader object has been asked before - also after an import it refused, at any depth and at any
        stage (rdflib, the mandatory-attribute check, the recursion, the object constructors). What a
        reader does with a graph that is not an export (the damaged texts) is not judged."""
        out = []
        for k, so in enumerate(obs["steps"]):
            if not so.get("judged"):
                continue
            out += ["%s [step %d]" % (f, k) for f in self.cmp_docs(so["original_raw"], so["imported_raw"], so["fmt"])]
        return out

    def oracle_proc(self, case, obs):
        if "proc_failed" in obs:
            return ["the export/import program ended with %s: %s" % (obs["proc_failed"], obs.get("stderr", "")[-300:])]
        out = []
        for how in ("file", "string", "save"):
            if how not in obs:
                continue
            orig = obs["original_raw"][:1] if how == "save" else obs["original_raw"]
            out += ["%s [entry %s, %s]" % (f, how, obs.get("encoding"))
                    for f in self.cmp_docs(orig, obs[how], case["fmt"])]
        return out

    def cmp_secs(self, where, a, b, out, case):
        if sorted(s["id"] for s in a) != sorted(s["id"] for s in b):
            out.append("%s: sections %s imported as %s" % (where, sorted(s["name"] for s in a),
                                                         sorted(s["name"] for s in b)))
            return
        by_id = dict((s["id"], s) for s in b)
        for s in a:
            t = by_id[s["id"]]
            for k in ("name", "type", "definition", "reference"):
                if s[k] != t[k]:
                    out.append("Section %s: %s %r imported as %r" % (s["id"], k, s[k], t[k]))
            if sorted(p["id"] for p in s["props"]) != sorted(p["id"] for p in t["props"]):
                out.append("Section %s: properties differ after import" % s["id"])
            else:
                pb = dict((p["id"], p) for p in t["props"])
                for p in s["props"]:
                    self.cmp_prop(p, pb[p["id"]], out, case)
            self.cmp_secs("Section %s" % s["id"], s["subs"], t["subs"], out, case)

    def cmp_prop(self, p, q, out, case):
        for k in ("name", "definition", "reference", "unit", "value_origin", "dtype"):
            if p[k] != q[k]:
                out.append("Property %s: %s %r imported as %r" % (p["id"], k, p[k], q[k]))
        if p["uncertainty"] != q["uncertainty"]:
            out.append("Property uncertainty %s imported as %s" % (fw.canon(p["uncertainty"]),
                                                                 fw.canon(q["uncertainty"])))
        if len(p["values"]) != len(q["values"]):
            out.append("Property %s: %d values imported as %d" % (p["id"], len(p["values"]), len(q["values"])))
            return
        for i, (v, w) in enumerate(zip(p["values"], q["values"])):
            if v != w:
                out.append("Property value %s imported as %s (format %s)" % (fw.canon(v), fw.canon(w), case["fmt"]))

    def finding_key(self, case, obs, failure):
        import re
        st = case.get("stream")
        fmt = case.get("fmt")
        step = None
        # the history / process streams mark where a failure belongs; the failure text in front of
        # the mark is the one the one-shot stream produces and is classified the same way
        m = re.search(r" \[(step|entry) ([^\]]*)\]$", failure)
        if m and st in ("hist", "proc", "rhist"):
            failure = failure[:m.start()]
            if m.group(1) == "step":
                try:
                    step = int(m.group(2))
                    fmt = obs["steps"][step]["fmt"]
                except Exception:
                    return None
        key = self.value_key(fmt, case, obs, failure)
        if key is not None:
            return key
        # reused_writer_keeps_earlier_triples / reused_reader_returns_earlier_documents are fixed
        # (5a93236, 50b9c82): a writer or reader that carries anything over from an earlier call is a
        # violation again
        return None

    def value_key(self, fmt, case, obs, failure):
        import json
        import re
        m = re.match(r"Property uncertainty (.*) imported as (.*)$", failure)
        if m:
            try:
                a, b = json.loads(m.group(1)), json.loads(m.group(2))
                if b and list(b) == ["str"] and a and list(a)[0] in ("float", "int"):
                    x = float(list(a.values())[0])
                    if float(b["str"]) == x:
                        return "uncertainty_imported_as_str"
                    if fmt in ("turtle", "n3") and float(b["str"]) == float("%e" % x):
                        return "turtle_n3_shorten_doubles"
            except Exception:
                return None
            return None
        if fmt in ("turtle", "n3"):
            m = re.match(r"Property value (.*) imported as (.*) \(format (turtle|n3)\)$", failure)
            if m:
                try:
                    a, b = json.loads(m.group(1)), json.loads(m.group(2))
                    if list(a) == ["float"] and list(b) == ["float"] and \
                            float(b["float"]) == float("%e" % float(a["float"])):
                        return "turtle_n3_shorten_doubles"
                except Exception:
                    return None
                return None
            if case.get("stream") == "rt" and \
                    failure.startswith("serialisation %s does not give back the exported graph" % fmt):
                # only when every differing literal is a double shortened to 7 significant digits
                w = [t for t in obs["graph"] if t not in obs["graph_parsed"]]
                p = [t for t in obs["graph_parsed"] if t not in obs["graph"]]
                if len(w) == len(p) and w and all(
                        a[:2] == b[:2] and a[2][0] == "l" and b[2][0] == "l" and a[2][2] == XSD + "double"
                        and b[2][2] == XSD + "double" and float(b[2][1]) == float("%e" % float(a[2][1]))
                        for a, b in zip(w, p)):
                    return "turtle_n3_shorten_doubles"
        return None

    def tag(self, case, obs):
        st = case["stream"]
        if st == "hist":
            return ("hist:%s" % case["kind"], any(e is not None for so in obs.get("steps", [])
                                                 for e in so.get("edits", [])) or case["kind"] == "link")
        if st == "rhist":
            steps = obs.get("steps", [])
            return ("rhist:%s" % case["reader"].split(":")[0],
                    any(so.get("judged") for so in steps) and len(steps) > 1)
        if st != "rt":
            return (st, True)
        nontrivial = any(s.get("props") and any(p["values"] for p in s["props"])
                         for d in case["docs"] for s in d["secs"])
        return ("rt:%s:%s" % (case["fmt"], case["entry"]), nontrivial)


def proc_main():
    """entry of the helper process of the `proc` stream: case as JSON on stdin, observation as one
    marked ASCII line on stdout (the library prints, so everything else is discarded)"""
    import io
    import json
    case = json.loads(sys.stdin.buffer.read().decode("ascii"))
    real = sys.stdout
    sys.stdout = io.StringIO()
    sys.stderr = io.StringIO()
    try:
        obs = C10().proc_body(case)
    except Exception as exc:
        import traceback
        obs = {"harness_exception": fw.exc_name(exc), "trace": traceback.format_exc()[-1500:]}
    sys.stdout = real
    sys.stdout.write("\nC10PROC " + json.dumps(obs, ensure_ascii=True) + "\n")
    sys.stdout.flush()


if __name__ == "__main__":
    sys.exit(fw.main(C10(), sys.argv[1:]))
