# -*- coding: utf-8 -*-
"""
C07 - Save never writes an invalid document and a failed save harms no file.

Tie between lean/OdmlModel/Model/FS.lean and the repository.  Every case builds a document,
makes it invalid and/or makes its rendering fail from outside, puts the target path into one of
its states (absent / earlier bytes / missing directory / a directory), saves through one of the
four public entry points and records the outcome class and the whole private directory
(listing + bytes) before and after.  The validation result and the rendering result (ok/raise)
are observed separately through the public API and handed to the compiled model, which replays
the exact sequence of effects; the two file systems must agree.  The oracle restates the
property over the observation alone.
"""
import contextlib
import io
import json
import os
import shutil
import subprocess
import sys
import tempfile
import warnings

import framework as fw

KNOWN_CONTENT = ("", "OLD", "SENTINEL")
RDF_PARSE_FORMAT = {None: "xml", "xml": "xml", "pretty-xml": "xml", "turtle": "turtle", "ttl": "turtle",
                    "nt": "nt", "ntriples": "nt", "nt11": "nt", "n3": "n3", "json-ld": "json-ld"}
INVALID_KINDS = ("notype", "emptytype", "dupid", "dupprop", "dupsec", "dupid_far", "dupid_prop")
FAULTS = ("obj_author", "gen_author", "nul_author", "ctrl_value", "surrogate_value", "validation_crash")
TARGETS = ("absent", "old", "missing_dir", "is_dir")
NAMES = ("f.out", "f", "d.1/f", "x.y:f", "f.rdf.ttl")
RDF_FORMATS = (None, "xml", "turtle", "nt", "json-ld", "n3", "pretty-xml", "ttl", "ntriples", "nt11",
               "trig", "trix", "bogus", "")


class Obj(object):
    """An attribute object json cannot encode."""


def modes():
    out = []
    for entry in ("fileio", "odmlwriter"):
        for b in ("XML", "JSON", "YAML"):
            out.append((entry, b, None))
        for f in RDF_FORMATS:
            out.append((entry, "RDF", f))
    out.append(("xmlwriter", "XML", None))
    for f in RDF_FORMATS:
        if f is not None:
            out.append(("rdfwriter", "RDF", f))
    return out


# ----------------------------------------------------------------------------- documents
def build_doc(spec):
    import odml
    import datetime
    doc = odml.Document(author=u"Ren\u00e9 \u20ac \u4e2d" if spec.get("wide") else "auth", version="1.0")
    secs = []
    for i in range(spec.get("secs", 1)):
        sec = odml.Section(name="s%d" % i, type="t%d" % i, parent=doc)
        secs.append(sec)
        for j in range(spec.get("props", 1)):
            vals = [[1, 2], ["x", u"é y"], [1.5], [datetime.date(2020, 1, 2)], [True]][(i + j) % 5]
            if spec.get("wide"):
                vals = [u"\u00e9\u20ac", u"\u4e2d\u6587"]
            odml.Property(name="p%d" % j, values=vals, parent=sec)
        if spec.get("nested"):
            sub = odml.Section(name="sub", type="st", parent=sec)
            odml.Property(name="q", values=["v"], parent=sub)
            secs.append(sub)
    return doc, secs


def _ancestors(sec):
    out = []
    cur = sec.parent
    while cur is not None and len(out) < 100:
        out.append(cur)
        cur = getattr(cur, "parent", None)
    return out


def inject(doc, secs, case):
    """Applies the 'invalid', 'warn' and 'fault' parts of the case. -> list of skipped injections."""
    import odml
    skipped = []
    inv = case.get("invalid")
    pick = secs[case.get("pick", 0) % len(secs)] if secs else None
    if inv and pick is None:
        skipped.append(inv)
    elif inv == "notype":
        pick.type = None
    elif inv == "emptytype":
        pick.type = ""
    elif inv == "dupid":
        clone = pick.clone(keep_id=True)
        clone.name = "clone_of_" + pick.name
        pick.parent.append(clone)
    elif inv == "dupid_far":
        # the two objects of one id sit in different branches, at different depths
        clone = pick.clone(keep_id=True)
        clone.name = "clone_of_" + pick.name
        others = [s for s in secs if s is not pick and s is not pick.parent
                  and all(a is not pick for a in _ancestors(s))]
        if others:
            others[case.get("pick", 0) % len(others)].append(clone)
        else:
            far = odml.Section(name="far", type="ft", parent=doc)
            odml.Section(name="farther", type="ft", parent=far).append(clone)
    elif inv == "dupid_prop":
        # only two Properties share an id, in cousin Sections
        if pick.properties:
            pclone = pick.properties[0].clone(keep_id=True)
            pclone.name = "clone_of_" + pclone.name
            far = odml.Section(name="far", type="ft", parent=doc)
            odml.Section(name="farther", type="ft", parent=far).append(pclone)
        else:
            skipped.append(inv)
    elif inv == "dupprop":
        try:
            extra = odml.Property(name=pick.properties[0].name, values=[3])
            list.append(pick._props, extra)
            extra._parent = pick
        except Exception:                 # below-API injection not possible on this tree: skip the case
            skipped.append(inv)
    elif inv == "dupsec":
        try:
            extra = odml.Section(name=pick.name, type=pick.type)
            list.append(pick.parent._sections, extra)
            extra._parent = pick.parent
        except Exception:
            skipped.append(inv)
    if case.get("warn"):
        odml.Section(name="untyped", parent=doc)          # default type "n.s." -> warning
    fault = case.get("fault")
    try:
        if fault == "obj_author":
            doc.author = Obj()
        elif fault == "gen_author":
            doc.author = (x for x in [])
        elif fault == "nul_author":
            doc.author = u"a\x00b"
        elif fault == "ctrl_value":
            secs[0].properties[0].values = [u"a\x01b"]
        elif fault == "surrogate_value":
            secs[0].properties[0].values = [u"a\ud800b"]
        elif fault == "validation_crash":
            secs[0].properties[0]._name = None
    except Exception:
        skipped.append(fault)
    return skipped


def signature(doc):
    """Names of all sections and properties, in document order."""
    out = []
    for sec in doc.itersections(recursive=True):
        out.append("S:" + str(sec.name))
        for prop in sec.properties:
            out.append("P:" + str(prop.name))
    return out


# ----------------------------------------------------------------------------- file system
def snapshot(root):
    files = {}
    for cur, dirs, names in os.walk(root):
        for dname in dirs:
            files[os.path.relpath(os.path.join(cur, dname), root) + "/"] = None
        for name in names:
            path = os.path.join(cur, name)
            with io.open(path, "rb") as fh:
                raw = fh.read()
            text = raw.decode("utf-8", "replace")
            files[os.path.relpath(path, root)] = text
    return files


def content_class(text):
    if text is None:
        return None
    return text if text in KNOWN_CONTENT else "NEW"


@contextlib.contextmanager
def warning_filter(mode):
    with warnings.catch_warnings(record=True) as rec:
        warnings.simplefilter("always")
        if mode == "error":
            warnings.filterwarnings("error", category=UserWarning, module=r"odml(\.|$)")
        yield rec


def result_of(fn):
    try:
        fn()
        return {"ok": "NEW"}
    except Exception as exc:
        return {"raise": fw.exc_name(exc)}


def locale_child(case):
    """Runs in a child interpreter started with an ASCII locale (see C07.impl_locale)."""
    import locale
    chk = C07()
    steps = []
    for st in case["steps"]:
        base = tempfile.mkdtemp(prefix="c07l_")
        try:
            with fw.quiet():
                steps.append(chk.run_step(base, st, fresh=True))
        finally:
            shutil.rmtree(base, ignore_errors=True)
    return {"encoding": locale.getpreferredencoding(False), "steps": steps}


class C07(fw.Check):
    prop = "C07"
    lean_targets = ["OdmlModel.Props.C07"]
    obligations = ["C07." + t for t in [
        "invalid_never_written", "invalid_never_written_save", "blocking_rules_rank_error",
        "failed_save_frame", "failed_save_creates_no_file", "failed_save_keeps_content",
        "save_touches_only_target", "unsupported_rdf_format_refused", "render_failure_propagates",
        "rdf_format_table", "rdf_ext_defined", "supported_backends", "warnings_only_written",
        "save_ok_iff", "history_last_success", "history_all_failed_keeps",
        "legacy_open_first_truncates", "legacy_frame_false", "witness_now_harmless",
        "legacy_harm_exact", "save_path_spec", "save_path_examples", "saveW_refines",
        "saveW_invalid_never_written", "saveW_harm_exact", "saveW_frame", "write_failure_truncates"]]
    trusted_base = [
        "Lean 4.33.0 kernel; axioms propext, Classical.choice, Quot.sound only (audited per theorem)",
        "hand-written model lean/OdmlModel/Model/FS.lean, tied to the repository by this correspondence run",
        "harness/extract_tables.py (Validation._handlers/ranks, SUPPORTED_PARSERS, RDF_CONVERSION_FORMATS "
        "regenerated into Lean on every run)",
        "Driver/*.lean JSON glue; harness/framework.py, harness/c07.py",
        "POSIX open(path, 'w'): truncates at open, refuses without side effect when the directory is "
        "missing or the path is a directory",
    ]
    assumptions = [
        "file.write after a successful render and open does not fail: the files are opened as UTF-8, which "
        "every serialiser's output can be encoded in (checked in a child interpreter with an ASCII locale "
        "on every run); a full device is out of scope. The Lean layer WEnv/saveW states exactly what a "
        "failing write would do (saveW_harm_exact)",
        "Validation(doc) is deterministic (write_file runs it a second time inside report())",
        "the four entry points are odml.save, ODMLWriter.write_file, XMLWriter.write_file, RDFWriter.write_file",
    ]
    rule = ("core grid: every (entry point, backend, RDF sub-format) x {valid, each way of being invalid} x "
            "{no fault, each injected render fault} x {target absent, holding earlier bytes}; plus random "
            "draws over the full product with file names that take/omit an extension, missing directory / "
            "directory targets, warnings-only documents, warnings filter 'error', bad custom_template, and "
            "histories of 2-4 saves into one directory. Non-trivial = the save raised, or wrote a file over "
            "earlier bytes, or issued a warning; distinct = distinct canonical JSON of the case.")

    # -- generation ----------------------------------------------------------
    def one(self, rng, mode=None, **fixed):
        entry, backend, fmt = mode if mode else rng.choice(modes())
        if entry == "fileio":
            backend = rng.choice([backend, backend.lower(), backend.capitalize()])
        case = {
            "stream": "save", "entry": entry, "backend": backend, "rdf_format": fmt,
            "doc": {"secs": rng.choice([0, 1, 1, 2]), "props": rng.choice([1, 2]),
                    "nested": rng.random() < 0.4},
            "pick": rng.randrange(4),
            "invalid": rng.choice([None, None] + list(INVALID_KINDS)),
            "warn": rng.random() < 0.3,
            "fault": rng.choice([None, None, None] + list(FAULTS)),
            "target": rng.choice(["absent", "old", "old", "missing_dir", "is_dir"]),
            "name": rng.choice(NAMES),
            "filter": "error" if rng.random() < 0.15 else "default",
            "custom_template": None,
        }
        if entry == "xmlwriter" and rng.random() < 0.4:
            case["custom_template"] = rng.choice(["tuple", "str"])
        case.update(fixed)
        if case["doc"]["secs"] == 0:
            if case["invalid"] is not None:
                case["doc"]["secs"] = 1
            if case["fault"] in ("ctrl_value", "surrogate_value", "validation_crash"):
                case["doc"]["secs"] = 1
        return case

    def generate(self, tier, rng):
        cases = []
        relevant = {"XML": ["nul_author", "ctrl_value", "surrogate_value"],
                    "JSON": ["obj_author", "gen_author"], "YAML": ["gen_author"],
                    "RDF": ["surrogate_value"]}
        for mode in modes():
            for target in ("absent", "old"):
                base = {"doc": {"secs": 1, "props": 1, "nested": False}, "pick": 0, "warn": False,
                        "filter": "default", "name": "f.out", "target": target, "invalid": None,
                        "fault": None, "custom_template": None}
                cases.append(self.one(rng, mode, **base))
                for fault in relevant[mode[1]] + ["validation_crash"]:
                    cases.append(self.one(rng, mode, **dict(base, fault=fault)))
                if mode[0] in ("fileio", "odmlwriter"):
                    for inv in INVALID_KINDS:
                        cases.append(self.one(rng, mode, **dict(base, invalid=inv)))
                    cases.append(self.one(rng, mode, **dict(base, warn=True)))
                    cases.append(self.one(rng, mode, **dict(base, warn=True, filter="error")))
                    cases.append(self.one(rng, mode, **dict(base, invalid="notype", fault=relevant[mode[1]][0])))
        for ct in ("tuple", "str"):
            for target in ("absent", "old"):
                cases.append(self.one(rng, ("xmlwriter", "XML", None), target=target, fault=None,
                                      invalid=None, custom_template=ct, name="f.out", filter="default"))
        for name in ("bogus", "odml", ""):
            cases.append(self.one(rng, ("fileio", name, None), target="old", name="f.out"))
            cases.append(self.one(rng, ("odmlwriter", name, None), target="old", name="f.out"))
        n = 350 if tier == "quick" else 24000
        for _ in range(n):
            cases.append(self.one(rng))
        nh = 40 if tier == "quick" else 2500
        for _ in range(nh):
            steps = []
            for _k in range(rng.randrange(2, 5)):
                st = self.one(rng, name=rng.choice(["f.out", "g.out"]),
                              target=rng.choice(["keep", "keep", "missing_dir"]))
                if st["entry"] == "rdfwriter":
                    st["entry"], st["backend"] = "odmlwriter", "RDF"
                steps.append(st)
            cases.append({"stream": "history", "steps": steps})
        # the same saves in a child interpreter whose locale encoding is ASCII, with text that
        # ASCII / Latin-1 cannot hold: the content must not depend on the locale
        lmodes = [m for m in modes() if m[2] in (None, "turtle", "nt", "json-ld", "n3", "pretty-xml", "xml")]
        for target in ("old", "absent"):
            steps = [self.one(rng, mode, doc={"secs": 1, "props": 2, "nested": False, "wide": True},
                              pick=0, invalid=None, warn=False, fault=None, target=target, name="f.out",
                              filter="default", custom_template=None) for mode in lmodes]
            for st in steps:
                st["backend"] = st["backend"].upper()
            cases.append({"stream": "locale", "steps": steps})
        return cases

    # -- implementation ------------------------------------------------------
    def impl_locale(self, case):
        code = ("import sys, json; sys.path.insert(0, %r); import c07; "
                "print('RESULT' + json.dumps(c07.locale_child(json.loads(sys.stdin.read()))))"
                % os.path.dirname(os.path.abspath(__file__)))
        env = dict(os.environ, PYTHONUTF8="0", PYTHONCOERCECLOCALE="0", LC_ALL="C", LANG="C",
                   ODML_REPO=fw.REPO, PYTHONDONTWRITEBYTECODE="1")
        proc = subprocess.run([sys.executable, "-c", code], input=json.dumps(case).encode("ascii"),
                              env=env, stdout=subprocess.PIPE, stderr=subprocess.PIPE, timeout=600)
        for line in proc.stdout.decode("ascii", "replace").splitlines():
            if line.startswith("RESULT"):
                return json.loads(line[len("RESULT"):])
        raise RuntimeError("child interpreter gave no result: %s" % proc.stderr.decode("ascii", "replace")[-600:])

    def impl(self, case):
        if case["stream"] == "locale":
            return self.impl_locale(case)
        base = tempfile.mkdtemp(prefix="c07_")
        try:
            if case["stream"] == "history":
                io.open(os.path.join(base, "other.txt"), "w").write(u"SENTINEL")
                return {"steps": [self.run_step(base, st) for st in case["steps"]]}
            return self.run_step(base, case, fresh=True)
        finally:
            shutil.rmtree(base, ignore_errors=True)

    def run_step(self, base, case, fresh=False):
        import odml
        from odml.tools.odmlparser import ODMLWriter
        from odml.validation import Validation
        root = os.path.realpath(base)
        name = case["name"]
        blocked = []
        if fresh:
            with io.open(os.path.join(root, "other.txt"), "w") as fh:
                fh.write(u"SENTINEL")
        if "/" in name and not os.path.isdir(os.path.join(root, os.path.dirname(name))):
            os.makedirs(os.path.join(root, os.path.dirname(name)))
        path = os.path.join(root, name)
        target = case["target"]
        if target == "old":
            with io.open(path, "w") as fh:
                fh.write(u"OLD")
        elif target == "missing_dir":
            path = os.path.join(root, "nodir", name)
        elif target == "is_dir":
            # every path the entry point could open is a directory
            for cand in self.candidates(path, case):
                if not os.path.exists(cand):
                    os.makedirs(cand)
        doc, secs = build_doc(case["doc"])
        skipped = inject(doc, secs, case)
        entry, backend, fmt = case["entry"], case["backend"], case["rdf_format"]
        kwargs = {}
        if fmt is not None:
            kwargs["rdf_format"] = fmt
        obs = {"skipped": skipped, "path": path}
        with warning_filter(case["filter"]):
            # what the validation says, and whether rendering works - through the public API
            try:
                obs["validate"] = {"ok": [e.rank for e in Validation(doc).errors]}
            except Exception as exc:
                obs["validate"] = {"raise": fw.exc_name(exc)}
            try:
                from odml.tools.parser_utils import RDF_CONVERSION_FORMATS as known_formats
            except ImportError:
                known_formats = None
            if entry == "xmlwriter":
                from odml.tools.xmlparser import XMLWriter
                obs["render"] = result_of(lambda: str(XMLWriter(doc)))
            elif entry == "rdfwriter":
                from odml.tools.rdf_converter import RDFWriter
                obs["render"] = result_of(lambda: RDFWriter(doc).get_rdf_str(fmt))
            else:
                try:
                    writer = ODMLWriter(backend)
                    obs["render"] = result_of(lambda: writer.to_string(doc, **kwargs))
                except NotImplementedError:
                    obs["render"] = {"ok": "NEW"}
            obs["format_known"] = None if known_formats is None else \
                ((fmt if fmt is not None else "xml") in known_formats)
        before = snapshot(root)
        with warning_filter(case["filter"]) as rec:
            try:
                if entry == "fileio":
                    odml.save(doc, path, backend, **kwargs)
                elif entry == "odmlwriter":
                    ODMLWriter(backend).write_file(doc, path, **kwargs)
                elif entry == "xmlwriter":
                    ct = {"tuple": ("a", "b"), "str": "<xsl:template match=\"odML\"/>", None: None}[
                        case["custom_template"]]
                    XMLWriter(doc).write_file(path, custom_template=ct)
                else:
                    RDFWriter(doc).write_file(path, fmt)
                obs["outcome"] = "ok"
            except Exception as exc:
                obs["outcome"] = fw.exc_name(exc)
                obs["is_parser_exception"] = self.is_parser_exception(exc)
            obs["warned"] = len([w for w in rec if issubclass(w.category, UserWarning)])
        after = snapshot(root)
        obs["before"], obs["after"] = before, after
        changed = sorted(k for k in set(before) | set(after) if before.get(k, "<absent>") != after.get(k, "<absent>"))
        obs["changed"] = changed
        obs["loads"] = None
        if obs["outcome"] == "ok" and len(changed) == 1 and case.get("fault") is None \
                and case.get("invalid") is None and case.get("custom_template") is None:
            obs["loads"] = self.loads_back(os.path.join(root, changed[0]), entry, backend, fmt, doc)
        obs["root"] = root
        if not fresh:
            # histories: what is there now is the "earlier bytes" of the next step
            for rel, text in after.items():
                if text is not None and text not in KNOWN_CONTENT:
                    with io.open(os.path.join(root, rel), "w") as fh:
                        fh.write(u"OLD")
        return obs

    @staticmethod
    def candidates(path, case):
        out = [path]
        if case["entry"] == "fileio":
            out.append(path + "." + case["backend"])
        if case["entry"] == "rdfwriter":
            try:
                from odml.tools.parser_utils import RDF_CONVERSION_FORMATS
                ext = RDF_CONVERSION_FORMATS.get(case["rdf_format"])
                if ext:
                    out.append(path + ext)
            except ImportError:
                pass
        return out

    @staticmethod
    def is_parser_exception(exc):
        try:
            from odml.tools.parser_utils import ParserException
            return isinstance(exc, ParserException)
        except ImportError:
            return fw.exc_name(exc) == "ParserException"

    @staticmethod
    def loads_back(path, entry, backend, fmt, doc):
        try:
            if backend.upper() == "RDF":
                pf = RDF_PARSE_FORMAT.get(fmt)
                if pf is None:
                    return None
                import rdflib
                graph = rdflib.Graph()
                graph.parse(path, format=pf)
                return len(graph) > 0
            import odml
            back = odml.load(path, backend.upper(), show_warnings=False)
            return signature(back) == signature(doc)
        except Exception as exc:
            return "load failed: %s" % fw.exc_name(exc)

    # -- model ---------------------------------------------------------------
    def step_request(self, case, obs):
        root = obs["root"]
        files = [[os.path.join(root, rel), text] for rel, text in sorted(obs["before"].items())
                 if text is not None]
        blocked = []
        dirs = [os.path.join(root, rel[:-1]) for rel in obs["before"] if rel.endswith("/")]
        blocked += dirs
        if case["target"] == "missing_dir":
            blocked += self.candidates(obs["path"], case)
        render = obs["render"]
        serialize = render
        if obs.get("format_known") is False:
            serialize = {"ok": "NEW"}        # the model's own format check has to refuse
        decorate = {"raise": "TypeError"} if case.get("custom_template") == "tuple" else {"ok": True}
        query = sorted(set(os.path.join(root, rel) for rel in list(obs["before"]) + list(obs["after"])
                           if not rel.endswith("/")))
        fmt = case["rdf_format"]
        return {"p": "C07", "op": "save", "entry": case["entry"], "backend": case["backend"],
                "rdf_format": fmt, "path": obs["path"], "fs": files, "validate": obs["validate"],
                "render": render, "serialize": serialize, "decorate": decorate, "blocked": blocked,
                "warn_raises": case["filter"] == "error", "query": query}

    def model_requests(self, case, obs):
        if case["stream"] in ("history", "locale"):
            return [self.step_request(st, o) for st, o in zip(case["steps"], obs["steps"])
                    if self.modelled(st, o)]
        return [self.step_request(case, obs)] if self.modelled(case, obs) else []

    @staticmethod
    def modelled(case, obs):
        # non-ASCII in a path or a non-string rdf_format are outside the model's alphabet
        return not obs.get("skipped")

    def compare_step(self, case, obs, ans):
        out = []
        root = obs["root"]
        impl_ok = obs["outcome"] == "ok"
        if (ans["outcome"] == "ok") != impl_ok:
            out.append("model outcome %s (%s), implementation %s"
                       % (ans["outcome"], ans.get("exc"), obs["outcome"]))
        if ans["outcome"] == "raised" and not impl_ok:
            if (ans["exc"] == "ParserException") != bool(obs.get("is_parser_exception")):
                out.append("model raises %s, implementation %s" % (ans["exc"], obs["outcome"]))
        model_files = dict((p, c) for p, c in ans["files"])
        model_files[ans["target"]] = ans.get("target_content")
        for p in sorted(model_files):
            rel = os.path.relpath(p, root)
            want = model_files[p]
            got = content_class(obs["after"].get(rel))
            if want != got:
                out.append("file %s: model %r, implementation %r" % (rel, want, got))
        if ans["outcome"] == "ok" and impl_ok and ans["warned"] and not obs["warned"]:
            out.append("model says a warning is issued, implementation issued none")
        return out

    def compare(self, case, obs, answers):
        if case["stream"] in ("history", "locale"):
            out = []
            pairs = [(st, o) for st, o in zip(case["steps"], obs["steps"]) if self.modelled(st, o)]
            for i, ((st, o), ans) in enumerate(zip(pairs, answers)):
                out += ["step %d: %s" % (i, d) for d in self.compare_step(st, o, ans)]
            return out
        return self.compare_step(case, obs, answers[0]) if answers else []

    # -- oracle --------------------------------------------------------------
    def oracle_step(self, case, obs):
        out = []
        entry = case["entry"]
        validates = entry in ("fileio", "odmlwriter")
        supported = True
        if validates:
            try:
                from odml.tools.parser_utils import SUPPORTED_PARSERS
                supported = case["backend"].upper() in SUPPORTED_PARSERS
            except ImportError:
                pass
        ranks = obs["validate"].get("ok")
        invalid = (case.get("invalid") in INVALID_KINDS and case["invalid"] not in obs["skipped"]
                   and "raise" not in obs["validate"]) or (ranks is not None and "error" in ranks)
        failed = obs["outcome"] != "ok"
        # 1. an invalid document is never written: ParserException for every format
        if validates and supported and invalid:
            if not failed:
                out.append("invalid document (%s, issues %s) was saved by %s/%s without an exception"
                           % (case.get("invalid"), ranks, entry, case["backend"]))
            elif not obs.get("is_parser_exception"):
                out.append("invalid document (%s): save raised %s, not ParserException"
                           % (case.get("invalid"), obs["outcome"]))
        # 2. whenever a save raises, no file is created and existing files keep their content
        if failed and obs["changed"]:
            det = ["%s: %r -> %r" % (k, content_class(obs["before"].get(k)) if k in obs["before"] else "<absent>",
                                     content_class(obs["after"].get(k)) if k in obs["after"] else "<absent>")
                   for k in obs["changed"]]
            out.append("save raised %s but the directory changed: %s" % (obs["outcome"], "; ".join(det)))
        # 3. a successful save touches exactly one path, derived from the given one
        if not failed:
            rel = os.path.relpath(obs["path"], obs["root"])
            if len(obs["changed"]) != 1:
                out.append("successful save changed %d paths: %s" % (len(obs["changed"]), obs["changed"]))
            elif not obs["changed"][0].startswith(rel):
                out.append("successful save wrote %s, asked for %s" % (obs["changed"][0], rel))
            elif not obs["after"].get(obs["changed"][0]):
                out.append("successful save left %s empty" % obs["changed"][0])
            if obs["loads"] not in (None, True):
                out.append("saved file does not load back as the document: %s" % (obs["loads"],))
        # 4. a document with warnings only (or none) whose text can be rendered is written,
        #    and the warnings are reported
        if validates and supported and ranks is not None and "error" not in ranks and not invalid \
                and "ok" in obs["render"] and case["target"] in ("absent", "old", "keep") \
                and case["filter"] == "default":
            if failed:
                out.append("document without validation errors was not saved: %s" % obs["outcome"])
            elif ranks and not obs["warned"]:
                out.append("document saved with %d validation warnings but no warning was reported" % len(ranks))
        return out

    def oracle(self, case, obs):
        if "harness_exception" in obs:
            return []
        if case["stream"] in ("history", "locale"):
            out = []
            for i, (st, o) in enumerate(zip(case["steps"], obs["steps"])):
                out += ["step %d (%s %s %s): %s" % (i, st["entry"], st["backend"], st["rdf_format"], f)
                        for f in self.oracle_step(st, o)]
            return out
        return self.oracle_step(case, obs)

    def tag(self, case, obs):
        if case["stream"] == "locale":
            return ("locale:%s" % obs.get("encoding"), True)
        if case["stream"] == "history":
            steps = obs.get("steps", [])
            return ("history:%d" % len(steps), any(o.get("outcome") != "ok" for o in steps))
        oc = obs.get("outcome")
        if oc == "ok":
            cls = "ok+warned" if obs.get("warned") else "ok"
        elif obs.get("is_parser_exception"):
            cls = "refused-invalid"
        elif "raise" in obs.get("validate", {}):
            cls = "validation-raised"
        elif "raise" in obs.get("render", {}):
            cls = "render-raised"
        else:
            cls = "raised-other"
        nt = oc != "ok" or case["target"] == "old" or bool(obs.get("warned"))
        return ("%s:%s" % (case["entry"], cls), nt)


if __name__ == "__main__":
    sys.exit(fw.main(C07(), sys.argv[1:]))
