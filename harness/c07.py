# -*- coding: utf-8 -*-
"""
C07 - Save never writes an invalid document and a failed save harms no file.

Tie between lean/OdmlModel/Model/FS.lean and the repository.  Every case builds a document,
makes it invalid and/or makes its rendering fail from outside, puts the target path into one of
its states (absent / earlier bytes / missing directory / a directory), saves through one of the
four public entry points and records the outcome class and the whole private directory
(listing + bytes) before and after.  The validation result and the rendering result (ok/raise)
are observed separately through the public API and handed to the compiled model, which replays
the exact sequence of effects; the two file systems must agree.  The oracle restates the
property over the observation alone.
"""
import contextlib
import io
import json
import os
import shutil
import subprocess
import sys
import tempfile
import warnings

import framework as fw

# earlier data that is longer than any document written here (a save must replace it, not write over its head)
LONG_OLD = u"OLD line\n" * 9000
KNOWN_CONTENT = ("", "OLD", "SENTINEL", LONG_OLD)
RDF_PARSE_FORMAT = {None: "xml", "xml": "xml", "pretty-xml": "xml", "turtle": "turtle", "ttl": "turtle",
                    "nt": "nt", "ntriples": "nt", "nt11": "nt", "n3": "n3", "json-ld": "json-ld"}
INVALID_KINDS = ("notype", "emptytype", "dupid", "dupprop", "dupsec", "dupid_far", "dupid_prop")
FAULTS = ("obj_author", "gen_author", "nul_author", "ctrl_value", "surrogate_value", "validation_crash")
TARGETS = ("absent", "old", "missing_dir", "is_dir")
NAMES = ("f.out", "f", "d.1/f", "x.y:f", "f.rdf.ttl")
# further file-name shapes (strengthening round 2): extension in the directory part, leading / trailing
# dot, upper-case extension, blank, non-ASCII (given as an escape so that the case files stay ASCII)
NAMES2 = ("d.ttl/f", ".hidden", "f.", "f.XML", "f g.out", u"f\u00fc\u4e2d.out", "d.xml/f.json")
# symbolic links at the target path: to a file holding earlier bytes / to a file that does not exist
LINK_TARGETS = ("link_old", "link_dangling")
# how the path is handed over: the text itself, a pathlib.Path, bytes
PATH_KINDS = ("str", "pathlib", "bytes")
# backend arguments that are not one of the registered names (all must be refused before anything is touched)
ODD_BACKENDS = ("bogus", "odml", "", " JSON", "json ", "XML\n", "<none>", "<int>", "<bytes>")
# 'error_all': every warning of every module is an error (python -W error), not only the library's own
FILTERS = ("default", "error", "ignore", "error_all")

# ---- payloads: what an attribute of the document can hold (strengthening round 2) -----------------------
# texts that some encoder / container format on the way to the file may refuse or mangle
TEXTS = {
    "lone_hi": u"a\ud800b", "lone_lo": u"caf\udce9.dat", "pair_rev": u"\udc00\ud800", "lone_end": u"x\udbff",
    "long_then_lone": u"\u00e9" * 70000 + u"\udc80", "long": u"x\u20ac" * 40000,
    "astral": u"x\U0001F600y", "astral_edges": u"\U00010000\U0010ffff",
    "nel": u"a\x85b", "ls_ps": u"a\u2028b\u2029c", "nul": u"a\x00b", "ctrl": u"a\x01b", "esc": u"\x1b[0m",
    "vt_ff": u"a\x0bb\x0cc", "fffe": u"a\ufffeb", "ffff": u"\uffff", "bom": u"\ufeffa", "cr": u"a\rb\r\nc",
    "tab_nl": u"a\tb\nc\n", "wide": u"Ren\u00e9 \u20ac \u4e2d", "latin1": u"caf\u00e9", "del": u"a\x7fb",
    "c1": u"a\x9bb", "quote": u"a\"'<>&b\\", "cdata": u"]]>", "empty": u"", "ws": u"  ", "yamlish": u"- : # {a}",
    "yaml_tag": u"!!python/object:os.system", "nonchar": u"\ufdd0", "pct": u"100%s %(x)d %", "bidi": u"\u202eabc",
    "combining": u"e\u0301\u0300", "number_like": u"1e5", "bool_like": u"yes", "null_like": u"~",
}
# texts for which a written file must load back to a document of the same shape
SAFE_TEXTS = ("wide", "latin1", "astral", "astral_edges", "long", "combining")


class StrSub(str):
    """A str subclass (yaml has no representer for it)."""


def make_object(kind):
    """Attribute objects; some of them json / yaml / lxml / rdflib cannot encode."""
    import datetime
    import decimal
    return {
        "obj": lambda: Obj(), "gen": lambda: (x for x in []), "bytes": lambda: b"caf\xe9",
        "bytearray": lambda: bytearray(b"ab"), "int": lambda: 5, "bigint": lambda: 10 ** 400,
        "nan": lambda: float("nan"), "inf": lambda: float("-inf"), "set": lambda: set([1]),
        "frozenset": lambda: frozenset([1]), "dict": lambda: {"k": 1}, "dict_obj": lambda: {"k": Obj()},
        "dict_intkey": lambda: {1: "a", "1": "b"}, "tuple": lambda: ("a", "b"), "list": lambda: ["a", Obj()],
        "true": lambda: True, "date": lambda: datetime.date(2020, 1, 2),
        "time": lambda: datetime.time(1, 2, 3), "decimal": lambda: decimal.Decimal("1.5"),
        "complex": lambda: 1j, "strsub": lambda: StrSub("sub"), "type": lambda: Obj, "lambda": lambda: (lambda: 0),
        "exc": lambda: ValueError("x"), "range": lambda: range(3), "ellipsis": lambda: Ellipsis,
    }[kind]()


OBJECTS = ("obj", "gen", "bytes", "bytearray", "int", "bigint", "nan", "inf", "set", "frozenset", "dict", "dict_obj",
           "dict_intkey", "tuple", "list", "true", "date", "time", "decimal", "complex", "strsub", "type", "lambda",
           "exc", "range", "ellipsis")
# where a payload goes: (holder, attribute). '_x' = below the API (only when the public setter would
# resolve / fetch something); 'values*' = the value list of the first Property
POSITIONS = {
    "author": ("doc", "author"), "version": ("doc", "version"), "doc_repository": ("doc", "repository"),
    "date": ("doc", "date"),
    "sec_name": ("sec", "name"), "sec_type": ("sec", "type"), "sec_definition": ("sec", "definition"),
    "sec_reference": ("sec", "reference"), "sec_repository": ("sec", "repository"), "sec_link": ("sec", "_link"),
    "sec_include": ("sec", "_include"),
    "prop_name": ("prop", "name"), "value": ("prop", "values*"), "value_text": ("prop", "values*text"),
    "value_raw": ("prop", "_values*"), "unit": ("prop", "unit"), "prop_definition": ("prop", "definition"),
    "dependency": ("prop", "dependency"), "dependency_value": ("prop", "dependency_value"),
    "prop_reference": ("prop", "reference"), "uncertainty": ("prop", "uncertainty"),
    "value_origin": ("prop", "value_origin"),
    "sub_name": ("last_sec", "name"), "last_value": ("last_prop", "values*"),
}
# positions whose content decides the names / the shape of the loaded document or triggers a fetch on load
NO_LOADBACK_POS = ("value_raw", "doc_repository", "sec_repository", "sec_link", "sec_include", "date", "uncertainty")
XML_OPTS = {"local_style": ("<absent>", True, False, "yes", 1, 0, None),
            "custom_template": ("<absent>", "tuple", "tuple1", "str", "bytes", "pct", "empty", "wide")}
RDF_FORMAT_OBJECTS = ("none", "int", "bytes", "list", "tuple", "true")
RDF_FORMATS = (None, "xml", "turtle", "nt", "json-ld", "n3", "pretty-xml", "ttl", "ntriples", "nt11",
               "trig", "trix", "bogus", "")
# formats rdflib knows but the library's table does not, other spellings of known ones (round 2)
RDF_FORMATS2 = ("nquads", "longturtle", "hext", "Turtle", "XML", " nt", "nt ", "application/rdf+xml", "json_ld")


# ---- ways of having warnings only (strengthening round 4) -------------------------------------------------
# every branch of every rule of the default validation that the property does not name as a way of being
# invalid (the property names: missing Section type, duplicate ids, duplicate sibling names), built inside a
# Section of its own; NEAR_KINDS are the neighbours of those branches that raise no issue at all
WARN_KINDS = (
    "ns_type", "ns_type_explicit", "unnamed_sec", "unnamed_prop",
    "dep_missing", "dep_value_mismatch", "dep_value_type", "dep_value_float", "dep_self", "dep_in_sub",
    "dep_in_parent", "dep_number", "dep_true", "dep_ws", "dep_target_empty", "dep_list", "dep_wide",
    "tuple_len", "dtype_mismatch", "dtype_date_int",
    "str_int", "str_date", "str_datetime", "str_time", "str_float", "str_tuple", "str_ntuple", "str_bool",
    "str_text",
    "card_val_min", "card_val_max", "card_val_exact", "card_val_10", "card_val_max10", "card_prop_min",
    "card_prop_max", "card_prop_exact", "card_sec_min", "card_sec_max", "card_sec_leaf",
    "many", "hundred")
NEAR_KINDS = ("dep_value_match", "dep_value_match_last", "dep_no_value", "dep_empty", "dep_value_only",
              "dep_value_empty", "dtype_unknown", "str_mixed", "str_plain", "card_val_ok", "card_val_0",
              "card_sec_max0", "card_int", "typed_like_ns")
RAW_WARNS = ("tuple_len", "dtype_mismatch", "dtype_date_int", "dtype_unknown")
# rules registered with the validation from outside (module-level registry; stream 'registry', child interpreter):
# the two rules the library ships "on demand" and user rules that warn / refuse / raise / find nothing
REGISTER_KINDS = ("repo_present", "terminology", "custom_warning", "custom_warning_doc", "custom_warning_prop",
                  "custom_error", "custom_error_doc", "custom_error_prop", "custom_error_default_rank",
                  "custom_raises", "custom_nothing", "custom_many", "custom_both")
REGISTER_ERRORS = ("custom_error", "custom_error_doc", "custom_error_prop", "custom_error_default_rank",
                   "custom_both")
# validation_id of an issue -> name of the registered rule it comes from (where the two differ)
ISSUE_RULE = {"section_unique_ids": "document_unique_ids", "property_unique_ids": "document_unique_ids",
              "property_unique_name": "property_unique_names"}

STEP_STREAMS = ("history", "locale", "reuse", "registry")

# ---- strengthening round 5 ----------------------------------------------------------------------------------
# how many issues of rank warning a document has and where the one error sits among them: objects that raise
# warnings are created in front of ('lead') and / or behind ('trail') the Sections the injections go to; the
# counts straddle the powers of ten and two a "first N issues" / "N issues per page" limit would sit at
BULK_SHAPES = ("secs", "props", "unnamed", "card", "chain", "nested", "mixed")
BULK_COUNTS = (1, 2, 9, 10, 11, 19, 20, 21, 22, 31, 32, 33, 49, 50, 51, 99, 100, 101, 255, 256, 300)
BULK_COUNTS_THOROUGH = (499, 500, 512, 999, 1000, 1001)
# how deep in the tree the Sections of the injections sit (below a chain of faultless Sections)
DEPTHS = (1, 2, 3, 5, 10, 30)
# where earlier data sits relative to the path handed in: at the path a save derives from it (odml.save adds
# '.<backend>' to a name without a dot, RDFWriter adds the extension of the format) while the given path is
# absent / holds other data; an existing file that is empty; files with names next to the target's are there
# in all three (a save has no business with them)
DERIVED_TARGETS = ("old_derived", "old_both", "old_empty")
# 'old_self': the earlier data is the document itself - saved through the same entry point while it was still
# fine, read back from that file where the format has a reader (it then knows the file it came from), edited,
# saved again
OPENABLE = ("absent", "old", "old_long", "keep", "old_self") + DERIVED_TARGETS
# targets that cannot be written: a name longer than the file system takes (open refuses; modelled) and a
# symbolic link to a device that takes no data (open succeeds, the data is refused when the file is flushed /
# closed - the one way to see a write fail after open here; oracle-only: the link must stay what it was)
LONG_NAME = "n" * 270
UNWRITABLE_TARGETS = ("long_name", "link_devfull")
# the path is a text relative to the working directory: plain, with a leading './', through '..'
REL_PATHS = ("relative", "relative_dot", "relative_up")
TEXT_PATHS = ("str",) + REL_PATHS
# what is handed to the save in place of a Document (oracle-only; the frame clause alone is demanded)
OBJ_KINDS = ("section", "detached_section", "property", "none", "str", "dict", "list_of_docs")


# ---- strengthening round 6 ----------------------------------------------------------------------------------
# how two objects of one document come to carry one id. An id is an RFC 4122 UUID: the library hands every id
# that comes in through its public doors (constructor argument `oid`, `new_id`, the readers) to uuid.UUID and
# keeps the canonical text, so the same UUID written another way is the same id. A way is the text
# "id:<how>:<spelling>:<pair>":
#   how      - new_id (an object that has an id of its own is given another object's), ctor (a new object is made
#              with `oid=`), docclone (a Section of a keep_id clone of the whole document is taken over),
#              clone_partial (keep_id clone whose top object then got a new id: the children still share theirs),
#              and the neighbours that leave a faultless document: new_id_back (the edit is taken back with
#              new_id()), clone_fresh (keep_id clone, then a new id for every object of it);
#   spelling - how the other object's id is written (ID_SPELL_SAME: texts uuid.UUID reads as the same UUID;
#              ID_SPELL_OTHER: texts and objects that are no spelling of it - the library refuses them or makes an id
#              of its own, the document stays faultless and must be written);
#   pair     - who receives whose id: d = the Document, s = a Section, p = a Property, a = the receiver's parent
ID_SPELL_SAME = ("canon", "upper", "mixed", "urn", "urn_upper_hex", "braces", "braces_urn", "brace_open",
                 "nohyphen", "nohyphen_upper", "hyphens_odd", "hyphen_moved", "fullwidth", "strsub")
ID_SPELL_OTHER = ("URN", "padded", "newline", "short", "long", "nonhex", "empty", "word", "other_uuid", "nil_uuid",
                  "uuid_obj", "bytes", "int", "list", "none", "true")
ID_SPELL_OBJECTS = ("strsub", "uuid_obj", "bytes", "int", "list", "none", "true")
ID_PAIRS = ("ss", "pp", "sp", "ps", "sd", "ds", "dp", "sa", "pa")
ID_HOWS_OTHER = ("docclone", "clone_partial", "new_id_back", "clone_fresh")
# the document is read from a text (XML / JSON / YAML) in which the id of one object was overwritten with another
# object's id in one of the spellings: doc spec {"via": fmt, "text_id": {"spell", "pair", "pick"}}


# ways a Section comes to have no type: "ty:<how>:<value>" - through the setter or the constructor argument, the
# value None / "" (missing: a way of being invalid when the look at the attributes confirms it), other values that
# are false (0, 0.0, [], (), False: the library's call, the oracle demands nothing of its own) and texts that only
# look like nothing (" ", "0", "None", "n.s" - the Section has a type, the document is written)
TYPE_VALUES = ("none", "empty", "zero", "zero_float", "emptylist", "emptytuple", "false", "ws", "zero_text",
               "none_text", "nbsp")
TYPE_MISSING = ("none", "empty")


def is_type_way(kind):
    return isinstance(kind, str) and kind.startswith("ty:")


def type_value(tag):
    return {"none": None, "empty": "", "zero": 0, "zero_float": 0.0, "emptylist": [], "emptytuple": (), "false": False,
            "ws": " ", "zero_text": "0", "none_text": "None", "nbsp": u"\u00a0"}[tag]


# what new_id was handed and what the object's id was before / after (filled by apply_id_way, read by run_step)
ID_EDITS = []


def is_id_way(kind):
    return isinstance(kind, str) and kind.startswith("id:")


def id_way(how, spell="-", pair="-"):
    return "id:%s:%s:%s" % (how, spell, pair)


def respell(oid, spell):
    """The id `oid` (canonical text) written / handed over in another way."""
    import uuid
    hexs = oid.replace("-", "")
    if spell == "fullwidth":              # int() reads every Unicode decimal digit
        return oid.translate(dict((ord(c), 0xFF10 + int(c)) for c in "0123456789"))
    return {
        "canon": lambda: oid, "upper": lambda: oid.upper(), "mixed": lambda: oid[:18].upper() + oid[18:],
        "urn": lambda: "urn:uuid:" + oid, "urn_upper_hex": lambda: "urn:uuid:" + oid.upper(),
        "braces": lambda: "{%s}" % oid, "braces_urn": lambda: "{urn:uuid:%s}" % oid, "brace_open": lambda: "{" + oid,
        "nohyphen": lambda: hexs, "nohyphen_upper": lambda: hexs.upper(),
        "hyphens_odd": lambda: "-".join(hexs[i:i + 4] for i in range(0, 32, 4)),
        "hyphen_moved": lambda: hexs[:16] + "-" + hexs[16:], "strsub": lambda: StrSub(oid.upper()),
        "URN": lambda: "URN:UUID:" + oid, "padded": lambda: " %s " % oid, "newline": lambda: oid + "\n",
        "short": lambda: oid[:-1], "long": lambda: oid + "0",
        "nonhex": lambda: "g" + oid[1:], "empty": lambda: "", "word": lambda: "not-a-uuid",
        "other_uuid": lambda: ("0" if oid[0] != "0" else "1") + oid[1:],
        "nil_uuid": lambda: "00000000-0000-0000-0000-000000000000",
        "uuid_obj": lambda: uuid.UUID(oid), "bytes": lambda: oid.encode("ascii"), "int": lambda: uuid.UUID(oid).int,
        "list": lambda: [oid], "none": lambda: None, "true": lambda: True,
    }[spell]()


def id_key(val):
    """What an id stands for: the UUID when it is one (whatever the spelling), else the thing itself."""
    import uuid
    if isinstance(val, uuid.UUID):
        return ("uuid", val.int)
    if isinstance(val, str):
        try:
            return ("uuid", uuid.UUID(val).int)
        except Exception:
            return ("text", val)
    return ("other", val)


def id_pair(doc, secs, pair, pick):
    """(receiver, donor) of an id for the pair code; None when the document has no such two objects."""
    props = [prop for sec in secs for prop in sec.properties]

    def of(code, index, avoid=None):
        pool = {"d": [doc], "s": list(secs), "p": props}[code]
        pool = [obj for obj in pool if obj is not avoid]
        return pool[index % len(pool)] if pool else None

    receiver = of(pair[0], pick)
    if receiver is None:
        return None
    if pair[1] == "a":
        donor = getattr(receiver, "parent", None)
    else:
        donor = of(pair[1], pick + 1, avoid=receiver)
    if donor is None or donor is receiver:
        return None
    return receiver, donor


class Obj(object):
    """An attribute object json cannot encode."""


def modes():
    out = []
    for entry in ("fileio", "odmlwriter"):
        for b in ("XML", "JSON", "YAML"):
            out.append((entry, b, None))
        for f in RDF_FORMATS:
            out.append((entry, "RDF", f))
    out.append(("xmlwriter", "XML", None))
    for f in RDF_FORMATS:
        if f is not None:
            out.append(("rdfwriter", "RDF", f))
    return out


# ----------------------------------------------------------------------------- documents
def build_doc(spec):
    import odml
    import datetime
    doc = odml.Document(author=u"Ren\u00e9 \u20ac \u4e2d" if spec.get("wide") else "auth", version="1.0")
    secs = []
    # (round 5) objects that raise warnings, created before everything else
    joined = add_bulk(doc, spec.get("lead"), "lead")
    # (round 5) the Sections of the injections sit below a chain of faultless Sections
    top = doc
    for k in range(spec.get("depth") or 0):
        top = odml.Section(name="c%d" % k, type="ct", parent=top)
    for i in range(spec.get("secs", 1)):
        sec = odml.Section(name="s%d" % i, type="t%d" % i, parent=top)
        secs.append(sec)
        for j in range(spec.get("props", 1)):
            vals = [[1, 2], ["x", u"é y"], [1.5], [datetime.date(2020, 1, 2)], [True]][(i + j) % 5]
            if spec.get("wide"):
                vals = [u"\u00e9\u20ac", u"\u4e2d\u6587"]
            odml.Property(name="p%d" % j, values=vals, parent=sec)
        if spec.get("nested"):
            sub = odml.Section(name="sub", type="st", parent=sec)
            odml.Property(name="q", values=["v"], parent=sub)
            secs.append(sub)
    if spec.get("rich"):
        # other features of the library in the same document: a resolved link, unnamed objects, a Property
        # without values, tuple / datetime / time / extreme float values, violated cardinalities (warnings),
        # non-ASCII names, a third nesting level
        doc.date = datetime.date(1999, 12, 31)
        tgt = odml.Section(name="target", type="lt", parent=doc)
        odml.Property(name="lp", values=[1, 2], parent=tgt)
        lnk = odml.Section(name="linked", type="lt", parent=doc)
        try:
            lnk.link = "/target"
        except Exception:
            pass
        unnamed = odml.Section(type="ut", parent=doc)
        odml.Property(values=["x"], parent=unnamed)
        odml.Property(name="no_values", parent=unnamed)
        odml.Property(name="tup", values=["(1;2;3)"], dtype="3-tuple", parent=unnamed)
        odml.Property(name="dt", values=[datetime.datetime(2020, 1, 2, 3, 4, 5)], parent=unnamed)
        odml.Property(name="tm", values=[datetime.time(3, 4, 5)], parent=unnamed)
        odml.Property(name="fl", values=[float("inf"), float("nan"), 1e300, -0.0], parent=unnamed)
        odml.Property(name=u"n\u00e4me \u4e2d", values=[u"\u00fc"], unit=u"\u00b5V", parent=unnamed)
        deep = odml.Section(name="deep", type="dt", parent=odml.Section(name="mid", type="mt", parent=unnamed))
        odml.Property(name="dp", values=[10 ** 30], parent=deep)
        if spec["rich"] == "card":
            card = odml.Property(name="card", values=[1], parent=unnamed)
            card.val_cardinality = (2, None)
            unnamed.prop_cardinality = (1, 2)
            unnamed.sec_cardinality = (2, None)
        # (the linking Section is not a place for injections: its Properties are copies that every
        #  Document.finalize - RDFWriter calls it - replaces by new ones)
        secs += [tgt, unnamed, deep]
    # (round 5) objects that raise warnings, created after everything else; the last Section of the bulk can be
    # one of the Sections the injections go to ('join')
    joined = add_bulk(doc, spec.get("trail"), "trail") or joined
    if joined is not None:
        secs.append(joined)
    # (round 4) issues the document has before it is loaded / handed over, and the way it came into being:
    # through the API or read from a text in one of the formats (the writer does not validate a text)
    for i, wrn in enumerate(spec.get("pre_warns") or []):
        try:
            apply_warn(doc, secs, wrn, 100 + i, [])
        except Exception:
            pass
    if spec.get("via"):
        try:
            from odml.tools.odmlparser import ODMLReader, ODMLWriter
            text = ODMLWriter(spec["via"]).to_string(doc)
            tid = spec.get("text_id")
            if tid:
                # (round 6) the text was written elsewhere: one object's id is another object's, in some spelling
                both = id_pair(doc, secs, tid.get("pair", "ss"), tid.get("pick", 0))
                spelled = respell(both[1].id, tid.get("spell", "canon")) if both else None
                if isinstance(spelled, str) and both[0].id in text:
                    text = text.replace(both[0].id, str(spelled))
            loaded =ODMLReader(spec["via"], show_warnings=False).from_string(text)
            kept = [s for s in loaded.itersections(recursive=True)
                    if not any(getattr(a, "link", None) for a in [s] + _ancestors(s))]
            if kept:
                doc, secs = loaded, kept
        except Exception:                 # the text cannot be produced / read back: the API-built document
            pass
    return doc, secs


def add_bulk(doc, bulk, tag):
    """(round 5) bulk = {"n": N, "shape": s, "join": bool}: objects that raise N or more issues of rank warning
    between them (and none of rank error). -> the last Section made when 'join' asks for it, else None."""
    import odml
    if not bulk or not bulk.get("n"):
        return None
    count, shape = bulk["n"], bulk.get("shape", "secs")
    last = None

    def holder(num):
        return odml.Section(name="%s_h%d" % (tag, num), type="bt", parent=doc)

    def make(kind, num, parent):
        if kind == "secs":                # a Section with the default type
            return odml.Section(name="%s_s%d" % (tag, num), parent=parent)
        if kind == "props":               # a text value that looks like a number
            odml.Property(name="%s_p%d" % (tag, num), values=[str(num)], parent=parent)
        elif kind == "unnamed":           # a Property without a name
            odml.Property(values=["u%d" % num], parent=parent)
        elif kind == "card":              # fewer values than the cardinality asks for
            prop = odml.Property(name="%s_c%d" % (tag, num), values=[num], parent=parent)
            prop.val_cardinality = (2, None)
        return parent

    if shape == "secs":
        for i in range(count):
            last = make("secs", i, doc)
    elif shape == "nested":
        last = holder(0)
        for i in range(count):
            make("secs", i, last)
    elif shape == "chain":
        # untyped Sections one inside the other (not deeper than the interpreter's serialisers take), the rest
        # side by side at the bottom
        cur = doc
        for i in range(count):
            new = make("secs", i, cur)
            if i < 25:
                cur = new
            last = new
    elif shape == "mixed":
        homes = {}
        for i in range(count):
            kind = ("secs", "props", "unnamed", "card")[i % 4]
            if kind == "secs":
                last = make(kind, i, doc)
            else:
                if kind not in homes:
                    homes[kind] = holder(len(homes))
                last = make(kind, i, homes[kind])
    else:
        last = holder(0)
        for i in range(count):
            make(shape, i, last)
    return last if bulk.get("join") else None


def apply_warn(doc, secs, wrn, num, undo):
    """Adds a Section of its own that triggers one branch of one rule that is not a way of being invalid
    (or a neighbour of the branch that triggers nothing)."""
    import odml
    kind = wrn["kind"]
    parent = doc
    if wrn.get("at") == "pick" and secs:
        parent = secs[wrn.get("pick", 0) % len(secs)]
    wsec = odml.Section(name="w%d_%s" % (num, kind), type="wt")
    pa = odml.Property(name="a", values=[1, 2], parent=wsec)
    pb = odml.Property(name="b", values=["x", "y"], parent=wsec)
    sub = odml.Section(name="ws", type="wst", parent=wsec)
    pc = odml.Property(name="c", values=["v"], parent=sub)

    def dep(prop, name, value=None):
        prop.dependency = name
        if value is not None:
            prop.dependency_value = value

    def raw(prop, dtype, values):
        prop._dtype = dtype
        prop._values = values

    def card(prop, count, bounds):
        prop.values = list(range(count))
        prop.val_cardinality = bounds

    def many(count):
        for _ in range(count):
            odml.Property(values=["u"], parent=sub)

    strings = {"str_int": ["1", "-22"], "str_date": ["2020-01-02"], "str_datetime": ["2020-01-02 03:04"],
               "str_time": ["03:04:05"], "str_float": ["1.5"], "str_tuple": ["(a)"], "str_ntuple": ["(1;2)"],
               "str_bool": ["True"], "str_text": ["a\nb"], "str_mixed": ["1", "x"], "str_plain": ["x"]}
    if kind in strings:
        pb.values = strings[kind]
    else:
        {
            "ns_type": lambda: odml.Section(name="untyped_w", parent=wsec),
            "ns_type_explicit": lambda: setattr(sub, "type", "n.s."),
            "typed_like_ns": lambda: setattr(sub, "type", "n.s"),
            "unnamed_sec": lambda: odml.Section(type="ut", parent=wsec),
            "unnamed_prop": lambda: odml.Property(values=["u"], parent=wsec),
            "dep_missing": lambda: dep(pb, "nope", "x"),
            "dep_value_mismatch": lambda: dep(pb, "a", 7),
            "dep_value_type": lambda: dep(pb, "a", "1"),
            "dep_value_float": lambda: dep(pb, "a", 1.5),
            "dep_self": lambda: dep(pb, "b", "zzz"),
            "dep_in_sub": lambda: dep(pb, "c", "v"),
            "dep_in_parent": lambda: dep(pc, "a", 1),
            "dep_number": lambda: dep(pb, 0, 1),
            "dep_true": lambda: dep(pb, True),
            "dep_ws": lambda: dep(pb, " a ", 1),
            "dep_target_empty": lambda: (setattr(pa, "values", []), dep(pb, "a", 1)),
            "dep_list": lambda: dep(pb, ["a"], [1]),
            "dep_wide": lambda: (setattr(pa, "name", u"\u00e4\u4e2d"), dep(pb, u"\u00e4\u4e2d", u"\u00fc")),
            "dep_value_match": lambda: dep(pb, "a", 1),
            "dep_value_match_last": lambda: dep(pb, "a", 2),
            "dep_no_value": lambda: dep(pb, "a"),
            "dep_empty": lambda: dep(pb, "", "x"),
            "dep_value_only": lambda: setattr(pb, "dependency_value", "x"),
            "dep_value_empty": lambda: dep(pb, "a", ""),
            "tuple_len": lambda: raw(pa, "2-tuple", ["(1;2;3)"]),
            "dtype_mismatch": lambda: raw(pa, "int", ["abc", 1]),
            "dtype_date_int": lambda: raw(pa, "date", [1]),
            "dtype_unknown": lambda: setattr(pa, "_dtype", "weird"),
            "card_val_min": lambda: card(pa, 2, (3, None)),
            "card_val_max": lambda: card(pa, 2, (None, 1)),
            "card_val_exact": lambda: card(pa, 2, (3, 3)),
            "card_val_10": lambda: card(pa, 9, (10, None)),
            "card_val_max10": lambda: card(pa, 11, (None, 10)),
            "card_val_ok": lambda: card(pa, 2, (2, 2)),
            "card_val_0": lambda: card(pa, 2, (0, 0)),
            "card_prop_min": lambda: setattr(wsec, "prop_cardinality", (3, None)),
            "card_prop_max": lambda: setattr(wsec, "prop_cardinality", (None, 1)),
            "card_prop_exact": lambda: setattr(wsec, "prop_cardinality", (1, 1)),
            "card_sec_min": lambda: setattr(wsec, "sec_cardinality", (2, None)),
            "card_sec_max": lambda: (odml.Section(name="ws2", type="wst", parent=wsec),
                                     setattr(wsec, "sec_cardinality", (None, 1))),
            "card_sec_max0": lambda: setattr(wsec, "sec_cardinality", (None, 0)),
            "card_sec_leaf": lambda: setattr(sub, "sec_cardinality", (1, 1)),
            "card_int": lambda: setattr(wsec, "sec_cardinality", 5),
            "many": lambda: many(12),
            "hundred": lambda: many(100),
        }[kind]()
    parent.append(wsec)
    undo.append(lambda: parent.remove(wsec))


def independently_invalid(doc):
    """The ways of being invalid the property names, looked for with nothing but attribute reads (no use of
    odml.validation): a Section without type / name or a Property without name (the attributes the format
    requires), two objects of one id, two sibling Sections of one name and type, two Properties of one name in
    a Section. -> list of what was found; None when the attributes cannot be read like this."""
    try:
        found = []
        ids = [doc.id]

        def missing(val):
            return not val and not isinstance(val, bool)

        def twice(items):
            seen = []
            for item in items:
                if any(item is old or item == old for old in seen):
                    return True
                seen.append(item)
            return False

        def walk(holder, depth):
            if depth > 60:
                raise RuntimeError("too deep")
            if twice([(sec.name, sec.type) for sec in holder.sections]):
                found.append("sibling Sections of one name and type")
            for sec in holder.sections:
                ids.append(sec.id)
                if missing(sec.type) or missing(sec.name):
                    found.append("Section without type or name")
                if twice([prop.name for prop in sec.properties]):
                    found.append("sibling Properties of one name")
                for prop in sec.properties:
                    ids.append(prop.id)
                    if missing(prop.name):
                        found.append("Property without name")
                walk(sec, depth + 1)
        walk(doc, 0)
        # (round 6) an id is a UUID: the same UUID in another spelling is the same id (for the canonical texts the
        # library keeps this is plain equality of the texts)
        if twice([id_key(i) for i in ids]):
            found.append("two objects of one id")
        return found
    except Exception:
        return None


def ids_in_rule_order(doc):
    """The id texts of all objects, the Document's first, then depth first: of every Section the ids of its
    Properties, its own, those of its sub-Sections. None when an id is not an ASCII text (outside the model)."""
    ids = [doc.id]

    def walk(holder, depth):
        if depth > 60:
            raise RuntimeError("too deep")
        for sec in holder.sections:
            ids.extend(prop.id for prop in sec.properties)
            ids.append(sec.id)
            walk(sec, depth + 1)
    walk(doc, 0)
    if not all(isinstance(i, str) and all(ord(ch) < 128 for ch in i) for i in ids):
        return None
    return [str(i) for i in ids]


def register_rules(kinds, made):
    """Registers validation rules through the public Validation.register_handler; `made` receives the
    (class, rule) pairs so that they can be taken back below the API (there is no public way; the stream runs
    in a child interpreter of its own)."""
    from odml import validation as val

    def add(klass, rule):
        val.Validation.register_handler(klass, rule)
        made.append((klass, rule))

    def yielding(rank, count=1):
        def rule(obj):
            for i in range(count):
                if rank == "default":
                    yield val.ValidationError(obj, "custom issue %d" % i)
                else:
                    yield val.ValidationError(obj, "custom issue %d" % i, rank)
        return rule

    def raising(obj):
        raise RuntimeError("custom rule raises")
        yield None                        # noqa (a generator function, like every rule)

    def both(obj):
        yield val.ValidationError(obj, "custom warning first", val.LABEL_WARNING)
        yield val.ValidationError(obj, "custom error second", val.LABEL_ERROR)

    for kind in kinds or []:
        if kind == "repo_present":
            add("section", val.section_repository_present)
        elif kind == "terminology":
            add("property", val.property_terminology_check)
        elif kind.startswith("custom_warning"):
            add({"custom_warning_doc": "odML", "custom_warning_prop": "property"}.get(kind, "section"),
                yielding(val.LABEL_WARNING))
        elif kind == "custom_error_default_rank":
            add("section", yielding("default"))
        elif kind.startswith("custom_error"):
            add({"custom_error_doc": "odML", "custom_error_prop": "property"}.get(kind, "section"),
                yielding(val.LABEL_ERROR))
        elif kind == "custom_raises":
            add("section", raising)
        elif kind == "custom_nothing":
            add("property", yielding(val.LABEL_WARNING, 0))
        elif kind == "custom_many":
            add("property", yielding(val.LABEL_WARNING, 15))
        elif kind == "custom_both":
            add("section", both)
    return made


def unregister_rules(made):
    from odml.validation import Validation
    for klass, rule in made:
        Validation._handlers[klass].discard(rule)


def _ancestors(sec):
    out = []
    cur = sec.parent
    while cur is not None and len(out) < 100:
        out.append(cur)
        cur = getattr(cur, "parent", None)
    return out


def _remove_identical(lst, item):
    for i, cur in enumerate(list(lst)):
        if cur is item:
            list.__delitem__(lst, i)
            return


def apply_payload(doc, secs, payload, undo):
    """Puts a text / an object into one attribute of the document. Raises when the library refuses."""
    import odml
    kind, pos = payload["kind"], payload["pos"]
    value = TEXTS[kind] if kind in TEXTS else make_object(kind)
    holder_name, attr = POSITIONS[pos]
    with_props = [sec for sec in secs if len(sec.properties)]
    holder = {"doc": lambda: doc, "sec": lambda: secs[0], "prop": lambda: with_props[0].properties[0],
              "last_sec": lambda: secs[-1], "last_prop": lambda: with_props[-1].properties[-1]}[holder_name]()
    if attr.startswith("values*"):
        old_dtype, old_values = holder.dtype, holder.values

        def restore():
            holder._dtype = old_dtype
            holder.values = old_values
        undo.append(restore)
        if attr.endswith("text"):
            holder.dtype = "text"
        holder.values = [value]
    elif attr == "_values*":
        old = holder._values
        undo.append(lambda: setattr(holder, "_values", old))
        holder._values = [value]
    else:
        old = getattr(holder, attr)
        private = attr if attr.startswith("_") else "_" + attr
        # undo below the setter when there is such a slot (the setter may refuse the old value's shape)
        undo.append(lambda: setattr(holder, private if hasattr(holder, private) else attr, old))
        setattr(holder, attr, value)


def apply_id_way(doc, secs, inv, pick_index, undo, skipped, suffix=""):
    """(round 6) One of the histories "id:<how>:<spelling>:<pair>" through the public API. Whether two objects
    share an id afterwards is not assumed: the oracle looks at the ids itself (independently_invalid). An edit
    the library refuses is part of the history, not a reason to leave the case out."""
    import odml
    parts = inv.split(":")
    how, spell, pair = parts[1], parts[2], parts[3]
    pick = secs[pick_index % len(secs)]

    def all_objects(sec):
        out = [sec] + list(sec.properties)
        for sub in sec.sections:
            out += all_objects(sub)
        return out

    if how in ("new_id", "new_id_back", "ctor"):
        both = id_pair(doc, secs, pair, pick_index)
        if both is None:
            skipped.append(inv)
            return
        receiver, donor = both
        arg = respell(donor.id, spell)
        if how == "ctor":
            # a new object next to the receiver, made with the donor's id
            made, home = None, None
            try:
                if pair[0] == "p":
                    home = receiver.parent
                    made = odml.Property(name="made_p" + suffix, values=[1], oid=arg, parent=home)
                else:
                    home = receiver.parent if pair[0] == "s" else doc
                    made = odml.Section(name="made_s" + suffix, type="mt", oid=arg, parent=home)
            except Exception:             # the constructor refuses the argument: nothing was made
                made = None
            if made is not None and home is not None:
                undo.append(lambda: home.remove(made))
            return
        old = receiver.id

        def back():
            try:
                receiver.new_id(old)
            except Exception:
                receiver._id = old
        undo.append(back)
        try:
            receiver.new_id(arg)
        except Exception:                 # refused: the object keeps the id it had
            pass
        if isinstance(arg, str) and isinstance(receiver.id, str):
            ID_EDITS.append({"arg": str(arg), "before": old, "after": receiver.id})
        if how == "new_id_back":
            receiver.new_id()
    elif how == "docclone":
        try:
            twin = doc.clone(keep_id=True)
            tops = [sec for sec in twin.sections if not getattr(sec, "link", None)
                    and not getattr(sec, "include", None)]
            taken = tops[pick_index % len(tops)]
            twin.remove(taken)
            taken.name = "twin_of_" + str(taken.name) + suffix
            doc.append(taken)
            undo.append(lambda: doc.remove(taken))
        except Exception:
            skipped.append(inv)
    elif how in ("clone_partial", "clone_fresh"):
        clone = pick.clone(keep_id=True)
        clone.name = "clone_of_" + str(pick.name) + suffix
        clone.new_id()
        if how == "clone_fresh":
            for obj in all_objects(clone)[1:]:
                obj.new_id()
        holder = pick.parent
        holder.append(clone)
        undo.append(lambda: holder.remove(clone))
    else:
        skipped.append(inv)


def apply_invalid(doc, secs, inv, pick_index, undo, skipped, suffix=""):
    """One of the ways of being invalid the property names, applied to the Section `pick_index` chooses."""
    import odml
    pick = secs[pick_index % len(secs)] if secs else None
    if inv and pick is None:
        skipped.append(inv)
    elif is_id_way(inv):
        apply_id_way(doc, secs, inv, pick_index, undo, skipped, suffix)
    elif is_type_way(inv):
        # (round 6) the door the type came in through and what exactly it is
        how, val = inv.split(":")[1:3]
        if how == "ctor":
            holder = pick.parent
            try:
                made = odml.Section(name="made_t" + suffix, type=type_value(val), parent=holder)
                undo.append(lambda: holder.remove(made))
            except Exception:             # the constructor refuses the value: nothing was made
                pass
        else:
            old_type = pick.type
            undo.append(lambda: setattr(pick, "type", old_type))
            try:
                pick.type = type_value(val)
            except Exception:             # the setter refuses the value: the Section keeps its type
                pass
    elif inv in ("notype", "emptytype"):
        old_type = pick.type
        undo.append(lambda: setattr(pick, "type", old_type))
        pick.type = None if inv == "notype" else ""
    elif inv == "dupid":
        clone = pick.clone(keep_id=True)
        clone.name = "clone_of_" + str(pick.name) + suffix
        holder = pick.parent
        holder.append(clone)
        undo.append(lambda: holder.remove(clone))
    elif inv == "dupid_far":
        # the two objects of one id sit in different branches, at different depths
        clone = pick.clone(keep_id=True)
        clone.name = "clone_of_" + str(pick.name) + suffix
        others = [s for s in secs if s is not pick and s is not pick.parent
                  and all(a is not pick for a in _ancestors(s))]
        if others:
            holder = others[pick_index % len(others)]
            holder.append(clone)
            undo.append(lambda: holder.remove(clone))
        else:
            far = odml.Section(name="far" + suffix, type="ft", parent=doc)
            odml.Section(name="farther", type="ft", parent=far).append(clone)
            undo.append(lambda: doc.remove(far))
    elif inv == "dupid_prop":
        # only two Properties share an id, in cousin Sections
        if pick.properties:
            pclone = pick.properties[0].clone(keep_id=True)
            pclone.name = "clone_of_" + str(pclone.name) + suffix
            far = odml.Section(name="far" + suffix, type="ft", parent=doc)
            odml.Section(name="farther", type="ft", parent=far).append(pclone)
            undo.append(lambda: doc.remove(far))
        else:
            skipped.append(inv)
    elif inv == "dupprop":
        try:
            extra = odml.Property(name=pick.properties[0].name, values=[3])
            list.append(pick._props, extra)
            extra._parent = pick
            undo.append(lambda: _remove_identical(pick._props, extra))
        except Exception:                 # below-API injection not possible on this tree: skip the case
            skipped.append(inv)
    elif inv == "dupsec":
        try:
            extra = odml.Section(name=pick.name, type=pick.type)
            holder = pick.parent
            list.append(holder._sections, extra)
            extra._parent = holder
            undo.append(lambda: _remove_identical(holder._sections, extra))
        except Exception:
            skipped.append(inv)


def inject(doc, secs, case, undo=None):
    """Applies the 'invalid', 'warn', 'fault' and 'payload' parts of the case -> list of skipped injections.
    `undo` collects closures that take the injections back (streams that keep using the document)."""
    import odml
    skipped = []
    if undo is None:
        undo = []
    apply_invalid(doc, secs, case.get("invalid"), case.get("pick", 0), undo, skipped)
    # (round 5) further ways of being invalid at the same time, each with a Section of its own choice
    for kind, where in case.get("more_invalid") or []:
        try:
            apply_invalid(doc, secs, kind, where, undo, skipped, suffix="_%d" % where)
        except Exception:                 # the library refuses the edit on top of the first one
            skipped.append(kind)
    if case.get("warn"):
        untyped = odml.Section(name="untyped", parent=doc)          # default type "n.s." -> warning
        undo.append(lambda: doc.remove(untyped))
    for i, wrn in enumerate(case.get("warns") or []):
        try:
            apply_warn(doc, secs, wrn, i, undo)
        except Exception:                 # the library refuses the edit: the case goes on without it
            skipped.append("warn:" + wrn["kind"])
    fault = case.get("fault")
    try:
        if fault in ("obj_author", "gen_author", "nul_author"):
            old_author = doc.author
            undo.append(lambda: setattr(doc, "_author", old_author))
            doc.author = {"obj_author": Obj(), "gen_author": (x for x in []), "nul_author": u"a\x00b"}[fault]
        elif fault in ("ctrl_value", "surrogate_value"):
            prop = secs[0].properties[0]
            old_values = prop.values
            undo.append(lambda: setattr(prop, "values", old_values))
            prop.values = [u"a\x01b" if fault == "ctrl_value" else u"a\ud800b"]
        elif fault == "validation_crash":
            prop = secs[0].properties[0]
            old_name = prop._name
            undo.append(lambda: setattr(prop, "_name", old_name))
            prop._name = None
    except Exception:
        skipped.append(fault)
    payload = case.get("payload")
    if payload:
        try:
            apply_payload(doc, secs, payload, undo)
        except Exception:                 # the library refuses this object in this attribute: plain case
            skipped.append("payload")
    return skipped


def signature(doc):
    """Names of all sections and properties, in document order."""
    out = []
    for sec in doc.itersections(recursive=True):
        out.append("S:" + str(sec.name))
        for prop in sec.properties:
            out.append("P:" + str(prop.name))
    return out


# ----------------------------------------------------------------------------- file system
def snapshot(root):
    files = {}
    for cur, dirs, names in os.walk(root):
        for dname in dirs:
            if os.path.islink(os.path.join(cur, dname)):
                files[os.path.relpath(os.path.join(cur, dname), root) + "@"] = "-> " + os.readlink(
                    os.path.join(cur, dname))
                continue
            files[os.path.relpath(os.path.join(cur, dname), root) + "/"] = None
        for name in names:
            path = os.path.join(cur, name)
            if os.path.islink(path):
                # a link is an entry of its own (where it points); what it points to is listed separately
                files[os.path.relpath(path, root) + "@"] = "-> " + os.readlink(path)
                continue
            with io.open(path, "rb") as fh:
                raw = fh.read()
            text = raw.decode("utf-8", "replace")
            files[os.path.relpath(path, root)] = text
    return files


def content_class(text):
    if text is None:
        return None
    return text if text in KNOWN_CONTENT else "NEW"


@contextlib.contextmanager
def warning_filter(mode):
    with warnings.catch_warnings(record=True) as rec:
        warnings.simplefilter("always")
        if mode == "error":
            warnings.filterwarnings("error", category=UserWarning, module=r"odml(\.|$)")
        elif mode == "error_all":
            warnings.simplefilter("error")
        elif mode == "ignore":
            warnings.simplefilter("ignore")
        yield rec


def result_of(fn):
    try:
        fn()
        return {"ok": "NEW"}
    except Exception as exc:
        return {"raise": fw.exc_name(exc)}


def locale_child(case):
    """Runs in a child interpreter: started with an ASCII locale (stream 'locale', see C07.impl_locale) or with
    the process environment of the case (stream 'registry': rules are registered with the validation)."""
    import locale
    chk = C07()
    steps = []
    registry = case["stream"] == "registry"
    if registry:
        try:
            from odml.validation import Validation
            usable = all(isinstance(v, set) for v in Validation._handlers.values())
        except Exception:
            usable = False
        if not usable:                    # rules could not be taken back again: the stream is left out
            return {"encoding": locale.getpreferredencoding(False), "steps": []}
    for st in case["steps"]:
        base = tempfile.mkdtemp(prefix="c07l_")
        try:
            with fw.quiet():
                steps.append(chk.run_step(base, st, fresh=True))
        finally:
            shutil.rmtree(base, ignore_errors=True)
        if chk.registry_stuck:            # a rule could not be taken back: what follows would not be the case
            break
    return {"encoding": locale.getpreferredencoding(False), "steps": steps}


class C07(fw.Check):
    prop = "C07"
    registry_stuck = False
    lean_targets = ["OdmlModel.Props.C07"]
    obligations = ["C07." + t for t in [
        "invalid_never_written", "invalid_never_written_save", "blocking_rules_rank_error",
        "failed_save_frame", "failed_save_creates_no_file", "failed_save_keeps_content",
        "save_touches_only_target", "unsupported_rdf_format_refused", "render_failure_propagates",
        "rdf_format_table", "rdf_ext_defined", "supported_backends", "warnings_only_written",
        "save_ok_iff", "history_last_success", "history_all_failed_keeps",
        "legacy_open_first_truncates", "legacy_frame_false", "witness_now_harmless",
        "legacy_harm_exact", "save_path_spec", "save_path_examples", "saveW_refines",
        "saveW_invalid_never_written", "saveW_harm_exact", "saveW_frame", "write_failure_truncates",
        "nonblocking_rules_rank_warning", "warning_rule_issues_written", "blocking_rule_issue_refused",
        "error_anywhere_never_written", "failed_save_keeps_completed_name", "resave_failure_keeps_first_save",
        "duplicate_id_has_issue", "distinct_ids_no_issue", "stored_text_of_spelling",
        "respelled_duplicate_id_never_written", "unreadable_id_refused"]]
    trusted_base = [
        "Lean 4.33.0 kernel; axioms propext, Classical.choice, Quot.sound only (audited per theorem)",
        "hand-written model lean/OdmlModel/Model/FS.lean, tied to the repository by this correspondence run",
        "harness/extract_tables.py (Validation._handlers/ranks, SUPPORTED_PARSERS, RDF_CONVERSION_FORMATS "
        "regenerated into Lean on every run)",
        "Driver/*.lean JSON glue; harness/framework.py, harness/c07.py",
        "POSIX open(path, 'w'): truncates at open, refuses without side effect when the directory is "
        "missing or the path is a directory",
    ]
    assumptions = [
        "file.write after a successful render and open does not fail: the files are opened as UTF-8, which "
        "every serialiser's output can be encoded in (checked in a child interpreter with an ASCII locale "
        "on every run); a full device is out of scope. The Lean layer WEnv/saveW states exactly what a "
        "failing write would do (saveW_harm_exact)",
        "Validation(doc) is deterministic (write_file runs it a second time inside report())",
        "the four entry points are odml.save, ODMLWriter.write_file, XMLWriter.write_file, RDFWriter.write_file",
    ]
    rule = ("core grid: every (entry point, backend, RDF sub-format) x {valid, each way of being invalid} x "
            "{no fault, each injected render fault} x {target absent, holding earlier bytes}; plus random "
            "draws over the full product with file names that take/omit an extension, missing directory / "
            "directory targets, warnings-only documents, warnings filter 'error', bad custom_template, and "
            "histories of 2-4 saves into one directory. Round 2: every payload kind (36 texts - lone surrogates, "
            "astral, NEL/LS, NUL/controls, BOM, 70k characters ... - and 26 kinds of attribute object) x every mode "
            "with the attribute (24 positions of Document/Section/Property) and the target state rotating; every "
            "attribute x {lone surrogate, object, astral} x {JSON, YAML, XML, turtle}; documents with links, unnamed "
            "objects, empty Properties, tuple/datetime/extreme float values and violated cardinalities x every mode; "
            "XML style options, odd backend names, rdf_format objects and unknown spellings, further file-name "
            "shapes, pathlib/bytes paths, symbolic links at the target, warnings filter 'ignore'; random draws over "
            "the product; one document + one writer object reused for 2-4 saves with edits in between; the locale "
            "stream with payload texts. Non-trivial = the save raised, or wrote a file over "
            "earlier bytes, or issued a warning; distinct = distinct canonical JSON of the case.")

    # -- generation ----------------------------------------------------------
    def one(self, rng, mode=None, **fixed):
        entry, backend, fmt = mode if mode else rng.choice(modes())
        if entry == "fileio":
            backend = rng.choice([backend, backend.lower(), backend.capitalize()])
        case = {
            "stream": "save", "entry": entry, "backend": backend, "rdf_format": fmt,
            "doc": {"secs": rng.choice([0, 1, 1, 2]), "props": rng.choice([1, 2]),
                    "nested": rng.random() < 0.4},
            "pick": rng.randrange(4),
            "invalid": rng.choice([None, None] + list(INVALID_KINDS)),
            "warn": rng.random() < 0.3,
            "fault": rng.choice([None, None, None] + list(FAULTS)),
            "target": rng.choice(["absent", "old", "old", "missing_dir", "is_dir"]),
            "name": rng.choice(NAMES),
            "filter": "error" if rng.random() < 0.15 else "default",
            "custom_template": None,
        }
        if entry == "xmlwriter" and rng.random() < 0.4:
            case["custom_template"] = rng.choice(["tuple", "str"])
        case.update(fixed)
        if case["doc"]["secs"] == 0:
            if case["invalid"] is not None:
                case["doc"]["secs"] = 1
            if case["fault"] in ("ctrl_value", "surrogate_value", "validation_crash"):
                case["doc"]["secs"] = 1
            if case.get("payload"):
                case["doc"]["secs"] = 1
        return case

    def payload(self, rng, kind=None, pos=None):
        kind = kind or rng.choice(sorted(TEXTS) + list(OBJECTS))
        return {"kind": kind, "pos": pos or rng.choice(sorted(POSITIONS))}

    def wide_one(self, rng, mode=None, **fixed):
        """A draw over the dimensions added in strengthening round 2 on top of `one` (the draws of `one`
        itself are left as they were so that earlier seeds keep producing the earlier cases)."""
        case = self.one(rng, mode)
        entry, backend = case["entry"], case["backend"].upper()
        roll = rng.random
        if roll() < 0.5:
            case["payload"] = self.payload(rng)
            case["fault"] = None
        if roll() < 0.25:
            case["doc"] = dict(case["doc"], rich=rng.choice(["plain", "card"]))
        if roll() < 0.25:
            case["name"] = rng.choice(NAMES2)
        if roll() < 0.2:
            case["target"] = rng.choice(LINK_TARGETS + ("old_long",))
        if roll() < 0.15:
            case["path_kind"] = rng.choice(["pathlib", "bytes"])
        if roll() < 0.3:
            case["filter"] = rng.choice(FILTERS)
        if backend == "XML" and roll() < 0.5:
            case["custom_template"] = None
            opts = {}
            for key in sorted(XML_OPTS):
                val = rng.choice(XML_OPTS[key])
                if val != "<absent>":
                    opts[key] = val
            case["opts"] = opts
        elif backend != "RDF" and roll() < 0.2:
            case["opts"] = rng.choice([{"rdf_format": "turtle"}, {"local_style": True}, {"indent": 2},
                                       {"custom_template": "str"}])
        if backend == "RDF":
            r = roll()
            if r < 0.15:
                case["rdf_format"] = rng.choice(RDF_FORMATS2)
            elif r < 0.3:
                case["rdf_format"] = None
                case["rdf_format_obj"] = rng.choice(RDF_FORMAT_OBJECTS)
        if entry in ("fileio", "odmlwriter") and roll() < 0.08:
            case["backend"] = rng.choice(ODD_BACKENDS)
        case.update(fixed)
        return self.settle(case)

    @staticmethod
    def settle(case):
        """A payload needs a Section to go to and must not repair the injected invalidity."""
        if case.get("payload"):
            if case["doc"]["secs"] == 0:
                case["doc"] = dict(case["doc"], secs=1)
            if case.get("invalid") and case["payload"]["pos"] in ("sec_name", "sec_type", "prop_name", "sub_name"):
                case["payload"] = dict(case["payload"], pos="sec_definition")
        return case

    def generate(self, tier, rng):
        cases = []
        relevant = {"XML": ["nul_author", "ctrl_value", "surrogate_value"],
                    "JSON": ["obj_author", "gen_author"], "YAML": ["gen_author"],
                    "RDF": ["surrogate_value"]}
        for mode in modes():
            for target in ("absent", "old"):
                base = {"doc": {"secs": 1, "props": 1, "nested": False}, "pick": 0, "warn": False,
                        "filter": "default", "name": "f.out", "target": target, "invalid": None,
                        "fault": None, "custom_template": None}
                cases.append(self.one(rng, mode, **base))
                for fault in relevant[mode[1]] + ["validation_crash"]:
                    cases.append(self.one(rng, mode, **dict(base, fault=fault)))
                if mode[0] in ("fileio", "odmlwriter"):
                    for inv in INVALID_KINDS:
                        cases.append(self.one(rng, mode, **dict(base, invalid=inv)))
                    cases.append(self.one(rng, mode, **dict(base, warn=True)))
                    cases.append(self.one(rng, mode, **dict(base, warn=True, filter="error")))
                    cases.append(self.one(rng, mode, **dict(base, invalid="notype", fault=relevant[mode[1]][0])))
        for ct in ("tuple", "str"):
            for target in ("absent", "old"):
                cases.append(self.one(rng, ("xmlwriter", "XML", None), target=target, fault=None,
                                      invalid=None, custom_template=ct, name="f.out", filter="default"))
        for name in ("bogus", "odml", ""):
            cases.append(self.one(rng, ("fileio", name, None), target="old", name="f.out"))
            cases.append(self.one(rng, ("odmlwriter", name, None), target="old", name="f.out"))
        n = 350 if tier == "quick" else 24000
        for _ in range(n):
            cases.append(self.one(rng))
        nh = 40 if tier == "quick" else 2500
        for _ in range(nh):
            steps = []
            for _k in range(rng.randrange(2, 5)):
                st = self.one(rng, name=rng.choice(["f.out", "g.out"]),
                              target=rng.choice(["keep", "keep", "missing_dir"]))
                if st["entry"] == "rdfwriter":
                    st["entry"], st["backend"] = "odmlwriter", "RDF"
                steps.append(st)
            cases.append({"stream": "history", "steps": steps})
        # the same saves in a child interpreter whose locale encoding is ASCII, with text that
        # ASCII / Latin-1 cannot hold: the content must not depend on the locale
        lmodes = [m for m in modes() if m[2] in (None, "turtle", "nt", "json-ld", "n3", "pretty-xml", "xml")]
        for target in ("old", "absent"):
            steps = [self.one(rng, mode, doc={"secs": 1, "props": 2, "nested": False, "wide": True},
                              pick=0, invalid=None, warn=False, fault=None, target=target, name="f.out",
                              filter="default", custom_template=None) for mode in lmodes]
            for st in steps:
                st["backend"] = st["backend"].upper()
            cases.append({"stream": "locale", "steps": steps})
        return cases + self.generate_round2(tier, rng, lmodes) + self.generate_round4(tier, rng, lmodes) \
            + self.generate_round5(tier, rng) + self.generate_round6(tier, rng)

    def generate_round2(self, tier, rng, lmodes):
        """Streams added after seeded round 2 (see design.d/C07.md)."""
        cases = []
        # the locale stream with the payload texts in changing attributes
        kinds = [k for k in sorted(TEXTS) if not k.startswith("long")]
        for target in ("old", "absent"):
            steps = []
            for i, mode in enumerate(lmodes):
                steps.append(self.one(rng, mode, doc={"secs": 1, "props": 2, "nested": False}, pick=0,
                                      invalid=None, warn=False, fault=None, target=target, name="f.out",
                                      filter="default", custom_template=None,
                                      payload=self.payload(rng, kind=kinds[(i * 7 + len(target)) % len(kinds)])))
            for st in steps:
                st["backend"] = st["backend"].upper()
            cases.append({"stream": "locale", "steps": steps})
        quick = tier == "quick"
        base = {"doc": {"secs": 1, "props": 1, "nested": False}, "pick": 0, "warn": False, "filter": "default",
                "name": "f.out", "invalid": None, "fault": None, "custom_template": None}
        all_modes = modes()
        # one mode per serialiser code path; the full list in the thorough tier
        core = [m for m in all_modes if (m[0] == "fileio" and m[2] in (None, "turtle", "nt", "json-ld", "n3",
                                                                       "pretty-xml", "trig"))
                or (m[0] == "odmlwriter" and m[1] in ("JSON", "YAML"))
                or m[0] == "xmlwriter" or (m[0] == "rdfwriter" and m[2] in ("turtle", "xml"))]
        positions = sorted(POSITIONS)
        # (a) payload grid: every text / object kind x every mode, the attribute and the target state rotate
        n = 0
        for kind in sorted(TEXTS) + list(OBJECTS):
            for mode in (core if quick else all_modes):
                if kind.startswith("long") and quick and mode[0] != "fileio":
                    continue
                for rep in range(1 if quick else 4):
                    n += 1
                    pos = positions[(n * 5 + rep) % len(positions)] if rng.random() < 0.7 else \
                        rng.choice(["author", "value", "value_raw", "sec_definition", "unit"])
                    cases.append(self.one(rng, mode, **dict(base, target=("old", "absent")[n % 2],
                                                            payload={"kind": kind, "pos": pos})))
        # (b) every attribute once with a text only UTF-8 with surrogate escapes could hold and once with an
        #     object, through the text serialisers
        for pos in positions:
            for mode in [("fileio", "JSON", None), ("odmlwriter", "YAML", None), ("fileio", "XML", None),
                         ("odmlwriter", "RDF", "turtle")]:
                for kind in ("lone_lo", "obj", "astral"):
                    cases.append(self.one(rng, mode, **dict(base, target=rng.choice(["old", "absent"]),
                                                            payload={"kind": kind, "pos": pos})))
        # (c) rich documents (links, unnamed objects, cardinalities, every value type) through every mode
        for mode in all_modes:
            for rich in ("plain", "card"):
                doc = {"secs": 1, "props": 2, "nested": True, "rich": rich}
                cases.append(self.one(rng, mode, **dict(base, doc=doc, target="old")))
                if mode[0] in ("fileio", "odmlwriter"):
                    cases.append(self.one(rng, mode, **dict(base, doc=doc, target="absent",
                                                            invalid=rng.choice(INVALID_KINDS), pick=rng.randrange(6))))
        # (d) writer options, odd backend / rdf_format arguments, path shapes, link targets, warning filters
        xml_modes = [m for m in all_modes if m[1] == "XML"]
        for mode in xml_modes:
            for ls in XML_OPTS["local_style"]:
                for ct in XML_OPTS["custom_template"]:
                    if quick and rng.random() < 0.5:
                        continue
                    opts = dict((k, v) for k, v in (("local_style", ls), ("custom_template", ct)) if v != "<absent>")
                    cases.append(self.one(rng, mode, **dict(base, target=rng.choice(["old", "absent"]), opts=opts)))
        for entry in ("fileio", "odmlwriter"):
            for backend in ODD_BACKENDS:
                for target in ("old", "absent"):
                    cases.append(self.one(rng, (entry, backend, None), **dict(base, target=target)))
            for fobj in RDF_FORMAT_OBJECTS:
                cases.append(self.one(rng, (entry, "RDF", None), **dict(base, target="old", rdf_format_obj=fobj)))
        for fobj in RDF_FORMAT_OBJECTS:
            for target in ("old", "absent"):
                cases.append(self.one(rng, ("rdfwriter", "RDF", None), **dict(base, target=target,
                                                                               rdf_format_obj=fobj)))
        for mode in all_modes:
            if mode[1] == "RDF" and mode[2] == "turtle":
                for fmt in RDF_FORMATS2:
                    for target in ("old", "absent"):
                        cases.append(self.one(rng, (mode[0], "RDF", fmt), **dict(base, target=target)))
        some = [m for m in all_modes if m[2] in (None, "turtle", "bogus")]
        for mode in some:
            for name in NAMES2:
                cases.append(self.one(rng, mode, **dict(base, name=name, target=rng.choice(TARGETS))))
            for kind in ("pathlib", "bytes"):
                for target in ("old", "absent"):
                    cases.append(self.one(rng, mode, **dict(base, path_kind=kind, target=target,
                                                            name=rng.choice(["f.out", "f"]))))
            for target in LINK_TARGETS:
                for variant in ({}, {"fault": "validation_crash"}, {"invalid": "notype"},
                                {"payload": {"kind": "gen", "pos": "author"}},
                                {"payload": {"kind": "lone_hi", "pos": "value"}}):
                    cases.append(self.one(rng, mode, **dict(base, target=target, name=rng.choice(["f.out", "f"]),
                                                            **variant)))
            if mode[0] in ("fileio", "odmlwriter"):
                for warn in (False, True):
                    cases.append(self.one(rng, mode, **dict(base, target="old", warn=warn, filter="ignore")))
                    cases.append(self.one(rng, mode, **dict(base, target="old", warn=warn, filter="error_all",
                                                            invalid=rng.choice([None, "notype", "dupid"]))))
        # earlier data longer than the new document: every mode, a good and a failing save
        for mode in all_modes:
            cases.append(self.one(rng, mode, **dict(base, target="old_long")))
            cases.append(self.one(rng, mode, **dict(base, target="old_long",
                                                    payload={"kind": rng.choice(["gen", "lone_hi", "obj", "nul"]),
                                                             "pos": rng.choice(["author", "value_raw"])})))
        # (e) random draws over the product of all of the above
        for _ in range(300 if quick else 14000):
            cases.append(self.wide_one(rng))
        # (f) one document object and one writer object used for several saves, with edits in between:
        #     a refused / failed save followed by a good one and the other way round
        reusable = [m for m in all_modes if m[2] in (None, "turtle", "nt", "xml", "json-ld", "bogus", "trix")]
        for i in range(60 if quick else 1500):
            mode = reusable[i % len(reusable)]
            doc = {"secs": rng.choice([1, 2]), "props": rng.choice([1, 2]), "nested": rng.random() < 0.4}
            if rng.random() < 0.2:
                doc["rich"] = rng.choice(["plain", "card"])
            steps = []
            for k in range(rng.randrange(2, 5)):
                st = self.one(rng, mode, doc=doc, name=rng.choice(["f.out", "g.out"]), custom_template=None,
                              target=rng.choice(["keep", "keep", "keep", "missing_dir"]))
                st["backend"] = mode[1]
                style = (i + k) % 3
                if style == 0:
                    st["invalid"], st["fault"] = None, None            # a good save
                elif style == 1 and rng.random() < 0.6:
                    st["fault"], st["payload"] = None, self.payload(rng)
                steps.append(self.settle(st))
            cases.append({"stream": "reuse", "steps": steps})
        return cases

    def warn(self, rng, kind=None, n=0):
        kinds = list(WARN_KINDS) + list(NEAR_KINDS)
        return {"kind": kind or rng.choice(kinds), "at": ("doc", "pick")[n % 2] if kind else rng.choice(["doc", "pick"]),
                "pick": rng.randrange(4)}

    def generate_round4(self, tier, rng, lmodes):
        """Streams added after seeded round 4 (see design.d/C07.md): every way of having warnings only."""
        cases = []
        quick = tier == "quick"
        base = {"doc": {"secs": 1, "props": 2, "nested": False}, "pick": 0, "warn": False, "filter": "default",
                "name": "f.out", "invalid": None, "fault": None, "custom_template": None}
        all_modes = modes()
        validating = [m for m in all_modes if m[0] in ("fileio", "odmlwriter")]
        core = [m for m in validating if m[2] in (None, "turtle")]                # 2 entries x 5 serialisers
        kinds = list(WARN_KINDS) + list(NEAR_KINDS)
        n = 0
        # (a) every branch of every rule that is not a way of being invalid (and its neighbours) x every
        #     serialiser through both validating entry points; position in the tree and target state rotate
        for kind in kinds:
            for k, mode in enumerate(core if quick else validating):
                if quick and kind == "hundred" and k % 5:
                    continue
                n += 1
                doc = {"secs": 1 + n % 2, "props": 1 + (n // 2) % 2, "nested": n % 3 == 0}
                cases.append(self.one(rng, mode, **dict(base, doc=doc, target=("old", "absent")[n % 2],
                                                        warns=[self.warn(rng, kind, n)])))
        # (b) the same issues next to each way of being invalid (refused), under each warnings filter, together
        #     with the plain untyped Section, through the entry points that do not validate
        for i, kind in enumerate(WARN_KINDS):
            mode = validating[(i * 7) % len(validating)]
            inv = INVALID_KINDS[i % len(INVALID_KINDS)]
            cases.append(self.one(rng, mode, **dict(base, target="old", invalid=inv, pick=i,
                                                    warns=[self.warn(rng, kind, i)])))
            for j, flt in enumerate(("error", "ignore", "error_all")):
                mode = core[(i + 3 * j) % len(core)]
                cases.append(self.one(rng, mode, **dict(base, target=("old", "absent")[(i + j) % 2], filter=flt,
                                                        warns=[self.warn(rng, kind, i + j)])))
            cases.append(self.one(rng, core[i % len(core)], **dict(base, target="absent", warn=True,
                                                                   warns=[self.warn(rng, kind, i)])))
            other = [("xmlwriter", "XML", None), ("rdfwriter", "RDF", "turtle"), ("rdfwriter", "RDF", "xml")][i % 3]
            cases.append(self.one(rng, other, **dict(base, target="old", warns=[self.warn(rng, kind, i)])))
        # (c) several issues at once, in rich documents, with payloads and odd targets
        for i in range(80 if quick else 3000):
            case = self.wide_one(rng, rng.choice(validating) if i % 4 else None)
            case["warns"] = [self.warn(rng) for _ in range(rng.randrange(1, 5))]
            if i % 3 == 0:
                case["invalid"], case["fault"] = None, None
            cases.append(self.settle(case))
        # (d) the document is read from a text in one of the formats (as a file written elsewhere is) and saved
        #     again: it brings its issues along; further edits after loading
        vias = ("XML", "JSON", "YAML")
        for i, kind in enumerate(kinds):
            for j, via in enumerate(vias if not quick else (vias[i % 3],)):
                mode = core[(i + j) % len(core)]
                doc = {"secs": 1, "props": 2, "nested": i % 2 == 0, "via": via, "pre_warns": [self.warn(rng, kind, i)]}
                cases.append(self.one(rng, mode, **dict(base, doc=doc, target=("old", "absent")[i % 2])))
        for i, mode in enumerate(validating):
            for via in vias:
                if quick and (i + len(via)) % 3:
                    continue
                doc = {"secs": 2, "props": 2, "nested": True, "via": via}
                if i % 2:
                    doc["rich"] = ("plain", "card")[i % 4 // 2]
                variant = [{}, {"invalid": INVALID_KINDS[i % len(INVALID_KINDS)], "pick": i},
                           {"warns": [self.warn(rng)]}, {"payload": self.payload(rng)}][i % 4]
                cases.append(self.settle(self.one(rng, mode, **dict(base, doc=doc, target="old", **variant))))
        # (e) Document.validate() has been called before the save
        for i in range(40 if quick else 600):
            case = self.one(rng, rng.choice(validating), **dict(base, target=rng.choice(["old", "absent"]),
                                                                pre="validate"))
            case["invalid"] = rng.choice([None, None] + list(INVALID_KINDS))
            case["warns"] = [self.warn(rng) for _ in range(rng.randrange(0, 3))]
            cases.append(case)
        # (f) one document and one writer for several saves; issues come and go between the saves
        reusable = [m for m in all_modes if m[2] in (None, "turtle", "nt", "xml")]
        for i in range(40 if quick else 1000):
            mode = reusable[(i * 5) % len(reusable)]
            doc = {"secs": rng.choice([1, 2]), "props": 2, "nested": rng.random() < 0.4}
            if i % 5 == 0:
                doc["via"] = vias[i % 3]
            steps = []
            for k in range(rng.randrange(2, 5)):
                st = self.one(rng, mode, doc=doc, name=rng.choice(["f.out", "g.out"]), custom_template=None,
                              target=rng.choice(["keep", "keep", "keep", "missing_dir"]), fault=None)
                st["backend"] = mode[1]
                style = (i + k) % 3
                if style == 0:
                    st["invalid"] = None
                    st["warns"] = [self.warn(rng, rng.choice(WARN_KINDS), k)]
                elif style == 1:
                    st["invalid"], st["warn"] = None, False
                    if rng.random() < 0.5:
                        st["pre"] = "validate"
                else:
                    st["warns"] = [self.warn(rng) for _ in range(rng.randrange(0, 3))]
                steps.append(self.settle(st))
            cases.append({"stream": "reuse", "steps": steps})
        # (g) histories of saves of fresh documents with issues
        for _ in range(20 if quick else 600):
            steps = []
            for _k in range(rng.randrange(2, 5)):
                st = self.one(rng, rng.choice(validating), name=rng.choice(["f.out", "g.out"]),
                              target=rng.choice(["keep", "keep", "missing_dir"]))
                st["warns"] = [self.warn(rng) for _ in range(rng.randrange(0, 3))]
                steps.append(st)
            cases.append({"stream": "history", "steps": steps})
        # (h) the ASCII locale: issues whose report carries names that ASCII cannot hold
        for target in ("old", "absent"):
            steps = []
            for i, mode in enumerate(lmodes):
                kind = ("dep_wide", "unnamed_prop", "dep_value_mismatch", "str_int", "card_val_min")[i % 5]
                st = self.one(rng, mode, doc={"secs": 1, "props": 2, "nested": False, "wide": True}, pick=0,
                              invalid=None, warn=False, fault=None, target=target, name="f.out",
                              filter="default", custom_template=None, warns=[self.warn(rng, kind, i)])
                st["backend"] = st["backend"].upper()
                steps.append(st)
            cases.append({"stream": "locale", "steps": steps})
        # (i) the registry of rules (module-level state; a child interpreter per case, changing hash seeds): the
        #     rules the library ships "on demand" with a terminology that is missing / lacks the Property / has
        #     it, user rules that warn / refuse / raise / find nothing, alone and in pairs
        reg_modes = [m for m in core if not (m[0] == "fileio" and m[2] == "turtle")]
        repos = (None, "missing", "term_other", "term_has")
        for c in range(3 if quick else 24):
            steps = []
            for i, kind in enumerate(REGISTER_KINDS):
                for j in range(2 if quick else 4):
                    mode = reg_modes[(i + 2 * j + c) % len(reg_modes)]
                    reg = [kind]
                    if (i + j + c) % 4 == 3:
                        reg.append(rng.choice(REGISTER_KINDS))
                    st = self.one(rng, mode, **dict(base, target=("old", "absent")[(i + j + c) % 2],
                                                    register=sorted(set(reg)),
                                                    repository=repos[(i + j + c) % 4] if kind in (
                                                        "repo_present", "terminology") else rng.choice(repos)))
                    st["backend"] = st["backend"].upper()
                    if (i + j) % 5 == 4:
                        st["warns"] = [self.warn(rng)]
                    if (i + c) % 6 == 5:
                        st["invalid"] = rng.choice(INVALID_KINDS)
                    if (i + j + c) % 7 == 6:
                        st["filter"] = rng.choice(["error", "ignore"])
                    steps.append(st)
            # a save with no rule registered after all of them: nothing is left behind
            steps.append(self.one(rng, reg_modes[c % len(reg_modes)], **dict(base, target="old", register=[])))
            steps[-1]["backend"] = steps[-1]["backend"].upper()
            cases.append({"stream": "registry", "hashseed": (0, 1, 4242, "random")[c % 4], "steps": steps})
        return cases

    def bulk(self, rng, count=None, shape=None, join=None):
        return {"n": count if count is not None else rng.choice(BULK_COUNTS),
                "shape": shape or rng.choice(BULK_SHAPES),
                "join": (rng.random() < 0.3) if join is None else join}

    def failing(self, rng, mode, k):
        """A reason for the save to fail that fits the mode: k rotates through a way of being invalid (where the
        entry point validates), a text / object the serialiser refuses, a validation that itself raises."""
        relevant = {"XML": ["ctrl_value", "nul_author", "surrogate_value"], "JSON": ["obj_author", "gen_author"],
                    "YAML": ["gen_author"], "RDF": ["surrogate_value"]}[mode[1].upper()]
        ways = []
        if mode[0] in ("fileio", "odmlwriter"):
            ways += [{"invalid": INVALID_KINDS[k % len(INVALID_KINDS)], "pick": k}]
        ways += [{"fault": relevant[k % len(relevant)]}, {"fault": "validation_crash"}]
        return ways[k % len(ways)]

    def generate_round5(self, tier, rng):
        """Streams added after seeded round 5 (see design.d/C07.md): how many issues a document has and where the
        error sits among them; where earlier data sits relative to the path handed in; relative paths; several
        ways of being invalid at once; depth; a writer reused for other documents; objects that are no Document."""
        cases = []
        quick = tier == "quick"
        base = {"doc": {"secs": 1, "props": 2, "nested": False}, "pick": 0, "warn": False, "filter": "default",
                "name": "f.out", "invalid": None, "fault": None, "custom_template": None}
        all_modes = modes()
        validating = [m for m in all_modes if m[0] in ("fileio", "odmlwriter")]
        core = [m for m in validating if m[2] in (None, "turtle")]                # 2 entries x 5 serialisers
        counts = BULK_COUNTS if quick else BULK_COUNTS + BULK_COUNTS_THOROUGH
        n = 0
        # (a) N issues of rank warning in front of / behind / around the one error, every shape of bulk x every
        #     count, the way of being invalid, the serialiser and the target state rotating; and the same
        #     documents without the error (written, warning reported)
        for count in counts:
            for shape in BULK_SHAPES:
                if count > 300 and shape not in ("secs", "props", "mixed"):
                    continue
                n += 1
                mode = (core if quick else validating)[(n * 3) % len(core if quick else validating)]
                inv = INVALID_KINDS[n % len(INVALID_KINDS)]
                doc = {"secs": 1 + n % 2, "props": 1 + (n // 2) % 2, "nested": n % 3 == 0,
                       "lead": self.bulk(rng, count, shape, join=n % 4 == 0)}
                cases.append(self.one(rng, mode, **dict(base, doc=doc, invalid=inv, pick=n,
                                                        target=("old", "absent")[n % 2])))
                if n % 2:
                    where = {"lead": None, "trail": self.bulk(rng, count, shape, join=n % 3 == 0)}
                    if n % 4 == 1:
                        where["lead"] = self.bulk(rng, shape=shape, join=False)
                    mode2 = core[(n * 7 + 1) % len(core)]
                    cases.append(self.one(rng, mode2, **dict(base, doc=dict(doc, **where),
                                                             invalid=INVALID_KINDS[(n + 3) % len(INVALID_KINDS)],
                                                             pick=n, target=("old", "absent")[(n // 2) % 2])))
                if n % 3 == 0:
                    mode3 = core[(n * 5 + 2) % len(core)]
                    cases.append(self.one(rng, mode3, **dict(base, doc=dict(doc, lead=dict(doc["lead"], join=False)),
                                                             target=("old", "absent")[(n // 3) % 2])))
        # the largest documents of the quick tier: once per shape that puts one issue on one object
        if quick:
            for i, shape in enumerate(("secs", "props")):
                doc = {"secs": 1, "props": 1, "nested": False, "lead": self.bulk(rng, 1000, shape, join=False)}
                cases.append(self.one(rng, core[(3 + i * 5) % len(core)],
                                      **dict(base, doc=doc, invalid=("notype", "dupprop")[i], target="old")))
        # every way of being invalid x every validating mode behind a bulk that a round number would cut off
        for i, mode in enumerate(validating):
            if quick and mode[2] not in (None, "turtle", "nt", "json-ld", "bogus"):
                continue
            for j, inv in enumerate(INVALID_KINDS):
                if quick and (i + j) % 3:
                    continue
                doc = {"secs": 2, "props": 1, "nested": (i + j) % 2 == 0,
                       "lead": self.bulk(rng, (21, 51, 101, 33)[(i + j) % 4], BULK_SHAPES[(i * 3 + j) % len(BULK_SHAPES)],
                                         join=False)}
                cases.append(self.one(rng, mode, **dict(base, doc=doc, invalid=inv, pick=i + j,
                                                        target=("old", "absent")[(i + j) % 2])))
        # (b) depth: the Sections of the injections below a chain of faultless Sections
        for i, depth in enumerate(DEPTHS):
            for j, inv in enumerate(INVALID_KINDS + (None,)):
                mode = core[(i * 3 + j) % len(core)]
                doc = {"secs": 1 + (i + j) % 2, "props": 1, "nested": j % 2 == 0, "depth": depth}
                if (i + j) % 3 == 0:
                    doc["lead"] = self.bulk(rng, join=False)
                cases.append(self.one(rng, mode, **dict(base, doc=doc, invalid=inv, pick=j,
                                                        target=("old", "absent")[(i + j) % 2])))
        # (c) two and three ways of being invalid at once
        for i, first in enumerate(INVALID_KINDS):
            for j, second in enumerate(INVALID_KINDS):
                if j <= i:
                    continue
                mode = core[(i * 7 + j) % len(core)]
                more = [[second, j]]
                if (i + j) % 4 == 0:
                    more.append([INVALID_KINDS[(i + j + 2) % len(INVALID_KINDS)], i + 1])
                    more = [m for m in more if m[0] not in (first,)]
                doc = {"secs": 2, "props": 2, "nested": True}
                cases.append(self.one(rng, mode, **dict(base, doc=doc, invalid=first, pick=i, more_invalid=more,
                                                        target=("old", "absent")[(i + j) % 2])))
        # (d) where earlier data sits relative to the path handed in x every mode x {good save, a failing one for
        #     each kind of reason} x names that are / are not completed by the entry point
        names = ("f", "f", "f.out", "x.y:f", "d.1/f", ".hidden", "g", "f.")
        n = 0
        for mode in all_modes:
            if quick and mode[0] == "odmlwriter" and mode[2] not in (None, "turtle", "bogus"):
                continue
            for target in DERIVED_TARGETS:
                for variant in range(3):
                    n += 1
                    extra = {} if variant == 0 else self.failing(rng, mode, n)
                    case = self.one(rng, mode, **dict(base, target=target, name=names[n % len(names)], **extra))
                    if case["entry"] == "fileio" and n % 3 == 0:
                        case["name"] = "f"
                    cases.append(case)
        # (e) relative paths (the working directory is the private directory of the case)
        some = [m for m in all_modes if m[2] in (None, "turtle", "bogus")]
        for i, mode in enumerate(some):
            for j, kind in enumerate(REL_PATHS):
                for k, target in enumerate(("absent", "old", "old_derived", "missing_dir")):
                    if quick and (i + j + k) % 2:
                        continue
                    extra = {} if (i + j + k) % 4 < 2 else self.failing(rng, mode, i + j + k)
                    cases.append(self.one(rng, mode, **dict(base, target=target, path_kind=kind,
                                                            name=("f", "f.out", "d.1/f", "g")[(i + j + k) % 4],
                                                            **extra)))
        # (f) histories: a name the entry point completes is saved under again and again (one spelling of the
        #     backend per history, so that the saves meet at one derived path), also under the completed name
        #     itself; a good save first, then good and failing ones
        hist_modes = [m for m in all_modes if m[0] in ("fileio", "rdfwriter") and m[2] in (None, "turtle", "xml", "nt")]
        for i in range(60 if quick else 1500):
            mode = hist_modes[i % len(hist_modes)]
            spelling = (mode[1].lower(), mode[1], mode[1].capitalize())[(i // len(hist_modes)) % 3] \
                if mode[0] == "fileio" else mode[1]
            stem = ("f", "g", "x.y:f")[i % 3]
            reuse = i % 2 == 1 and mode[0] == "fileio"
            doc = {"secs": rng.choice([1, 2]), "props": rng.choice([1, 2]), "nested": rng.random() < 0.4}
            steps = []
            for k in range(rng.randrange(2, 5)):
                m = mode
                name = stem
                if mode[0] == "fileio" and k and rng.random() < 0.3:
                    # the completed name, given in full to the writer the entry point uses
                    m, name = ("odmlwriter", mode[1], mode[2]), "%s.%s" % (stem, spelling)
                extra = {} if k == 0 or rng.random() < 0.35 else self.failing(rng, m, rng.randrange(50))
                st = self.one(rng, m, **dict(base, doc=doc, name=name, **extra))
                st["target"] = "keep" if k == 0 or rng.random() < 0.85 else "missing_dir"
                st["backend"] = spelling if m[0] == "fileio" else m[1]
                if reuse and k and rng.random() < 0.3:
                    st["newdoc"] = True
                steps.append(self.settle(st))
            cases.append({"stream": "reuse" if reuse else "history", "steps": steps})
        # (g) one writer object, another document for each save (a valid one, an invalid one, a valid one ...)
        reusable = [m for m in all_modes if m[0] == "odmlwriter" and m[2] in (None, "turtle", "bogus")] + \
            [("xmlwriter", "XML", None), ("rdfwriter", "RDF", "turtle")]
        for i in range(30 if quick else 600):
            mode = reusable[i % len(reusable)]
            steps = []
            for k in range(rng.randrange(2, 5)):
                doc = {"secs": rng.choice([1, 2]), "props": rng.choice([1, 2]), "nested": rng.random() < 0.4}
                if rng.random() < 0.3:
                    doc["lead"] = self.bulk(rng)
                extra = {} if (i + k) % 2 == 0 else self.failing(rng, mode, i + k)
                st = self.one(rng, mode, **dict(base, doc=doc, name=rng.choice(["f.out", "g.out", "f"]), **extra))
                st["target"] = rng.choice(["keep", "keep", "keep", "missing_dir"])
                st["backend"] = mode[1]
                st["newdoc"] = True
                steps.append(self.settle(st))
            cases.append({"stream": "reuse", "steps": steps})
        # (h) what is saved is not a Document (oracle-only): a Section of the document, a Section without one, a
        #     Property, None, a text, a dictionary, a list
        some = [m for m in all_modes if m[2] in (None, "turtle")]
        for i, kind in enumerate(OBJ_KINDS):
            for j, mode in enumerate(some):
                if quick and (i + j) % 2:
                    continue
                cases.append(self.one(rng, mode, **dict(base, obj_kind=kind, name=("f.out", "f")[(i + j) % 2],
                                                        target=("old", "absent", "old_derived")[(i + j) % 3])))
        # (j) the earlier data is the document itself: saved while it was fine, read back, edited, saved again
        n = 0
        for mode in all_modes:
            if quick and mode[2] not in (None, "turtle", "nt", "bogus"):
                continue
            for variant in range(3):
                n += 1
                extra = {} if variant == 0 else self.failing(rng, mode, n)
                doc = {"secs": 1 + n % 2, "props": 2, "nested": n % 3 == 0}
                if n % 5 == 0:
                    doc["lead"] = self.bulk(rng, join=False)
                case = self.one(rng, mode, **dict(base, doc=doc, target="old_self", name=("f.out", "f", "g")[n % 3],
                                                  **extra))
                if variant == 0 and n % 2:
                    case["warns"] = [self.warn(rng)]
                cases.append(case)
        # (k) targets that cannot be written: a name the file system refuses, a link to a device that is full
        n = 0
        for mode in all_modes:
            if quick and mode[2] not in (None, "turtle", "bogus"):
                continue
            for target in UNWRITABLE_TARGETS:
                for variant in range(2):
                    n += 1
                    extra = {} if variant == 0 else self.failing(rng, mode, n)
                    cases.append(self.one(rng, mode, **dict(base, target=target, name=("f.out", "f")[n % 2], **extra)))
        # (i) random draws over the product of everything, old and new
        for i in range(200 if quick else 9000):
            case = self.wide_one(rng, rng.choice(validating) if i % 3 else None)
            roll = rng.random
            doc = dict(case["doc"])
            if roll() < 0.5:
                doc["lead"] = self.bulk(rng)
            if roll() < 0.25:
                doc["trail"] = self.bulk(rng)
            if roll() < 0.2:
                doc["depth"] = rng.choice(DEPTHS)
            if doc.get("rich") and (doc.get("lead") or doc.get("trail")):
                # (the copies a linking Section holds are made anew by every look at the document: the two
                #  dimensions are drawn separately)
                doc.pop("rich")
            case["doc"] = doc
            if case.get("invalid") and roll() < 0.25:
                other = rng.choice([k for k in INVALID_KINDS if k != case["invalid"]])
                case["more_invalid"] = [[other, rng.randrange(6)]]
            if roll() < 0.3 and case["target"] in ("absent", "old"):
                case["target"] = rng.choice(DERIVED_TARGETS + UNWRITABLE_TARGETS + ("old_self",))
            if roll() < 0.2 and not case.get("path_kind"):
                case["path_kind"] = rng.choice(REL_PATHS)
            if i % 4 == 0:
                case["fault"] = None
                if not case.get("invalid"):
                    case["invalid"] = rng.choice(INVALID_KINDS)
            cases.append(self.settle(case))
        return cases

    def generate_round6(self, tier, rng):
        """Streams added after seeded round 6 (see design.d/C07.md): the history through which two objects of a
        document come to carry one id - which public door the id came in through, how it was written, whose id
        it is - and the neighbouring histories that leave a faultless document."""
        cases = []
        quick = tier == "quick"
        base = {"doc": {"secs": 2, "props": 2, "nested": True}, "pick": 0, "warn": False, "filter": "default",
                "name": "f.out", "invalid": None, "fault": None, "custom_template": None}
        all_modes = modes()
        validating = [m for m in all_modes if m[0] in ("fileio", "odmlwriter")]
        core = [m for m in validating if m[2] in (None, "turtle")]                # 2 entries x 5 serialisers
        spells = ID_SPELL_SAME + ID_SPELL_OTHER
        vias = ("XML", "JSON", "YAML")
        n = 0

        def docspec(k):
            return {"secs": 2 + k % 2, "props": 1 + (k // 2) % 2, "nested": k % 3 != 1}

        # (a) every spelling x {new_id, constructor argument, text that is read} x every serialiser; who receives
        #     whose id, the entry point and the target state rotate (every combination in the thorough tier)
        for i, spell in enumerate(spells):
            for j, how in enumerate(("new_id", "ctor", "text")):
                if how == "text" and spell in ID_SPELL_OBJECTS:
                    continue
                for k in range(5):
                    for e in range(1 if quick else 2):
                        n += 1
                        mode = core[(k + 5 * ((i + j + k + e) % 2)) % len(core)]
                        pair = ID_PAIRS[(n + i) % len(ID_PAIRS)]
                        doc = docspec(n)
                        extra = {"invalid": id_way(how, spell, pair)}
                        if how == "text":
                            doc = dict(doc, via=vias[(i + k) % 3],
                                       text_id={"spell": spell, "pair": pair.replace("a", "s"), "pick": n})
                            extra = {}
                        cases.append(self.one(rng, mode, **dict(base, doc=doc, pick=n,
                                                                target=("old", "absent")[n % 2], **extra)))
        # (b) every pair of objects x the spellings that name the same UUID x both doors
        for i, pair in enumerate(ID_PAIRS):
            for j, spell in enumerate(ID_SPELL_SAME):
                if quick and (i + j) % 2:
                    continue
                for k, how in enumerate(("new_id", "ctor")):
                    n += 1
                    mode = core[(i + 3 * j + 5 * k) % len(core)]
                    cases.append(self.one(rng, mode, **dict(base, doc=docspec(i + j), pick=i + j + k,
                                                            invalid=id_way(how, spell, pair),
                                                            target=("old", "absent")[(i + j + k) % 2])))
        # (c) every validating mode (all RDF sub-formats) x spellings
        for i, mode in enumerate(validating):
            for j, spell in enumerate(spells if not quick else
                                      [ID_SPELL_SAME[(i + t) % len(ID_SPELL_SAME)] for t in range(2)]):
                n += 1
                cases.append(self.one(rng, mode, **dict(base, doc=docspec(n), pick=n,
                                                        invalid=id_way(("new_id", "ctor")[(i + j) % 2], spell,
                                                                       ID_PAIRS[n % len(ID_PAIRS)]),
                                                        target=("old", "absent")[n % 2])))
        # (d) the other histories: a Section of a keep_id clone of the document, a keep_id clone that got a new
        #     id at the top only / for every object, an edit that was taken back
        for i, how in enumerate(ID_HOWS_OTHER):
            for j, mode in enumerate(core if quick else validating):
                n += 1
                doc = docspec(i + j)
                if (i + j) % 4 == 3:
                    doc["rich"] = ("plain", "card")[j % 2]
                cases.append(self.one(rng, mode, **dict(base, doc=doc, pick=i + j,
                                                        invalid=id_way(how, ID_SPELL_SAME[(i + j) % len(ID_SPELL_SAME)],
                                                                       ID_PAIRS[(i + j) % len(ID_PAIRS)]),
                                                        target=("old", "absent")[(i + j) % 2])))
        # (e) together with the other dimensions: behind many warnings, deep in the tree, next to another way of
        #     being invalid, with issues of rank warning, under the warnings filters, derived / own / linked
        #     targets, relative paths, documents that were read from a text before the edit, rich documents
        same_ways = [id_way(how, spell, pair) for how in ("new_id", "ctor") for spell in ID_SPELL_SAME
                     for pair in ID_PAIRS]
        for i in range(120 if quick else 4000):
            mode = core[i % len(core)] if i % 3 else rng.choice(validating)
            way = rng.choice(same_ways) if i % 5 else id_way(rng.choice(("new_id", "ctor")),
                                                             rng.choice(ID_SPELL_OTHER), rng.choice(ID_PAIRS))
            doc = docspec(i)
            extra = {}
            style = i % 8
            if style == 0:
                doc["lead"] = self.bulk(rng, join=False)
            elif style == 1:
                doc["depth"] = rng.choice(DEPTHS)
            elif style == 2:
                extra["more_invalid"] = [[rng.choice(INVALID_KINDS + (rng.choice(same_ways),)), rng.randrange(6)]]
            elif style == 3:
                extra["warns"] = [self.warn(rng) for _ in range(rng.randrange(1, 3))]
                extra["filter"] = rng.choice(FILTERS)
            elif style == 4:
                extra["target"] = rng.choice(DERIVED_TARGETS + ("old_self", "old_long", "link_old", "link_dangling"))
                extra["name"] = rng.choice(["f", "f.out", "d.1/f"])
            elif style == 5:
                extra["path_kind"] = rng.choice(REL_PATHS + ("pathlib",))
            elif style == 6:
                doc["via"] = rng.choice(vias)
                extra["pre"] = rng.choice([None, "validate"])
            else:
                doc["rich"] = rng.choice(["plain", "card"])
            if "invalid" in extra:
                extra.pop("invalid")
            case = self.one(rng, mode, **dict(base, doc=doc, pick=rng.randrange(8), invalid=way,
                                              target=extra.pop("target", ("old", "absent")[i % 2]), **extra))
            if style == 2 and i % 16 == 2:
                # the id edit is the second thing that happened to the document
                case["invalid"], case["more_invalid"] = case["more_invalid"][0][0], [[way, case["pick"] + 1]]
            cases.append(case)
        # (e2) how a Section comes to have no type: setter / constructor argument x what the type is then
        for i, val in enumerate(TYPE_VALUES):
            for j, how in enumerate(("set", "ctor")):
                for k, mode in enumerate(core if quick else validating):
                    if quick and (i + j + k) % 2:
                        continue
                    n += 1
                    extra = {}
                    if n % 5 == 0:
                        extra["warns"] = [self.warn(rng)]
                    if n % 7 == 0:
                        extra["more_invalid"] = [[rng.choice(same_ways), n]]
                    cases.append(self.one(rng, mode, **dict(base, doc=docspec(n), pick=n,
                                                            invalid="ty:%s:%s" % (how, val),
                                                            target=("old", "absent")[n % 2], **extra)))
        # (f) the entry points that do not validate (the frame and the one-path clauses alone apply)
        for i, mode in enumerate([("xmlwriter", "XML", None), ("rdfwriter", "RDF", "turtle"),
                                  ("rdfwriter", "RDF", "xml")]):
            for j in range(3):
                cases.append(self.one(rng, mode, **dict(base, doc=docspec(i + j), pick=i + j,
                                                        invalid=same_ways[(i * 37 + j * 11) % len(same_ways)],
                                                        target=("old", "absent")[(i + j) % 2])))
        # (g) one document object and one writer object for several saves: a good save, the id edit (refused),
        #     the edit taken back (written), another spelling ...; and histories of fresh documents
        reusable = [m for m in all_modes if m[0] in ("fileio", "odmlwriter") and m[2] in (None, "turtle", "nt")]
        for i in range(50 if quick else 1200):
            mode = reusable[(i * 3) % len(reusable)]
            doc = docspec(i)
            if i % 7 == 0:
                doc["via"] = vias[i % 3]
            steps = []
            for k in range(rng.randrange(2, 5)):
                st = self.one(rng, mode, **dict(base, doc=doc, name=rng.choice(["f.out", "g.out", "f"]),
                                                pick=rng.randrange(8)))
                st["target"] = rng.choice(["keep", "keep", "keep", "missing_dir"])
                st["backend"] = mode[1]
                if (i + k) % 2:
                    st["invalid"] = rng.choice(same_ways) if rng.random() < 0.8 else id_way(
                        rng.choice(("new_id", "ctor") + ID_HOWS_OTHER), rng.choice(spells), rng.choice(ID_PAIRS))
                elif rng.random() < 0.3:
                    st["warns"] = [self.warn(rng)]
                elif rng.random() < 0.3:
                    st["invalid"] = "ty:%s:%s" % (rng.choice(("set", "ctor")), rng.choice(TYPE_VALUES))
                steps.append(self.settle(st))
            cases.append({"stream": "reuse" if i % 3 else "history", "steps": steps})
        return cases

    # -- implementation ------------------------------------------------------
    def impl_locale(self, case):
        code = ("import sys, json; sys.path.insert(0, %r); import c07; "
                "print('RESULT' + json.dumps(c07.locale_child(json.loads(sys.stdin.read()))))"
                % os.path.dirname(os.path.abspath(__file__)))
        env = dict(os.environ, ODML_REPO=fw.REPO, PYTHONDONTWRITEBYTECODE="1")
        private = None
        if case["stream"] == "locale":
            env.update(PYTHONUTF8="0", PYTHONCOERCECLOCALE="0", LC_ALL="C", LANG="C")
        else:
            # stream 'registry': a temporary directory of its own (the terminology loader keeps a cache of what
            # it fetched below the temporary directory) and the hash seed of the case
            private = tempfile.mkdtemp(prefix="c07r_")
            env.update(TMPDIR=private, PYTHONHASHSEED=str(case.get("hashseed", 0)))
        try:
            proc = subprocess.run([sys.executable, "-c", code], input=json.dumps(case).encode("ascii"),
                                  env=env, stdout=subprocess.PIPE, stderr=subprocess.PIPE, timeout=600)
        finally:
            if private:
                shutil.rmtree(private, ignore_errors=True)
        for line in proc.stdout.decode("ascii", "replace").splitlines():
            if line.startswith("RESULT"):
                return json.loads(line[len("RESULT"):])
        raise RuntimeError("child interpreter gave no result: %s" % proc.stderr.decode("ascii", "replace")[-600:])

    def impl(self, case):
        if case["stream"] in ("locale", "registry"):
            return self.impl_locale(case)
        base = tempfile.mkdtemp(prefix="c07_")
        try:
            if case["stream"] == "history":
                io.open(os.path.join(base, "other.txt"), "w").write(u"SENTINEL")
                return {"steps": [self.run_step(base, st) for st in case["steps"]]}
            if case["stream"] == "reuse":
                with io.open(os.path.join(base, "other.txt"), "w") as fh:
                    fh.write(u"SENTINEL")
                ctx = {}
                return {"steps": [self.run_step(base, st, ctx=ctx) for st in case["steps"]]}
            return self.run_step(base, case, fresh=True)
        finally:
            shutil.rmtree(base, ignore_errors=True)

    @staticmethod
    def decode_backend(backend):
        return {"<none>": None, "<int>": 5, "<bytes>": b"JSON"}.get(backend, backend)

    @staticmethod
    def save_kwargs(case):
        """The keyword arguments of the save (rdf_format, XML style options, unknown ones)."""
        kwargs = {}
        if case.get("rdf_format") is not None:
            kwargs["rdf_format"] = case["rdf_format"]
        if case.get("rdf_format_obj"):
            kwargs["rdf_format"] = {"none": None, "int": 5, "bytes": b"turtle", "list": ["turtle"],
                                    "tuple": ("turtle",), "true": True}[case["rdf_format_obj"]]
        for key, val in sorted((case.get("opts") or {}).items()):
            if key == "custom_template":
                val = C07.template(val)
            kwargs[key] = val
        return kwargs

    @staticmethod
    def template(tag):
        return {"tuple": ("a", "b"), "tuple1": ("a",), "str": "<xsl:template match=\"odML\"/>", "bytes": b"<x/>",
                "pct": "100%s %d %(x)s %", "empty": "", "wide": u"<!-- \u00e9\u20ac\U0001F600 -->",
                None: None}[tag]

    def run_step(self, base, case, fresh=False, ctx=None):
        import odml
        from odml.tools.odmlparser import ODMLWriter
        from odml.validation import Validation
        root = os.path.realpath(base)
        name = case["name"]
        blocked = []
        if fresh:
            with io.open(os.path.join(root, "other.txt"), "w") as fh:
                fh.write(u"SENTINEL")
        if "/" in name and not os.path.isdir(os.path.join(root, os.path.dirname(name))):
            os.makedirs(os.path.join(root, os.path.dirname(name)))
        path = os.path.join(root, name)
        target = case["target"]
        links = []
        if target in ("old", "old_long"):
            with io.open(path, "w") as fh:
                fh.write(u"OLD" if target == "old" else LONG_OLD)
        elif target in DERIVED_TARGETS:
            # (round 5) earlier data at the paths a save derives from the given one and at names next to it; the
            # given path itself is absent / holds other data / is an empty file
            for cand in self.candidates(path, case)[1:] + self.neighbours(path, case):
                if not os.path.lexists(cand):
                    with io.open(cand, "w") as fh:
                        fh.write(u"OLD")
            if target != "old_derived":
                with io.open(path, "w") as fh:
                    fh.write(u"SENTINEL" if target == "old_both" else u"")
        elif target == "long_name":
            path = os.path.join(root, os.path.dirname(name), LONG_NAME + os.path.basename(name))
        elif target == "link_devfull" and os.path.exists("/dev/full"):
            for cand in self.candidates(path, case):
                if not os.path.lexists(cand):
                    os.symlink("/dev/full", cand)
        elif target == "missing_dir":
            path = os.path.join(root, "nodir", name)
        elif target == "is_dir":
            # every path the entry point could open is a directory
            for cand in self.candidates(path, case):
                if not os.path.exists(cand):
                    os.makedirs(cand)
        elif target in LINK_TARGETS:
            # every path the entry point could open is a symbolic link to a file of its own
            real = os.path.join(root, "real")
            if not os.path.isdir(real):
                os.makedirs(real)
            for i, cand in enumerate(self.candidates(path, case)):
                dest = os.path.join(real, "data%d" % i)
                if target == "link_old":
                    with io.open(dest, "w") as fh:
                        fh.write(u"OLD")
                if not os.path.lexists(cand):
                    os.symlink(dest, cand)
                links.append(os.path.relpath(dest, root))
        if ctx is not None and case.get("newdoc"):
            # (round 5) the writer object lives on, the document is a new one (a writer bound to its document
            # goes with it)
            ctx.pop("doc", None)
            if case["entry"] in ("xmlwriter", "rdfwriter"):
                ctx.pop("writer", None)
        if ctx is not None and "doc" in ctx:
            doc, secs = ctx["doc"], ctx["secs"]
        else:
            doc, secs = build_doc(case["doc"])
            if ctx is not None:
                ctx["doc"], ctx["secs"] = doc, secs
        if target == "old_self" and ctx is None:
            doc, secs = self.save_first(case, root, path, doc, secs)
            try:
                doc.version = "2.0"       # work went on: the text of the document is no longer what the file holds
            except Exception:
                pass
        undo = []
        del ID_EDITS[:]
        skipped = inject(doc, secs, case, undo)
        id_edits = list(ID_EDITS)
        if case.get("repository") and secs:
            # (round 4) the first Section names a terminology: a file that is not there / one whose Section of
            # this type lacks the Property / one that has it (looked at by the rules shipped "on demand" only)
            try:
                self.set_repository(root, secs[0], case["repository"], undo)
            except Exception:
                skipped.append("repository")
        if case.get("pre") == "validate":
            # the public Document.validate() has been called (and has left whatever state it leaves)
            try:
                doc.validate()
            except Exception:
                pass
        # (round 4) rules registered with the validation - once the document stands: the constructors validate
        made = []
        try:
            try:
                register_rules(case.get("register"), made)
            except Exception:             # a rule the library does not have (any more): step left out
                return None
            obs = self.save_and_observe(case, root, path, doc, skipped, links, fresh, ctx)
            if isinstance(obs, dict):
                obs["id_edits"] = id_edits
            return obs
        finally:
            try:
                unregister_rules(made)
            except Exception:
                self.registry_stuck = True
            if ctx is not None:
                for fn in reversed(undo):
                    try:
                        fn()
                    except Exception:
                        pass

    @staticmethod
    def set_repository(root, sec, kind, undo):
        import odml
        from odml.tools.xmlparser import XMLWriter
        target = os.path.join(root, "term_%s.xml" % kind)
        if kind != "missing":
            term = odml.Document()
            tsec = odml.Section(name="term", type=sec.type, parent=term)
            names = [prop.name for prop in sec.properties] if kind == "term_has" else ["something_else"]
            for name in names:
                odml.Property(name=name, values=[1], parent=tsec)
            XMLWriter(term).write_file(target)
        old = sec.repository
        undo.append(lambda: setattr(sec, "_repository", old))
        sec.repository = "file://" + target

    def save_and_observe(self, case, root, path, doc, skipped, links, fresh, ctx):
        import odml
        from odml.tools.odmlparser import ODMLWriter
        from odml.validation import Validation
        entry, fmt = case["entry"], case["rdf_format"]
        backend = self.decode_backend(case["backend"])
        kwargs = self.save_kwargs(case)
        if "rdf_format" in kwargs:
            fmt = kwargs["rdf_format"]
        path_arg = path
        if case.get("path_kind") == "pathlib":
            import pathlib
            path_arg = pathlib.Path(path)
        elif case.get("path_kind") == "bytes":
            path_arg = os.fsencode(path)
        elif case.get("path_kind") in REL_PATHS:
            # (round 5) a text relative to the working directory (the private directory of the case)
            path_arg = os.path.relpath(path, root)
            if case["path_kind"] == "relative_dot":
                path_arg = "./" + path_arg
            elif case["path_kind"] == "relative_up":
                path_arg = "../%s/%s" % (os.path.basename(root), path_arg)
        obs = {"skipped": skipped, "path": path, "links": links}
        # (round 5) what is handed to the save in place of the Document
        obj = doc
        if case.get("obj_kind"):
            first = doc.sections[0] if len(doc.sections) else None
            obj = {"section": lambda: first, "detached_section": lambda: odml.Section(name="loose", type="lt"),
                   "property": lambda: first.properties[0] if first is not None else None,
                   "none": lambda: None, "str": lambda: "not a document", "dict": lambda: {"Document": {}},
                   "list_of_docs": lambda: [doc]}[case["obj_kind"]]()
            doc = obj
        # the writer objects of a 'reuse' case live as long as the case
        reused = ctx if ctx is not None else {}
        with warning_filter(case["filter"]):
            # whether rendering works and what the validation says - through the public API
            try:
                from odml.tools.parser_utils import RDF_CONVERSION_FORMATS as known_formats
            except ImportError:
                known_formats = None
            if entry == "xmlwriter":
                from odml.tools.xmlparser import XMLWriter
                obs["render"] = result_of(lambda: str(XMLWriter(doc)))
                if ctx is not None and "writer" not in reused:
                    reused["writer"] = XMLWriter(doc)
            elif entry == "rdfwriter":
                from odml.tools.rdf_converter import RDFWriter
                if ctx is not None:
                    # a reused RDFWriter keeps its graph: what it can render is asked of the object itself
                    if "writer" not in reused:
                        reused["writer"] = RDFWriter(doc)
                    obs["render"] = result_of(lambda: reused["writer"].get_rdf_str(fmt))
                else:
                    obs["render"] = result_of(lambda: RDFWriter(doc).get_rdf_str(fmt))
            else:
                try:
                    writer = ODMLWriter(backend)
                    obs["render"] = result_of(lambda: writer.to_string(doc, **kwargs))
                except Exception:         # NotImplementedError; AttributeError / TypeError for a non-text name
                    obs["render"] = {"ok": "NEW"}
                if ctx is not None and entry == "odmlwriter" and "writer" not in reused:
                    try:
                        reused["writer"] = ODMLWriter(backend)
                    except Exception:
                        pass
            # what the validation says (asked after the rendering: RDFWriter runs Document.finalize, which
            # re-resolves links - write_file validates the document in the state this leaves)
            try:
                issues = Validation(doc).errors
                obs["validate"] = {"ok": [e.rank for e in issues]}
                # the registered rule each issue comes from (for the model's table of rule ranks)
                obs["issue_rules"] = [self.rule_of(e) for e in issues]
                # (round 5) how many issues stand in front of the first error (evidence only)
                obs["first_error_at"] = ([e.rank for e in issues] + ["error"]).index("error") \
                    if any(e.rank == "error" for e in issues) else None
            except Exception as exc:
                obs["validate"] = {"raise": fw.exc_name(exc)}
            # (round 4) the ways of being invalid the property names, looked for without odml.validation
            obs["indep_invalid"] = independently_invalid(doc)
            # (round 6) for the model's id rule: the id texts in the order the rule meets the objects (the
            # Document's first; of a Section its Properties', its own, then its sub-Sections') and the ids of the
            # objects the issues of the rule are about
            try:
                obs["ids"] = ids_in_rule_order(doc)
                obs["id_issues"] = [e.obj.id for e in issues if self.rule_of(e) == "document_unique_ids"]
            except Exception:
                obs["ids"] = None
            # RDFWriter gets the format as it is; ODMLWriter takes one that is not a text as "not given" (-> "xml")
            eff = fmt if (entry == "rdfwriter" or isinstance(fmt, str)) else "xml"
            try:
                obs["format_known"] = None if known_formats is None else (eff in known_formats)
            except TypeError:             # an unhashable rdf_format
                obs["format_known"] = False
        before = snapshot(root)
        cwd = None
        if case.get("path_kind") in REL_PATHS:
            cwd = os.getcwd()
            os.chdir(root)
        with warning_filter(case["filter"]) as rec:
            try:
                self.do_save(case, doc, path_arg, reused)
                obs["outcome"] = "ok"
            except Exception as exc:
                obs["outcome"] = fw.exc_name(exc)
                obs["is_parser_exception"] = self.is_parser_exception(exc)
            finally:
                if cwd is not None:
                    os.chdir(cwd)
            obs["warned"] = len([w for w in rec if issubclass(w.category, UserWarning)])
        after = snapshot(root)
        obs["before"], obs["after"] = before, after
        changed = sorted(k for k in set(before) | set(after) if before.get(k, "<absent>") != after.get(k, "<absent>"))
        obs["changed"] = changed
        obs["loads"] = None
        payload = case.get("payload")
        plain_payload = payload is None or "payload" in skipped or (
            payload["kind"] in SAFE_TEXTS and payload["pos"] not in NO_LOADBACK_POS)
        # (values put below the API are not what a reader hands back: no statement about loading them)
        raw_values = any(w["kind"] in RAW_WARNS for w in (case.get("warns") or []) + (case["doc"].get("pre_warns") or []))
        if obs["outcome"] == "ok" and len(changed) == 1 and case.get("fault") is None and not raw_values \
                and case.get("invalid") is None and case.get("custom_template") is None and plain_payload \
                and not (case.get("opts") or {}).get("custom_template") and isinstance(backend, str) \
                and (isinstance(fmt, str) or fmt is None) and ctx is None and not case.get("register") \
                and not case.get("obj_kind") and not case.get("more_invalid"):
            obs["loads"] = self.loads_back(os.path.join(root, changed[0]), entry, backend, fmt, doc,
                                           shape_only=bool(case["doc"].get("rich")))
        obs["root"] = root
        if not fresh:
            # histories: what is there now is the "earlier bytes" of the next step
            for rel, text in after.items():
                if text is not None and text not in KNOWN_CONTENT and not rel.endswith("@"):
                    with io.open(os.path.join(root, rel), "w") as fh:
                        fh.write(u"OLD")
        return obs

    def do_save(self, case, doc, path_arg, reused):
        """The save of the case through its entry point."""
        import odml
        from odml.tools.odmlparser import ODMLWriter
        from odml.tools.xmlparser import XMLWriter
        from odml.tools.rdf_converter import RDFWriter
        entry, fmt = case["entry"], case["rdf_format"]
        backend = self.decode_backend(case["backend"])
        kwargs = self.save_kwargs(case)
        if "rdf_format" in kwargs:
            fmt = kwargs["rdf_format"]
        if entry == "fileio":
            odml.save(doc, path_arg, backend, **kwargs)
        elif entry == "odmlwriter":
            (reused.get("writer") or ODMLWriter(backend)).write_file(doc, path_arg, **kwargs)
        elif entry == "xmlwriter":
            xkw = dict((k, v) for k, v in kwargs.items() if k in ("local_style", "custom_template"))
            if case.get("custom_template") is not None:
                xkw["custom_template"] = self.template(case["custom_template"])
            (reused.get("writer") or XMLWriter(doc)).write_file(path_arg, **xkw)
        else:
            (reused.get("writer") or RDFWriter(doc)).write_file(path_arg, fmt)

    def save_first(self, case, root, path, doc, secs):
        """(round 5, target 'old_self') The document as built is saved through the entry point of the case and,
        where the format has a reader, read back from the file: -> the document to go on with."""
        import odml
        pre = snapshot(root)
        try:
            with warning_filter("ignore"):
                self.do_save(dict(case, custom_template=None, opts=None), doc, path, {})
        except Exception:                 # nothing could be saved in the first place: the target stays absent
            return doc, secs
        post = snapshot(root)
        written = [k for k in post if post[k] != pre.get(k, "<absent>") and not k.endswith(("/", "@"))]
        backend = str(case["backend"]).upper()
        if len(written) == 1 and backend in ("XML", "JSON", "YAML"):
            try:
                loaded = odml.load(os.path.join(root, written[0]), backend, show_warnings=False)
                kept = [sec for sec in loaded.itersections(recursive=True)
                        if not any(getattr(a, "link", None) for a in [sec] + _ancestors(sec))]
                if kept:
                    return loaded, kept
            except Exception:
                pass
        return doc, secs

    @staticmethod
    def rule_of(issue):
        vid = getattr(issue, "validation_id", None)
        name = getattr(vid, "name", None)
        if not isinstance(name, str):
            return "?"
        return ISSUE_RULE.get(name, name)

    @staticmethod
    def candidates(path, case):
        out = [path]
        if case["entry"] == "fileio":
            out.append(path + "." + case["backend"])
        if case["entry"] == "rdfwriter" and not case.get("rdf_format_obj"):
            try:
                from odml.tools.parser_utils import RDF_CONVERSION_FORMATS
                ext = RDF_CONVERSION_FORMATS.get(case["rdf_format"])
                if ext:
                    out.append(path + ext)
            except ImportError:
                pass
        return out

    @staticmethod
    def neighbours(path, case):
        """Names next to the target's that a save has no business with."""
        backend = case["backend"] if isinstance(case["backend"], str) and case["backend"][:1] != "<" else "xml"
        out = [path + "." + backend.lower(), path + ".tmp", path + "~"]
        return [p for p in out if p != path]

    @staticmethod
    def is_parser_exception(exc):
        try:
            from odml.tools.parser_utils import ParserException
            return isinstance(exc, ParserException)
        except ImportError:
            return fw.exc_name(exc) == "ParserException"

    @staticmethod
    def loads_back(path, entry, backend, fmt, doc, shape_only=False):
        try:
            if backend.upper() == "RDF":
                pf = RDF_PARSE_FORMAT.get(fmt)
                if pf is None:
                    return None
                import rdflib
                graph = rdflib.Graph()
                graph.parse(path, format=pf)
                return len(graph) > 0
            import odml
            back = odml.load(path, backend.upper(), show_warnings=False)
            if shape_only:
                # loading resolves links (the linked Section gains the target's content): same Sections only
                return [x for x in signature(back) if x.startswith("S:")] == \
                    [x for x in signature(doc) if x.startswith("S:")]
            return signature(back) == signature(doc)
        except Exception as exc:
            return "load failed: %s" % fw.exc_name(exc)

    # -- model ---------------------------------------------------------------
    def step_request(self, case, obs):
        root = obs["root"]
        # (a file of the harness that is neither target nor sentinel - the terminology of the 'registry'
        #  stream - is handed over by its content class, which is what the comparison looks at)
        files = [[os.path.join(root, rel), content_class(text)] for rel, text in sorted(obs["before"].items())
                 if text is not None]
        blocked = []
        dirs = [os.path.join(root, rel[:-1]) for rel in obs["before"] if rel.endswith("/")]
        blocked += dirs
        if case["target"] in ("missing_dir", "long_name"):
            blocked += self.candidates(obs["path"], case)
        render = obs["render"]
        serialize = render
        if obs.get("format_known") is False:
            serialize = {"ok": "NEW"}        # the model's own format check has to refuse
        # the style-sheet template is formatted with '%': a 2-tuple is refused. ODMLWriter hands only a text on
        ct = case.get("custom_template")
        if ct is None and case["entry"] == "xmlwriter":
            ct = (case.get("opts") or {}).get("custom_template")
        decorate = {"raise": "TypeError"} if ct == "tuple" else {"ok": True}
        query = sorted(set(os.path.join(root, rel) for rel in list(obs["before"]) + list(obs["after"])
                           if not rel.endswith("/")))
        fmt = case["rdf_format"]
        return {"p": "C07", "op": "save", "entry": case["entry"], "backend": case["backend"],
                "rdf_format": fmt, "path": obs["path"], "fs": files, "validate": obs["validate"],
                "render": render, "serialize": serialize, "decorate": decorate, "blocked": blocked,
                "warn_raises": case["filter"] == "error", "query": query,
                "issue_rules": obs.get("issue_rules") or []}

    @staticmethod
    def step_pairs(case, obs):
        """(step, observation) of a stream of steps; a step the child interpreter left out has none."""
        return [(st, o) for st, o in zip(case["steps"], obs.get("steps") or []) if o is not None]

    def model_requests(self, case, obs):
        if case["stream"] in STEP_STREAMS:
            return [self.step_request(st, o) for st, o in self.step_pairs(case, obs) if self.modelled(st, o)]
        if not self.modelled(case, obs):
            return []
        reqs = [self.step_request(case, obs)]
        if self.id_modelled(case, obs):
            # (round 6) the model's id rule on the ids of this document, and what new_id stores for each text
            reqs.append({"p": "C07", "op": "idrule", "ids": obs["ids"],
                         "edits": [e["arg"] for e in self.ascii_edits(obs)]})
        return reqs

    @staticmethod
    def ascii_edits(obs):
        return [e for e in obs.get("id_edits") or [] if all(ord(ch) < 128 for ch in e["arg"])]

    @staticmethod
    def id_modelled(case, obs):
        if not (is_id_way(case.get("invalid")) or case["doc"].get("text_id")
                or any(is_id_way(m[0]) for m in case.get("more_invalid") or [])):
            return False
        return obs.get("ids") is not None and "ok" in obs.get("validate", {})

    def compare_ids(self, case, obs, ans):
        out = []
        if sorted(ans["issues"]) != sorted(obs.get("id_issues") or []) or len(ans["issues"]) != len(obs["id_issues"]):
            out.append("id rule: model reports %s, implementation %s" % (ans["issues"], obs.get("id_issues")))
        for edit, stored in zip(self.ascii_edits(obs), ans["stored"]):
            want = stored if stored is not None else edit["before"]
            if is_id_way(case.get("invalid")) and case["invalid"].split(":")[1] == "new_id" \
                    and not case.get("more_invalid") and edit["after"] != want:
                out.append("new_id(%r): model stores %r, implementation %r" % (edit["arg"], want, edit["after"]))
        return out

    @staticmethod
    def modelled(case, obs):
        # outside the model's alphabet (the oracle alone decides these): a path that is not a text, symbolic
        # links, a backend name that is not a text, an rdf_format object handed to RDFWriter itself
        if case["target"] in LINK_TARGETS or case["target"] == "link_devfull":
            return False
        if case.get("path_kind") == "relative" and "." not in obs.get("root", ".") and ":" not in obs.get("root", ":"):
            # (round 5) a plain relative path: the rule of odml.save for completing a name looks at the whole
            # text for a '.', which gives the same answer for the absolute path when the directory has none
            pass
        elif case.get("path_kind", "str") != "str":
            return False
        if case.get("obj_kind"):                 # (round 5) not a Document: the frame clause of the oracle decides
            return False
        if case["filter"] == "error_all":       # any module's warning may raise anywhere
            return False
        if case["backend"] in ("<none>", "<int>", "<bytes>"):
            return False
        if case.get("rdf_format_obj") and case["entry"] == "rdfwriter":
            return False
        return not obs.get("skipped")

    def compare_step(self, case, obs, ans):
        out = []
        root = obs["root"]
        impl_ok = obs["outcome"] == "ok"
        if (ans["outcome"] == "ok") != impl_ok:
            out.append("model outcome %s (%s), implementation %s"
                       % (ans["outcome"], ans.get("exc"), obs["outcome"]))
        if ans["outcome"] == "raised" and not impl_ok:
            if (ans["exc"] == "ParserException") != bool(obs.get("is_parser_exception")):
                out.append("model raises %s, implementation %s" % (ans["exc"], obs["outcome"]))
        model_files = dict((p, c) for p, c in ans["files"])
        model_files[ans["target"]] = ans.get("target_content")
        for p in sorted(model_files):
            rel = os.path.relpath(p, root)
            want = model_files[p]
            got = content_class(obs["after"].get(rel))
            if want != got:
                out.append("file %s: model %r, implementation %r" % (rel, want, got))
        if ans["outcome"] == "ok" and impl_ok and ans["warned"] and not obs["warned"] \
                and case["filter"] != "ignore":
            out.append("model says a warning is issued, implementation issued none")
        # (round 4) the rank of each issue is the rank the model's table (regenerated from the source of the
        # rules) gives the rule it comes from; rules the table does not decide are left alone
        ranks = obs["validate"].get("ok")
        if ranks is not None and ans.get("rule_ranks") is not None and len(ans["rule_ranks"]) == len(ranks):
            for rule, want, got in zip(obs.get("issue_rules") or [], ans["rule_ranks"], ranks):
                if want in ("error", "warning") and want != got:
                    out.append("issue of rule %s: model rank %s, implementation %s" % (rule, want, got))
        return out

    def compare(self, case, obs, answers):
        if case["stream"] in STEP_STREAMS:
            out = []
            pairs = [(st, o) for st, o in self.step_pairs(case, obs) if self.modelled(st, o)]
            for i, ((st, o), ans) in enumerate(zip(pairs, answers)):
                out += ["step %d: %s" % (i, d) for d in self.compare_step(st, o, ans)]
            return out
        if not answers:
            return []
        out = self.compare_step(case, obs, answers[0])
        if len(answers) > 1:
            out += self.compare_ids(case, obs, answers[1])
        return out

    # -- oracle --------------------------------------------------------------
    def oracle_step(self, case, obs):
        out = []
        entry = case["entry"]
        validates = entry in ("fileio", "odmlwriter")
        supported = True
        if validates:
            try:
                from odml.tools.parser_utils import SUPPORTED_PARSERS
                supported = case["backend"].upper() in SUPPORTED_PARSERS and case["backend"][:1] != "<"
            except ImportError:
                pass
        if case.get("obj_kind"):
            # (round 5) what is saved is not a Document: the property's statements about documents (clauses 1, 4,
            # 5) are not applied - weaker reading -, "whenever a save raises ... no file is harmed" is
            validates = False
        ranks = obs["validate"].get("ok")
        # (round 4) a rule of rank error registered by the user makes every document invalid
        custom_error = any(k in REGISTER_ERRORS for k in case.get("register") or [])
        # (round 5) several ways of being invalid at once
        # (round 6) two objects of one id, seen by reading the ids (the same UUID in another spelling is the same id:
        # the library itself keeps ids as canonical UUID texts and its readers canonicalise, so a file written with
        # the two spellings loads as a document with a duplicate id). A history of id edits counts as a way of
        # being invalid exactly when it left such a pair behind.
        dup_seen = "two objects of one id" in (obs.get("indep_invalid") or [])
        injected = [k for k in [case.get("invalid")] + [m[0] for m in case.get("more_invalid") or []]
                    if (k in INVALID_KINDS or (is_id_way(k) and dup_seen)
                        or (is_type_way(k) and k.split(":")[2] in TYPE_MISSING
                            and "Section without type or name" in (obs.get("indep_invalid") or [])))
                    and k not in obs["skipped"]]
        invalid = ((bool(injected) or custom_error or dup_seen) and "raise" not in obs["validate"]) \
            or (ranks is not None and "error" in ranks)
        failed = obs["outcome"] != "ok"
        # 1. an invalid document is never written: ParserException for every format
        if validates and supported and invalid:
            if not failed:
                out.append("invalid document (%s%s, issues %s) was saved by %s/%s without an exception"
                           % (case.get("invalid"), ", two objects share an id" if dup_seen else "", ranks, entry,
                              case["backend"]))
            elif not obs.get("is_parser_exception") and case.get("path_kind", "str") in TEXT_PATHS \
                    and case["filter"] != "error_all":
                # (odml.save looks at a path that is not a text before it validates; with every warning an
                #  error anything may raise first: weaker reading, the document must just not be written)
                out.append("invalid document (%s): save raised %s, not ParserException"
                           % (case.get("invalid"), obs["outcome"]))
        # 2. whenever a save raises, no file is created and existing files keep their content
        if failed and obs["changed"]:
            det = ["%s: %r -> %r" % (k, content_class(obs["before"].get(k)) if k in obs["before"] else "<absent>",
                                     content_class(obs["after"].get(k)) if k in obs["after"] else "<absent>")
                   for k in obs["changed"]]
            out.append("save raised %s but the directory changed: %s" % (obs["outcome"], "; ".join(det)))
        # 3. a successful save touches exactly one path, derived from the given one
        if not failed:
            rel = os.path.relpath(obs["path"], obs["root"])
            changed_paths = sorted(set(k[:-1] if k.endswith("@") else k for k in obs["changed"]))
            if len(changed_paths) != 1:
                out.append("successful save changed %d paths: %s" % (len(obs["changed"]), obs["changed"]))
            elif len(obs["changed"]) != 1:
                # a symbolic link at the target path was replaced by a regular file: one path, and the
                # property does not say that links are followed (weaker reading)
                if not obs["after"].get(changed_paths[0]):
                    out.append("successful save left %s empty" % changed_paths[0])
            elif obs.get("links") and obs["changed"][0] in obs["links"]:
                # the target path is a symbolic link: the file it points to received the text
                if not obs["after"].get(obs["changed"][0]):
                    out.append("successful save left %s empty" % obs["changed"][0])
            elif not obs["changed"][0].startswith(rel):
                out.append("successful save wrote %s, asked for %s" % (obs["changed"][0], rel))
            elif not obs["after"].get(obs["changed"][0]):
                out.append("successful save left %s empty" % obs["changed"][0])
            if obs["loads"] not in (None, True):
                out.append("saved file does not load back as the document: %s" % (obs["loads"],))
        # 4. a document with warnings only (or none) whose text can be rendered is written,
        #    and the warnings are reported
        if validates and supported and ranks is not None and "error" not in ranks and not invalid \
                and "ok" in obs["render"] and case["target"] in OPENABLE + LINK_TARGETS \
                and case["filter"] in ("default", "ignore") and case.get("path_kind", "str") in TEXT_PATHS:
            # (a path that is not a text - pathlib.Path, bytes - may be refused: weaker reading)
            if failed:
                out.append("document without validation errors was not saved: %s" % obs["outcome"])
            elif ranks and not obs["warned"] and case["filter"] == "default":
                out.append("document saved with %d validation warnings but no warning was reported" % len(ranks))
        # 5. (round 4) which issues are errors is not left to the library alone: the property names the ways of
        #    being invalid (missing Section type - with the other attributes the format requires: Section name,
        #    Property name -, duplicate ids, duplicate sibling names). A document that shows none of them to a
        #    reader of its attributes, validated with the rules the library registers itself (and user rules
        #    that only warn), has "warnings only" and is written. Weaker reading where there is a choice: nothing
        #    is demanded when the independent look finds anything, could not be taken, the validation raised, the
        #    text cannot be rendered or the target cannot be opened.
        if validates and supported and obs.get("indep_invalid") == [] and not custom_error \
                and not injected \
                and ranks is not None and "error" in ranks \
                and "ok" in obs["render"] and case["target"] in OPENABLE + LINK_TARGETS \
                and case["filter"] in ("default", "ignore") and case.get("path_kind", "str") in TEXT_PATHS and failed:
            rules = sorted(set(r for r, k in zip(obs.get("issue_rules") or [], ranks) if k == "error"))
            out.append("document with none of the ways of being invalid the property names (no missing Section "
                       "type / required name, no duplicate id, no duplicate sibling name) was refused: %s; the "
                       "validation gives rank error to issues of %s" % (obs["outcome"], rules or "?"))
        return out

    def oracle(self, case, obs):
        if "harness_exception" in obs:
            return []
        if case["stream"] in STEP_STREAMS:
            out = []
            for i, (st, o) in enumerate(self.step_pairs(case, obs)):
                out += ["step %d (%s %s %s): %s" % (i, st["entry"], st["backend"], st["rdf_format"], f)
                        for f in self.oracle_step(st, o)]
            return out
        return self.oracle_step(case, obs)

    def tag(self, case, obs):
        if case["stream"] == "locale":
            return ("locale:%s" % obs.get("encoding"), True)
        if case["stream"] in ("history", "reuse", "registry"):
            steps = [o for o in obs.get("steps", []) if o is not None]
            return ("%s:%d" % (case["stream"], len(steps)), any(o.get("outcome") != "ok" for o in steps))
        oc = obs.get("outcome")
        if oc == "ok":
            cls = "ok+warned" if obs.get("warned") else "ok"
        elif obs.get("is_parser_exception"):
            cls = "refused-invalid"
        elif "raise" in obs.get("validate", {}):
            cls = "validation-raised"
        elif "raise" in obs.get("render", {}):
            cls = "render-raised"
        else:
            cls = "raised-other"
        nt = oc != "ok" or case["target"] in ("old", "old_long", "link_old", "old_both", "old_empty", "old_self") \
            or bool(obs.get("warned"))
        extra = ""
        doc_spec = case["doc"]
        if is_id_way(case.get("invalid")) or doc_spec.get("text_id") \
                or any(is_id_way(m[0]) for m in case.get("more_invalid") or []):
            # (round 6) a history of id edits: did it leave two objects of one id behind
            extra = ":id-history-" + ("duplicate" if "two objects of one id" in (obs.get("indep_invalid") or [])
                                      else "clean")
        elif doc_spec.get("lead") or doc_spec.get("trail") or doc_spec.get("depth") or case.get("more_invalid"):
            at = obs.get("first_error_at")
            extra = ":bulk" if at is None else ":bulk-error-behind-%s" % (
                "0" if at == 0 else "1-19" if at < 20 else "20-99" if at < 100 else "100+")
        elif case["target"] in DERIVED_TARGETS:
            extra = ":derived-path"
        elif case["target"] in UNWRITABLE_TARGETS + ("old_self",):
            extra = ":" + case["target"]
        elif case.get("path_kind") in REL_PATHS:
            extra = ":relative-path"
        elif case.get("obj_kind"):
            extra = ":no-document"
        elif case.get("warns") or case["doc"].get("pre_warns") or case["doc"].get("via") or case.get("pre"):
            kinds = [w["kind"] for w in (case.get("warns") or []) + (case["doc"].get("pre_warns") or [])]
            extra = ":warn-rules" if any(k in WARN_KINDS for k in kinds) else ":round4"
        elif case.get("payload"):
            extra = ":payload-text" if case["payload"]["kind"] in TEXTS else ":payload-object"
        elif case["target"] in LINK_TARGETS or case.get("path_kind") or case.get("opts") \
                or case.get("rdf_format_obj") or case["doc"].get("rich"):
            extra = ":round2"
        return ("%s:%s%s" % (case["entry"], cls, extra), nt)


if __name__ == "__main__":
    sys.exit(fw.main(C07(), sys.argv[1:]))
