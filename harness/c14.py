# -*- coding: utf-8 -*-
"""
C14 - Paths address exactly one object and traversals enumerate exactly the tree.

Tie between lean/OdmlModel/Model/Path.lean (+ Py/Posix.lean, Model/PathTree.lean) and /repo.
Objects are identified by positions (index paths from the Document) on both sides.

Streams
  small   every tree with <= N Sections over the names {a, ab, abc, b} (names that are prefixes
          of one another), every (start, target) pair, every start node, max_depth in
          {None, -1, 0 .. depth+1}
  big     random trees up to ~200 Sections, sampled pairs / starts
  paths   path strings with ., .. and unknown names at any position, absolute or relative
          - correspondence only
  weird   trees whose names are outside the property's quantifier (contain / or :, are . or ..)
          - correspondence of the traversals and find only (path results are not compared)
  posix   Py/Posix.lean against the real posixpath (commonprefix, dirname, normpath, relpath)
          and Sectionable._get_relative_path on arbitrary absolute strings
  ids     trees whose objects share ids (Section(oid=...), Property(oid=...)): ids are unique by
          convention only, the tree is defined by the child lists
  hist    the document reaches its state through a HISTORY: built (constructors or written and
          read back through the XML/JSON/YAML reader, string or file), then edited through the
          public API (rename, move, remove, insert, replace, reorder, sort, clone with and without
          keep_id, new_id, link / merge / clean / finalize, type and value edits, refused calls,
          objects moved to and from a second Document), with queries of every kind run BEFORE and
          BETWEEN the edits on the same objects. The queried tree is read from the child lists
          (Section.sections / Section.properties) after the history; the model gets that tree.
          Sub-stream twins: the Document holds EQUAL Sections (BaseObject.__eq__ is a deep comparison)
          at several places and the edits move objects between exactly those. Where child lists and
          parent references disagree afterwards, the property is judged on the objects (graphcheck).
  names   sibling names that differ by case / white space / Unicode normalisation / the spelling of a
          number only; more than ten Properties or siblings
  types   hierarchical types of every shape, also with letters outside ASCII
  case    (added after seeded round 4) types whose letters have more than one "other case": sharp s /
          SS / capital sharp s, final and non-final sigma, dotted and dotless i, long s, ligatures,
          Cherokee, Kelvin / Angstrom sign, title-case digraphs, Deseret (outside the BMP), NFC / NFD
          twins - stored in the tree AND asked for in every spelling (as stored, lower, upper, casefold,
          swapcase, title), alone and as components of hierarchical types; built, edited by a history
          (type edits between queries), read back from XML / JSON / YAML strings and files. The model
          takes str.lower as a parameter (theorems for every such function); the driver gets the real
          str.lower of the strings of the case as a table.
The requests of find / find_related are derived from the tree (cross product of the names, near misses
of them, the types and every component of them) in addition to fixed grids; the final queries rotate
through keyword / defaulted / positional calls.
"""
import base64
import functools
import io
import json
import os
import posixpath
import sys
import tempfile
import zlib

import framework as fw

NAMES = ["a", "ab", "abc", "b"]
BIG_NAMES = NAMES + ["abcd", "ba", "bb", "c", "...", ".a", "a.", "a b", u"é", "-", "a-b", "..b",
                     "A", "aB", "x1", "x2", "x3", "x4", "x5", "x6", "x7", "x8"]
WEIRD_NAMES = ["a", "ab", ".", "..", "a/b", "a:b", "/", ":", "b/", ":a", "a/..", "./a"]
TYPES = ["t", "T", "stim/white", "Stim", "stim", "stim/white/x", "a/b", "n.s.", ""]
PROP_NAMES = ["a", "ab", "p", "b"]


# ----------------------------------------------------------------------------- tree enumeration
@functools.lru_cache(None)
def forests(n):
    """All ordered forests with n Sections, sibling names pairwise distinct, names from NAMES."""
    if n == 0:
        return [()]
    out = []
    for k in range(1, n + 1):
        for sub in forests(k - 1):
            for rest in forests(n - k):
                if len(rest) >= len(NAMES):
                    continue
                used = set(t[0] for t in rest)
                for nm in NAMES:
                    if nm not in used:
                        out.append(((nm, sub),) + rest)
    return out


def decorate(forest, rng, uid, types=TYPES[:6], pnames=PROP_NAMES):
    """(name, subforest) tuples -> JSON sections with types and Properties."""
    out = []
    for name, sub in forest:
        props = []
        k = rng.choice([0, 0, 1, 1, 2, 3])
        for pn in rng.sample(pnames, min(k, len(pnames))):
            uid[0] += 1
            props.append({"n": pn, "v": [uid[0]] + [rng.randrange(0, 4) - 10 for _ in range(rng.randrange(0, 3))]})
        out.append({"n": name, "t": rng.choice(types), "p": props, "s": decorate(sub, rng, uid, types, pnames)})
    return out


def random_forest(rng, n, names, maxkids):
    """Random forest with n Sections: attach each new Section below a random existing node."""
    root = []
    nodes = [root]
    for _ in range(n):
        for _try in range(20):
            kids = rng.choice(nodes)
            if len(kids) < maxkids:
                break
        free = [x for x in names if x not in [k[0] for k in kids]]
        if not free:
            continue
        sub = []
        kids.append((rng.choice(free), sub))
        nodes.append(sub)

    def freeze(l):
        return tuple((nm, freeze(s)) for nm, s in l)
    return freeze(root)


def chain_forest(rng, depth, names):
    """A deep tree: one chain of `depth` Sections with a side branch here and there."""
    node = ()
    for _ in range(depth):
        nm = rng.choice(names)
        kids = ((nm, node),)
        if rng.random() < 0.2:
            kids += ((rng.choice([x for x in names if x != nm]), ()),)
        node = kids if rng.random() < 0.5 else kids[::-1]
    return node


def plain(name):
    return name != "" and "/" not in name and ":" not in name and name not in (".", "..")


def path_safe(secs):
    """The property's quantifier (re-checked against the Lean predicate `Doc.wf` on every case)."""
    names = [s["n"] for s in secs]
    if len(set(names)) != len(names) or not all(plain(n) for n in names):
        return False
    for s in secs:
        pn = [p["n"] for p in s["p"]]
        if len(set(pn)) != len(pn) or not all(plain(n) for n in pn):
            return False
        if not path_safe(s["s"]):
            return False
    return True


# names a careless comparison (lower(), strip(), normalize(), int()) would identify
CONFUSABLE = [["a", "A", " a", "a ", "a\t"], [u"\xe9", u"e\u0301", u"\xc9", "e"], [u"\xdf", "ss", "SS", u"\u1e9e"],
              [u"\u0130", u"i\u0307", "i", "I", u"\u0131"], ["1", "01", "1.0", "10", "2", "11", u"\u0661"],
              ["ab", "a b", "a  b", u"a\xa0b", "a_b", "a-b"], [u"x\u2028", u"x\x85", "x", "x\x0b"],
              ["a.b", "a..b", "a.", ".a", "..."], ["~", "*", "a*", "%s", "\\", "a\\b", "{0}", "$"]]
RICH_TYPES = ["stim", "stim/white", "stim/white/x", "white", "white/stim", "x/stim/white", "stim/stim", "a/a/a",
              "stim/", "/stim", "stim//white", "sti", "stimx", "stim/whitex", "Stim/White", "STIM", " stim", "stim ",
              "n.s.", "", "/", "t", "T", "stim/t"]
RICH_TYPES_U = [u"\xe9/a", u"\xc9/b", u"\u0130/x", u"\xf1", u"stim/\xe9", u"\xe9"]

# Types whose letters have more than one "other case" (added after seeded round 4). One group = spellings
# that SOME case-insensitive comparison identifies (str.lower, str.upper, str.casefold disagree on which).
CASE_GROUPS = [
    [u"Ma\xdf", u"ma\xdf", "MASS", "mass", "Mass", u"MA\u1e9e", u"MA\xdf"],                  # sharp s
    [u"Gr\xf6\xdfe", u"GR\xd6SSE", u"gr\xf6sse", u"gr\xf6\xdfe", u"GR\xd6\u1e9eE", "grosse"],
    [u"\u03bf\u03b4\u03cc\u03c2", u"\u039f\u0394\u038c\u03a3", u"\u03bf\u03b4\u03cc\u03c3",  # final / non-final sigma
     u"\u039f\u03b4\u03cc\u03c2", u"\u03bf\u03b4\u03bf\u03c2"],
    [u"\u0130stanbul", "istanbul", u"i\u0307stanbul", "ISTANBUL", u"\u0131stanbul", "Istanbul"],   # dotted / dotless i
    [u"\u017ftim", "stim", "STIM", "Stim", u"\u017fTIM"],                                    # long s
    [u"\ufb01le", "file", "FILE", "File", u"\ufb01LE"],                                      # ligature fi
    [u"\u13a0\u13a1", u"\uab70\uab71", u"\u13a0\uab71"],                                     # Cherokee
    [u"\u212a", "k", "K", u"\u212b", u"\xe5", u"\xc5", u"a\u030a"],                            # Kelvin, Angstrom
    [u"\u01c5em", u"\u01c4EM", u"\u01c6em", "dzem", u"d\u017eem", u"D\u017eem"],             # title-case digraph
    [u"\u0149", u"\u02bcn", u"\u02bcN", u"\u0390", u"\u03b9\u0308\u0301"],                  # one letter, several when folded
    [u"\U00010400\U00010401", u"\U00010428\U00010429", u"\U00010400\U00010429"],             # Deseret (outside the BMP)
    [u"\xe9", u"e\u0301", u"\xc9", u"E\u0301", "e", "E"],                                  # NFC / NFD
    [u"\xf1", u"\xd1", u"n\u0303", u"\u0436", u"\u0416", u"\u044f\u0416"],                  # plain pairs (all readings agree)
]
# hierarchical types over such components
CASE_TYPES_H = [u"Ma\xdf/L\xe4nge", u"MASS/L\xc4NGE", u"ma\xdf/l\xe4nge", u"mass/l\xe4nge", u"Ma\xdf/L\xe4nge/x",
                u"L\xe4nge/Ma\xdf", u"stim/Ma\xdf", u"\u039f\u0394\u038c\u03a3/\u0391", u"\u03bf\u03b4\u03cc\u03c2/\u03b1",
                u"\u03bf\u03b4\u03cc\u03c3/\u03b1", u"\u0130/x", u"i\u0307/x", "i/x", "I/X", u"\u017ftim/white", "stim/white",
                "STIM/WHITE", u"\ufb01le/\ufb01le", "file/FILE", u"\u212a/\u212a", "k/K",
                "a/b/c/d/e/f/g/h/i/j/k/l", u"Ma\xdf/", u"/Ma\xdf", u"Ma\xdf//x"]
# lone surrogates cannot travel to the Lean driver as JSON: cases holding them are oracle only
SURROGATE_TYPES = [u"\ud800", u"\ud800x", u"X\udc00", u"x\ud800/\xdf"]


def case_variants(s):
    """The same text in other cases. ASCII: swapcase (all case mappings agree there). Other letters:
    every spelling a caller may use for "the same type" - the mappings disagree (sharp s, final sigma,
    dotted I, ligatures ...), so all of them are asked for."""
    if is_ascii(s):
        return [s.swapcase()]
    out = []
    for v in (s.swapcase(), s.lower(), s.upper(), s.casefold(), s.title()):
        if v != s and v not in out:
            out.append(v)
    return out or [s]


def lower_table(strings):
    """[[s, s.lower()]] for the strings with letters outside ASCII, and for the results: the model's
    str.lower is a parameter, instantiated per case with the real one (this process' str.lower, not
    the repo's code). ASCII strings are lower-cased by the driver itself (Py.lower)."""
    table, seen = [], set()
    todo = [x for x in strings if isinstance(x, str)]
    while todo:
        x = todo.pop()
        if x in seen or is_ascii(x):
            continue
        seen.add(x)
        table.append([x, x.lower()])
        todo.append(x.lower())
    return sorted(table)


def has_surrogates(x):
    return any(0xD800 <= ord(ch) <= 0xDFFF for ch in x)


def tree_types(secs):
    out = []
    for sec in secs:
        out.append(sec["t"])
        out += tree_types(sec["s"])
    return out


# ----------------------------------------------------------------------------- histories
HIST_NAMES = NAMES + ["abcd", "c", "...", "a b", u"\xe9", u"\xdf", u"\u0130", u"a\u2028b", u"x\x85", "1", "10", "2",
                      "A", "ba", "-"]
OP_KINDS = ["rename", "prename", "move", "remove", "new", "newprop", "pmove", "premove", "reorder",
            "preorder", "sort", "clone", "setid", "link", "clean", "merge", "type", "values", "finalize",
            "adopt", "bounce"]
OP_WEIGHTS = [4, 1, 4, 1, 2, 1, 1, 1, 1, 1, 1, 4, 1, 2, 1, 1, 1, 1, 1, 2, 2]


def number_nodes(secs, counter):
    """Gives every Section of the JSON forest a handle "u" (1, 2, ... in preorder)."""
    for s in secs:
        counter[0] += 1
        s["u"] = counter[0]
        number_nodes(s["s"], counter)


def json_nodes(secs, prefix=""):
    """[(absolute path, node)] of a JSON forest in preorder."""
    out = []
    for s in secs:
        path = prefix + "/" + s["n"]
        out.append((path, s))
        out += json_nodes(s["s"], path)
    return out


def share_ids(rng, secs):
    """Lets some objects of the forest share an id (ids are unique by convention only)."""
    nodes = [n for _p, n in json_nodes(secs)]
    objs = nodes + [p for n in nodes for p in n["p"]]
    if len(objs) < 2:
        return
    mode = rng.choice(["pair", "pair", "sections", "all", "two groups"])
    if mode == "pair":
        for o in rng.sample(objs, 2):
            o["i"] = 1
    elif mode == "sections":
        for o in nodes:
            o["i"] = 1
    elif mode == "all":
        for o in objs:
            o["i"] = 1
    else:
        for o in objs:
            if rng.random() < 0.7:
                o["i"] = rng.choice([1, 2])


def hist_spec(rng, maxu, docs=False):
    if docs and rng.random() < 0.3:
        return {"u": rng.choice([0, 0, -1])}
    spec = {"u": rng.randrange(1, maxu + 1)}
    if rng.random() < 0.2:
        spec["d"] = [rng.randrange(0, 4) for _ in range(rng.randrange(1, 4))]
    return spec


def hist_op(rng, kind, counter, uid, types=None):
    """One operation of a history; the objects are named by handles, resolved when the history runs."""
    types = types or TYPES[:8]
    maxu = counter[0]
    x = hist_spec(rng, maxu)
    name = rng.choice(HIST_NAMES) if rng.random() < 0.8 else rng.choice(NAMES) + str(rng.randrange(0, 100))
    how = rng.choice(["parent", "append", "insert", "extend", "setitem", "append", "parent"])
    i = rng.choice([0, 0, 1, 2, -1, 5, 10])
    if kind == "rename":
        if rng.random() < 0.05:
            name = rng.choice(WEIRD_NAMES)     # the history may pass through names outside the quantifier
        return {"op": kind, "x": x, "name": name if rng.random() < 0.93 else None}
    if kind == "prename":
        return {"op": kind, "x": x, "k": rng.randrange(0, 3), "name": rng.choice(PROP_NAMES + HIST_NAMES)}
    if kind == "move":
        return {"op": kind, "x": x, "to": hist_spec(rng, maxu, True), "how": how, "i": i}
    if kind == "remove":
        return {"op": kind, "x": x, "how": rng.choice(["remove", "parent_none"])}
    if kind == "new":
        counter[0] += 1
        op = {"op": kind, "to": hist_spec(rng, maxu, True), "name": name if rng.random() < 0.85 else None,
              "type": rng.choice(types), "how": rng.choice(["ctor", "create", "append", "insert", "extend"]),
              "i": i, "u": counter[0]}
        if rng.random() < 0.3:
            op["idof"] = hist_spec(rng, maxu)
        return op
    if kind == "newprop":
        uid[0] += 1
        return {"op": kind, "to": hist_spec(rng, maxu), "name": rng.choice(PROP_NAMES + ["q", "a b", "..."]),
                "v": rng.choice([[uid[0]], [uid[0], -3], [], [-9, -9]]),
                "how": rng.choice(["ctor", "create", "append", "insert", "extend", "setitem"]), "i": i}
    if kind == "pmove":
        return {"op": kind, "x": x, "k": rng.randrange(0, 3), "to": hist_spec(rng, maxu), "how": how, "i": i}
    if kind == "premove":
        return {"op": kind, "x": x, "k": rng.randrange(0, 3), "how": rng.choice(["remove", "parent_none"])}
    if kind == "reorder":
        return {"op": kind, "x": x, "i": rng.choice([0, 1, 2, -1])}
    if kind == "preorder":
        return {"op": kind, "x": x, "k": rng.randrange(0, 3), "i": rng.choice([0, 1, 2, -1])}
    if kind == "sort":
        return {"op": kind, "x": hist_spec(rng, maxu, True), "rev": rng.random() < 0.5}
    if kind == "clone":
        counter[0] += 1
        same_parent = rng.random() < 0.55
        return {"op": kind, "x": x, "keep_id": rng.random() < 0.5, "children": rng.random() < 0.85,
                "name": name if (same_parent or rng.random() < 0.5) else None,
                "to": "parent" if same_parent else hist_spec(rng, maxu, True),
                "how": rng.choice(["append", "append", "insert", "extend", "parent", "setitem"]), "i": i,
                "u": counter[0]}
    if kind == "setid":
        return {"op": kind, "x": x, "idof": hist_spec(rng, maxu)}
    if kind == "link":
        return {"op": kind, "x": x, "tgt": hist_spec(rng, maxu), "abs": rng.random() < 0.5}
    if kind == "clean":
        return {"op": kind, "x": hist_spec(rng, maxu, True)}
    if kind == "merge":
        return {"op": kind, "x": x, "src": hist_spec(rng, maxu)}
    if kind == "type":
        return {"op": kind, "x": x, "t": rng.choice(types)}
    if kind == "values":
        uid[0] += 1
        return {"op": kind, "x": x, "k": rng.randrange(0, 3), "v": rng.choice([[uid[0]], [uid[0], -9, -8], []])}
    if kind == "finalize":
        return {"op": kind}
    if kind == "adopt":
        # a Section (with what is below it) comes over from the second Document
        return {"op": "move", "x": {"u": -1, "d": [rng.randrange(0, 3)]}, "to": hist_spec(rng, maxu, True),
                "how": how, "i": i}
    if kind == "bounce":
        # a Section leaves for the second Document (or is detached), is queried there, and comes back
        back = {"op": "move", "x": x, "to": hist_spec(rng, maxu, True), "how": how, "i": i}
        if rng.random() < 0.3:
            out = {"op": "remove", "x": x, "how": rng.choice(["remove", "parent_none"])}
        else:
            out = {"op": "move", "x": x, "to": {"u": -1}, "how": rng.choice(["parent", "append", "insert"]), "i": i}
        return [out, {"op": "warm", "k": [k for k in WARM_KINDS if rng.random() < 0.5]}, back]
    raise ValueError(kind)


def hist_case(rng, uid, forest, kinds, warm, plan, via=None, links=False, ids=False, big=False, typepool=None,
              wide_ops=False):
    """A history: initial tree (+ a second Document), then for every kind in `kinds` an optional
    round of queries (`warm`: None = random subset, else the list) followed by the operation.
    typepool: the types of the Sections and of the type edits (default: the ASCII TYPES)."""
    types = typepool or (TYPES[:8] if via and via[0] != "CLONE" else TYPES)
    pnames = PROP_NAMES + (["...", "a b", u"\xe9"] if big else [])
    doc = {"s": decorate(forest, rng, uid, types, pnames)}
    doc["o"] = decorate(rng.choice(forests(rng.randrange(1 if "adopt" in kinds else 0, 4))), rng, uid,
                        types[:3], pnames)
    counter = [0]
    number_nodes(doc["s"], counter)
    number_nodes(doc["o"], counter)
    nodes = json_nodes(doc["s"])
    for _path, node in nodes:
        if node["p"] and rng.random() < 0.15:
            node["p"][-1]["v"] = []                     # an empty value list is a value list
    if ids:
        share_ids(rng, doc["s"])
    if links and len(nodes) > 1:
        for _try in range(10):
            (pa, a), (pb, _b) = rng.sample(nodes, 2)
            if not (pa + "/").startswith(pb + "/") and not (pb + "/").startswith(pa + "/"):
                a["l"] = pb                              # stored unresolved until finalize / load
                break
    if wide_ops and not links:
        unname(rng, doc["s"], [0])                       # objects without a name: the id is the name
    ops = []
    for kind in kinds:
        if counter[0] == 0:
            break
        ks = warm if warm is not None else [k for k in WARM_KINDS if rng.random() < 0.4]
        if ks:
            ops.append({"op": "warm", "k": list(ks) + (["mid"] if rng.random() < 0.35 else [])})
        op = (hist_op2 if wide_ops else hist_op)(rng, kind, counter, uid, typepool)
        ops += op if isinstance(op, list) else [op]
    if links and "finalize" not in kinds and not via:
        ops.append({"op": "finalize"})
    if ops and rng.random() < 0.5:
        # queries right before the final ones, no edit in between (the same question asked twice,
        # iterators left suspended)
        ops.append({"op": "warm", "k": [k for k in WARM_KINDS if rng.random() < 0.3] or ["partial"]})
    case = {"stream": "hist", "plan": plan, "doc": doc, "ops": ops}
    if via:
        case["via"] = list(via)
    return case


def twin_case(rng, uid, j=0):
    """
    Stream hist, sub-stream "twins" (added after seeded round 3): the Document holds Sections that are
    EQUAL (BaseObject.__eq__ is a deep comparison: name, type, ..., Sections, Properties; ids are ignored)
    but not the same object - the same name, type and content at two places, as every recording with
    per-session copies of one setup has them - or that become equal by the edit, and the history edits
    exactly those: an object moves from one twin to the other (parent=, append, insert, extend with one
    or two objects, sections[i] = x), is removed from one, a twin replaces the other, a twin is renamed.
    Twins can be Sections at depth 1-4, Properties, or the two Documents.
    """
    import copy
    types = TYPES[:6]
    diff = ["sec", "prop", "secprop", "none", "sec", "prop", "only-sec", "only-prop"][j % 8]
    if diff.startswith("only-"):
        common_s, common_p = [], []                        # the one twin holds nothing but the object
    else:
        common_s = decorate(rng.choice(forests(rng.choice([0, 0, 1, 1, 2]))), rng, uid, types)
        common_p = []
        for pn in rng.sample(PROP_NAMES, rng.choice([0, 0, 1, 2])):
            uid[0] += 1
            common_p.append({"n": pn, "v": rng.choice([[uid[0]], [uid[0], -3], []])})
    name, typ = rng.choice(NAMES), rng.choice(types)
    t1 = {"n": name, "t": typ, "p": copy.deepcopy(common_p), "s": copy.deepcopy(common_s)}
    t2 = {"n": name, "t": typ, "p": copy.deepcopy(common_p), "s": copy.deepcopy(common_s)}
    a, b = t1, t2                      # the innermost twins (t1 / t2 get wrapped below)
    extra_s = extra_p = None
    free = [n for n in NAMES if n not in [s["n"] for s in common_s]]
    if diff in ("sec", "secprop", "only-sec") and free:
        extra_s = decorate(((rng.choice(free), rng.choice(forests(rng.choice([0, 0, 1])))),), rng, uid, types)[0]
        t1["s"].insert(rng.randrange(0, len(t1["s"]) + 1), extra_s)
    free = [n for n in PROP_NAMES if n not in [p["n"] for p in common_p]]
    if diff in ("prop", "secprop", "only-prop") and free:
        uid[0] += 1
        extra_p = {"n": rng.choice(free), "v": rng.choice([[uid[0]], [uid[0], -9], []])}
        t1["p"].insert(rng.randrange(0, len(t1["p"]) + 1), extra_p)
    # equal Sections around the twins: the twins are the children (grand children ...) of twins
    for _ in range(rng.choice([0, 0, 1, 1, 2])):
        wn, wt = rng.choice(NAMES), rng.choice(types)
        wp = []
        if rng.random() < 0.3:
            uid[0] += 1
            wp = [{"n": rng.choice(PROP_NAMES), "v": [uid[0]]}]
        t1 = {"n": wn, "t": wt, "p": copy.deepcopy(wp), "s": [t1]}
        t2 = {"n": wn, "t": wt, "p": copy.deepcopy(wp), "s": [t2]}
    docs = rng.random() < 0.2
    top_x = None
    if docs:
        # the two Documents are the outermost twins
        main, other = [t2], [t1]
        if rng.random() < 0.5:
            extra = decorate(rng.choice(forests(1)), rng, uid, types)
            if extra[0]["n"] != t1["n"]:
                main, other = main + copy.deepcopy(extra), other + extra
        if rng.random() < 0.5:
            # a top-level Section only the second Document has: it moves over
            free = [n for n in NAMES if n not in [s["n"] for s in other]]
            if free:
                top_x = decorate(((rng.choice(free), ()),), rng, uid, types)[0]
                other = other + [top_x]
    else:
        na, nb = rng.sample(NAMES, 2)
        ta = rng.choice(types)
        tb = ta if rng.random() < 0.7 else rng.choice(types)
        tops = [{"n": na, "t": ta, "p": [], "s": [t1]}, {"n": nb, "t": tb, "p": [], "s": [t2]}]
        if rng.random() < 0.5:
            tops.reverse()
        if rng.random() < 0.3:
            used = (na, nb)
            tops.insert(rng.randrange(0, 3), decorate(((rng.choice([n for n in NAMES if n not in used]), ()),),
                                                      rng, uid, types)[0])
        main = tops if rng.random() < 0.5 else [{"n": rng.choice(NAMES), "t": rng.choice(types), "p": [], "s": tops}]
        other = decorate(rng.choice(forests(rng.randrange(0, 3))), rng, uid, types[:3])
    doc = {"s": main, "o": other}
    counter = [0]
    number_nodes(doc["s"], counter)
    number_nodes(doc["o"], counter)

    if rng.random() < 0.15:
        share_ids(rng, doc["s"])            # equal AND carrying the same ids (a keep_id clone that stayed)
    A, B = {"u": a["u"]}, {"u": b["u"]}
    holder = {}                         # id(node) -> (handle of the object holding it, index in its list)
    for root, u in ((doc["s"], 0), (doc["o"], -1)):
        todo = [(u, root)]
        while todo:
            pu, kids = todo.pop()
            for n, kid in enumerate(kids):
                holder[id(kid)] = ({"u": pu}, n)
                todo.append((kid["u"], kid["s"]))
    hows = ["append", "insert", "extend", "parent", "setitem"]
    how = hows[(j // 8) % 5]
    i = rng.choice([0, 0, 1, 2, -1, 5])
    warm = lambda p=0.5: [{"op": "warm", "k": [k for k in WARM_KINDS if rng.random() < 0.4]
                           + (["mid"] if rng.random() < 0.5 else [])}] if rng.random() < p else []
    ops = warm()
    main_ops = []
    if extra_s is not None:
        main_ops.append({"op": "move", "x": {"u": extra_s["u"]}, "to": B, "how": how, "i": i})
    if extra_p is not None:
        k = [n for n, p in enumerate(a["p"]) if p is extra_p][0]
        main_ops.append({"op": "pmove", "x": A, "k": k, "to": B, "how": how, "i": i})
    if extra_s is not None and extra_p is not None and rng.random() < 0.5:
        # both in one call
        k = [n for n, p in enumerate(a["p"]) if p is extra_p][0]
        main_ops = [{"op": "move", "x": {"u": extra_s["u"]}, "to": B, "how": "extend", "i": i, "y": A, "yk": k}]
    if docs and top_x is not None:
        main_ops.append({"op": "move", "x": {"u": top_x["u"]}, "to": {"u": 0}, "how": how, "i": i})
    if not main_ops:
        # equal twins: what holds one is asked to take the other, a child changes sides (refused: the
        # name is taken), one twin goes, one twin gets a new name
        main_ops.append(rng.choice([
            {"op": "move", "x": A, "to": B, "how": how, "i": i},
            {"op": "move", "x": {"u": a["u"], "d": [0]}, "to": B, "how": how, "i": i},
            {"op": "move", "x": A, "to": holder[id(b)][0], "how": "setitem", "i": holder[id(b)][1]},
            {"op": "remove", "x": A, "how": rng.choice(["remove", "parent_none"])},
            {"op": "rename", "x": A, "name": rng.choice(NAMES)},
            {"op": "clone", "x": A, "keep_id": rng.random() < 0.5, "children": True, "name": None, "to": B,
             "how": how, "i": i, "u": counter[0] + 1}]))
        if main_ops[0]["op"] == "clone":
            counter[0] += 1
    rng.shuffle(main_ops)
    for op in main_ops:
        ops.append(op)
        ops += warm(0.4)
    # afterwards: more edits around the twins (the moved object goes back, or on to the twin's parent,
    # a twin is removed / replaces the other one / is cloned), then anything
    for _ in range(rng.choice([0, 0, 1, 2, 3])):
        r = rng.random()
        if r < 0.25 and extra_s is not None:
            ops.append({"op": "move", "x": {"u": extra_s["u"]}, "to": rng.choice([A, B, {"u": 0}]),
                        "how": rng.choice(hows), "i": rng.choice([0, 1, -1])})
        elif r < 0.4:
            ops.append({"op": "pmove", "x": rng.choice([A, B]), "k": rng.randrange(0, 3), "to": rng.choice([A, B]),
                        "how": rng.choice(hows), "i": rng.choice([0, 1, -1])})
        elif r < 0.5:
            ops.append({"op": "remove", "x": rng.choice([A, B]), "how": rng.choice(["remove", "parent_none"])})
        else:
            op = hist_op(rng, rng.choices(OP_KINDS, OP_WEIGHTS)[0], counter, uid)
            ops += op if isinstance(op, list) else [op]
        ops += warm(0.3)
    return {"stream": "hist", "plan": "all", "doc": doc, "ops": ops, "twins": diff}


# ---- added after seeded round 5 ------------------------------------------------------------------------
RAW_INDEX = [-3, -2, -1, 0, 0, 1, 1, 2, 3, 4, 7, True, False, 1.0, 10, -10]     # bool: an int; float: refused
EMPTY_NAMES = [None, ""]
FALSY_NAMES = [None, "", None, "", 0, False]       # everything `not name` holds for falls back to the id


def ref_name(rng, maxu, props=False):
    """A name that is not a fresh string: empty (None / "": the id becomes the name), the id of another
    object, the name another object has right now."""
    r = rng.random()
    if r < 0.3:
        return rng.choice(FALSY_NAMES)
    if r < 0.35:
        return rng.choice([" ", "\t", u"\xa0"])        # white space only: a name like any other
    ref = {"idof" if r < 0.8 else "nameof": hist_spec(rng, maxu)}
    if props:
        ref["k"] = rng.randrange(0, 3)
    return ref


def hist_op2(rng, kind, counter, uid, types=None):
    """hist_op with the argument shapes seeded round 5 showed to be missing: the target of a move is the
    parent the object has already (same child list), the index is passed as it is (negative, last, out of
    range), names are empty or the id / name of another object."""
    maxu = counter[0]
    ops = hist_op(rng, kind, counter, uid, types)
    for op in (ops if isinstance(ops, list) else [ops]):
        k = op["op"]
        if k in ("move", "pmove", "clone", "new", "newprop"):
            if k in ("move", "pmove") and rng.random() < 0.3:
                op["to"] = "parent"
            if rng.random() < 0.5:
                op["rawi"] = True
                op["i"] = rng.choice(RAW_INDEX)
        if k in ("rename", "new", "clone") and rng.random() < 0.35:
            op["name"] = ref_name(rng, maxu)
        if k in ("prename", "newprop") and rng.random() < 0.35:
            op["name"] = ref_name(rng, maxu, rng.random() < 0.7)
        if k == "newprop" and rng.random() < 0.2:
            op["idof"], op["idk"] = hist_spec(rng, maxu), rng.randrange(0, 3)
        if k == "sort" and rng.random() < 0.4:
            op["how"] = "reverse"                        # list.reverse() on the child lists
    return ops


def unname(rng, secs, counter, p=0.25):
    """Some Sections / Properties of the forest are created WITHOUT a name: their id is their name (a
    fixed id each, so that a case is the same case in every run)."""
    for _path, node in json_nodes(secs):
        for prop in node["p"]:
            if rng.random() < p and prop.get("i") is None:
                counter[0] += 1
                prop["n"], prop["i"] = None, 5000 + counter[0]
    for _path, node in json_nodes(secs):
        if rng.random() < p and node.get("i") is None:
            counter[0] += 1
            node["n"], node["i"] = None, 5000 + counter[0]


def warm_round(rng, p=0.5, mid=0.5):
    if rng.random() >= p:
        return []
    return [{"op": "warm", "k": [k for k in WARM_KINDS if rng.random() < 0.4] + (["mid"] if rng.random() < mid else [])}]


def own_case(rng, uid, j=0):
    """
    Stream hist, sub-stream "own" (added after seeded round 5): an object is attached to the parent it
    has ALREADY - assigned to a slot of the child list it sits in (at a lower / the same / a higher index
    than its own, negative index, last index, out of range), inserted, appended, extended, `parent =` -
    for the Sections of a Document, the sub-Sections of a Section and the Properties of a Section; also a
    slot is given to a child of the object that holds it, to the owner of the list, to two members in one
    call. The library may refuse or carry out a move; either way the Document stays a tree and every
    object is found by its path and by the traversals.
    """
    where = ["doc", "sec", "prop"][j % 3]
    n = [2, 3, 4, 3, 5, 4, 3, 11][(j // 3) % 8]           # 11: the tenth and eleventh entry exist
    types = TYPES[:6]
    pool = NAMES + ["abcd", "c"] + (["x%d" % k for k in range(1, 9)] + ["10", "2"] if n > 6 else [])
    if where == "prop":
        props = []
        for pn in rng.sample(list(dict.fromkeys(PROP_NAMES + ["q", "r"] + (pool if n > 6 else []))), n):
            uid[0] += 1
            props.append({"n": pn, "v": rng.choice([[uid[0]], [uid[0], -3], [uid[0], -9, -9]])})
        sec = {"n": rng.choice(pool), "t": rng.choice(types), "p": props,
               "s": decorate(rng.choice(forests(rng.choice([0, 1, 2]))), rng, uid, types)}
        tops = [sec] + decorate(((rng.choice([x for x in pool if x != sec["n"]]), ()),), rng, uid, types)
        rng.shuffle(tops)
        main = tops if rng.random() < 0.5 else [{"n": rng.choice(pool), "t": "t", "p": [], "s": tops}]
        members = None
    else:
        members = decorate(tuple((nm, rng.choice(forests(rng.choice([0, 1, 1, 2])))) for nm in rng.sample(pool, n)),
                           rng, uid, types)
        if where == "doc":
            main = members
        else:
            sec = {"n": rng.choice(pool), "t": rng.choice(types), "p": [], "s": members}
            uid[0] += 1
            if rng.random() < 0.5:
                sec["p"].append({"n": "p", "v": [uid[0]]})
            main = [sec]
            if rng.random() < 0.5:
                main = main + decorate(((rng.choice([x for x in pool if x != sec["n"]]), ()),), rng, uid, types)
            if rng.random() < 0.3:
                main = [{"n": rng.choice(pool), "t": "t", "p": [], "s": main}]
    doc = {"s": main, "o": decorate(rng.choice(forests(rng.randrange(0, 3))), rng, uid, types[:3])}
    counter = [0]
    number_nodes(doc["s"], counter)
    number_nodes(doc["o"], counter)
    if rng.random() < 0.15:
        share_ids(rng, doc["s"])
    hows = ["setitem", "setitem", "setitem", "setitem", "insert", "append", "extend", "parent"]

    def own_op(jj):
        how = hows[jj % len(hows)]
        i = range(-n - 1, n + 2)[(jj // len(hows)) % (2 * n + 3)] if how in ("setitem", "insert") else 0
        if where == "prop":
            return {"op": "pmove", "x": {"u": sec["u"]}, "k": rng.randrange(0, n), "to": "parent", "how": how,
                    "i": i, "rawi": True}
        x = rng.choice(members)
        op = {"op": "move", "x": {"u": x["u"]}, "to": "parent", "how": how, "i": i, "rawi": True}
        r = rng.random()
        if r < 0.1 and x["s"]:
            # the slot goes to a child of a member (possibly of the member that holds the slot)
            op["x"] = {"u": x["u"], "d": [rng.randrange(0, 3)]}
            op["to"] = {"u": 0} if where == "doc" else {"u": sec["u"]}
        elif r < 0.15 and where == "sec":
            op["x"] = {"u": sec["u"]}               # the owner of the list is asked into its own list
            op["to"] = {"u": sec["u"]}
        elif r < 0.25 and how == "extend":
            op["y"] = {"u": rng.choice(members)["u"]}     # two members (or the same one twice) in one call
        return op
    ops = warm_round(rng)
    ops.append(own_op(j // 3))
    ops += warm_round(rng, 0.6, 0.7)
    for _ in range(rng.choice([0, 0, 1, 1, 2, 3])):
        if rng.random() < 0.6:
            ops.append(own_op(rng.randrange(0, 1000)))
        else:
            op = hist_op2(rng, rng.choices(OP_KINDS, OP_WEIGHTS)[0], counter, uid)
            ops += op if isinstance(op, list) else [op]
        ops += warm_round(rng, 0.4, 0.6)
    return {"stream": "hist", "plan": "all", "doc": doc, "ops": ops, "own": where}


def idname_case(rng, uid, j=0):
    """
    Stream hist, sub-stream "idnames" (added after seeded round 5): names that are ids. An object created
    without a name carries its id as its name; it gets a real name later; another object of the same
    parent is called like that id (a keep_id clone taken while the name was the id, an object created with
    or renamed to that string, a new object with the same oid and no name, an unnamed sibling whose id the
    object takes over by new_id, a file written while the object was unnamed); then a name is cleared
    again (None / ""), which makes the library fall back to the id. Sections below the Document or below
    a Section, and Properties. Whether a step is refused or not: every object is found by its own path.
    """
    what = "prop" if j % 3 == 2 else "sec"
    variant = ["clone", "named", "renamed", "oid", "shared", "setid", "named", "renamed"][(j // 3) % 8]
    empty = EMPTY_NAMES[(j // 24) % 2]
    types = TYPES[:6]
    fid = 7000 + (j % 50)
    real = rng.choice(["session", "x1", "abcd"])
    if what == "prop" and variant in ("clone", "setid"):
        variant = "named"                  # (a Property clone cannot be taken by this vocabulary; new_id: Sections)
    uid[0] += 3
    sibs = decorate(rng.choice(forests(rng.choice([0, 1, 1, 2]))), rng, uid, types)
    sib = {"n": "c", "t": rng.choice(types), "p": [{"n": "c", "v": [uid[0] - 1]}], "s": []}
    first = {"n": None, "i": fid, "t": "rec", "p": [{"n": "p", "v": [uid[0]]}],
             "s": decorate(rng.choice(forests(rng.choice([0, 1, 1]))), rng, uid, types)}
    if what == "prop":
        first["n"] = rng.choice(["s", "a"])
        del first["i"]
        first["p"] = [{"n": None, "i": fid, "v": [uid[0]]}, {"n": "c", "v": [uid[0] - 1]}]
        if rng.random() < 0.5:
            first["p"].reverse()
        sibs = [x for x in sibs if x["n"] != first["n"]]
    if variant == "shared":
        # two siblings share the id; one of them is unnamed (its name is the id), the other one is named
        # and gets its name cleared
        if what == "prop":
            first["p"].append({"n": "q", "i": fid, "v": [uid[0] - 2]})
        else:
            sib["i"] = fid
    kids = sibs + [first, sib]
    rng.shuffle(kids)
    main = kids if rng.random() < 0.5 else [{"n": "top", "t": "t", "p": [], "s": kids}]
    doc = {"s": main, "o": decorate(rng.choice(forests(rng.randrange(0, 2))), rng, uid, types[:3])}
    counter = [0]
    number_nodes(doc["s"], counter)
    number_nodes(doc["o"], counter)
    F, S = {"u": first["u"]}, {"u": sib["u"]}
    fk = [n for n, p in enumerate(first["p"]) if p.get("i") == fid and p["n"] is None][0] if what == "prop" else None
    how = rng.choice(["append", "insert", "extend", "parent", "ctor", "create"])
    w = lambda: warm_round(rng, 0.4, 0.6)
    ops = w()
    if what == "sec":
        give_name = [{"op": "rename", "x": F, "name": real}]
        clear = [{"op": "rename", "x": F, "name": empty}]
        P = "parent"
        attach = how if how not in ("ctor", "create") else "append"
        if variant == "clone":
            counter[0] += 1
            cu = counter[0]
            ops += [{"op": "clone", "x": F, "keep_id": True, "children": rng.random() < 0.7, "name": None, "to": P,
                     "how": "none", "i": 0, "u": cu}] + w() + give_name + w()
            ops += [{"op": "move", "x": {"u": cu}, "to": {"u": first["u"], "up": 1}, "how": attach, "i": rng.choice([0, 1, -1])}]
        elif variant == "named":
            counter[0] += 1
            ops += give_name + w() + [{"op": "new", "to": {"u": first["u"], "up": 1}, "name": {"idof": F},
                                       "type": "other", "how": how, "i": rng.choice([0, 1, -1]), "u": counter[0]}]
        elif variant == "renamed":
            ops += give_name + w() + [{"op": "rename", "x": S, "name": {"idof": F}}]
        elif variant == "oid":
            counter[0] += 1
            ops += give_name + w() + [{"op": "new", "to": {"u": first["u"], "up": 1}, "name": None, "idof": F,
                                       "type": "other", "how": how, "i": rng.choice([0, 1, -1]), "u": counter[0]}]
        elif variant == "shared":
            clear = [{"op": "rename", "x": S, "name": empty}]
        elif variant == "setid":
            # the named sibling takes over the id of the unnamed one, then loses its name
            ops += [{"op": "setid", "x": S, "idof": F}]
            clear = [{"op": "rename", "x": S, "name": empty}]
    else:
        give_name = [{"op": "prename", "x": F, "k": fk, "name": real}]
        # (after the rename the Property keeps its place in the list: k still names it)
        clear = [{"op": "prename", "x": F, "k": fk, "name": empty}]
        attach = how if how != "parent" else "append"
        if variant == "named":
            ops += give_name + w() + [{"op": "newprop", "to": F, "name": {"idof": F, "k": fk}, "v": [-9, -9],
                                       "how": attach, "i": 5}]
        elif variant == "renamed":
            ok = [n for n, p in enumerate(first["p"]) if p["n"] == "c"][0]
            ops += give_name + w() + [{"op": "prename", "x": F, "k": ok, "name": {"idof": F, "k": fk}}]
        elif variant == "oid":
            ops += give_name + w() + [{"op": "newprop", "to": F, "name": None, "idof": F, "idk": fk, "v": [-8],
                                       "how": attach, "i": 5}]
        elif variant == "shared":
            qk = [n for n, p in enumerate(first["p"]) if p["n"] == "q"][0]
            clear = [{"op": "prename", "x": F, "k": qk, "name": empty}]
    ops += w()
    # neighbours of the last step: the name is cleared twice, set to the id explicitly, to a fresh name
    # and cleared after that, the other object is cleared instead
    r = rng.random()
    if r < 0.6:
        ops += clear
    elif r < 0.7:
        ops += clear + w() + clear
    elif r < 0.8:
        ops += [dict(clear[0], name=({"idof": F} if what == "sec" else {"idof": F, "k": fk}))]
    elif r < 0.9:
        ops += [dict(clear[0], name="fresh")] + clear
    else:
        ops += [dict(clear[0], name=rng.choice(FALSY_NAMES))]
    ops += warm_round(rng, 0.5, 0.8)
    for _ in range(rng.choice([0, 0, 0, 1, 2])):
        op = hist_op2(rng, rng.choices(OP_KINDS, OP_WEIGHTS)[0], counter, uid)
        ops += op if isinstance(op, list) else [op]
        ops += warm_round(rng, 0.3, 0.6)
    case = {"stream": "hist", "plan": "all", "doc": doc, "ops": ops, "idnames": what + ":" + variant}
    if (j // 3) % 5 == 4 and variant in ("named", "renamed", "oid"):
        # the Document was written while the object was unnamed and is read back before the history
        case["via"] = [["XML", "JSON", "YAML"][(j // 15) % 3], ["string", "file"][(j // 45) % 2]]
    return case



# ---- stream setname (added after seeded round 5): the name setters against Model/PathName.lean ----------
def setname_case(rng, j=0):
    """One child list (Sections of a Document / of a Section, Properties of a Section); children with a
    name, without one (the id is the name), called like the id of another child, sharing an id; then a
    few assignments `child.name = value` with value a fresh / a taken name, None, "", the id or the name
    of a child. Every assignment is one request to the model (`setName`)."""
    kind = ["sec", "sec", "prop"][j % 3]
    n = rng.choice([1, 2, 2, 3, 3, 4])
    kids = []
    for k in range(n):
        r = rng.random()
        kid = {"n": rng.choice(["a", "ab", "b", "session", "c%d" % k]), "i": 8000 + k}
        if r < 0.35:
            kid["n"] = None
        elif r < 0.55 and k > 0:
            kid["n"] = {"idof": rng.randrange(0, k)}
        if k > 0 and rng.random() < 0.15:
            kid["i"] = kids[rng.randrange(0, k)]["i"]        # two children share an id
        kids.append(kid)

    def value():
        r = rng.random()
        if r < 0.3:
            return rng.choice(EMPTY_NAMES)
        if r < 0.5:
            return rng.choice(["a", "ab", "b", "session", "fresh", " "])
        return {rng.choice(["idof", "idof", "nameof"]): rng.randrange(0, n)}
    calls = [[rng.randrange(0, n), value()] for _ in range(rng.choice([1, 2, 3, 4]))]
    return {"stream": "setname", "kind": kind, "holder": rng.choice(["doc", "sec"]) if kind == "sec" else "sec",
            "kids": kids, "calls": calls}


def run_setname(case):
    import odml
    doc = odml.Document()
    holder = doc if case["holder"] == "doc" else odml.Section(name="top", type="t", parent=doc)
    objs = []
    try:
        for kid in case["kids"]:
            name = kid["n"]
            if isinstance(name, dict):
                name = fixed_uuid(case["kids"][name["idof"]]["i"])
            if case["kind"] == "sec":
                objs.append(odml.Section(name=name, type="t", oid=fixed_uuid(kid["i"]), parent=holder))
            else:
                objs.append(odml.Property(name=name, values=[len(objs)], oid=fixed_uuid(kid["i"]), parent=holder))
    except Exception as exc:
        return {"skipped": "the child list could not be built: " + fw.exc_name(exc)}
    lst = (lambda: holder.sections) if case["kind"] == "sec" else (lambda: holder.properties)
    names = lambda: [x.name for x in lst()]
    calls = []
    for i, val in case["calls"]:
        if isinstance(val, dict):
            ref = objs[val["idof"] if "idof" in val else val["nameof"]]
            val = ref.id if "idof" in val else ref.name
        rec = {"before": names(), "i": i, "oid": objs[i].id, "new": val}
        try:
            objs[i].name = val
            rec["raised"] = False
        except Exception as exc:
            rec["raised"] = True
        rec["after"] = names()
        rec["same"] = all(a is b for a, b in zip(lst(), objs)) and len(lst()) == len(objs)
        calls.append(rec)
    lost = []
    for k, obj in enumerate(objs):
        try:
            if case["kind"] == "sec":
                got = [frm.get_section_by_path(obj.get_path()) for frm in (doc, holder, obj)]
            else:
                got = [frm.get_property_by_path(obj.get_path()) for frm in (doc, holder)]
        except Exception as exc:
            got = [exc]
        if not all(g is obj for g in got):
            lost.append(k)
    if case["kind"] == "sec":
        seen = [x for x in holder.itersections()]
    else:
        seen = [x for x in holder.iterproperties(max_depth=0)]
    return {"calls": calls, "lost": lost, "seen": sorted(k for k, o in enumerate(objs) if any(o is x for x in seen)),
            "n": len(objs)}



# ---- added after seeded round 6: the parent setter one call at a time, against Model/PathMove.lean ------
SP_NAMES = ["a", "ab", "b", "probe"]
SP_TYPES = ["t", "T", "stim", "stim/white", "n.s."]


def setparent_case(rng, j=0):
    """Two child lists of Sections (holders: a Section / the Document / a Section of a second Document /
    a nested Section) over few names and several types, so that a namesake of the SAME and of ANOTHER
    type is met often; then 1-4 calls `x.parent = the other holder` (x = entry i of either list), or
    `x.parent = x` / `= a child of x`. Every call is one request to the model (`setParent`): the two
    child lists as (name, type) before -> raised or not, the two lists afterwards, the holder x names."""
    kind = ["sibs", "doc", "twodocs", "nested", "sibs", "self"][j % 6]
    lists = []
    for _side in range(2):
        names = rng.sample(SP_NAMES, rng.choice([0, 1, 2, 2, 3]))
        lists.append([[n, rng.choice(SP_TYPES), rng.random() < 0.4] for n in names])   # [name, type, has a child]
    if not lists[0] and not lists[1]:
        lists[0] = [["a", "t", True]]
    calls = []
    for _ in range(rng.choice([1, 2, 2, 3, 4])):
        calls.append([rng.randrange(0, 2), rng.randrange(0, 3),
                      rng.choice(["x", "child"]) if kind == "self" and rng.random() < 0.6 else "other"])
    return {"stream": "setparent", "kind": kind, "lists": lists, "calls": calls}


def run_setparent(case):
    import odml
    doc, doc2 = odml.Document(), odml.Document()
    kind = case["kind"]
    try:
        if kind == "doc":
            holders = [odml.Section(name="ha", type="t", parent=doc), doc]
        elif kind == "twodocs":
            holders = [odml.Section(name="ha", type="t", parent=doc), rng_free_holder(odml, doc2)]
        elif kind == "nested":
            ha = odml.Section(name="ha", type="t", parent=doc)
            holders = [ha, odml.Section(name="hb", type="t", parent=odml.Section(name="mid", type="t", parent=ha))]
        else:
            holders = [odml.Section(name="ha", type="t", parent=doc), odml.Section(name="hb", type="t", parent=doc)]
        objs = []
        for side, entries in enumerate(case["lists"]):
            for name, typ, child in entries:
                if kind == "nested" and side == 0 and name == "mid":
                    continue
                sec = odml.Section(name=name, type=typ, parent=holders[side])
                objs.append(sec)
                objs.append(odml.Property(name="p", values=[len(objs)], parent=sec))
                if child:
                    objs.append(odml.Section(name="k", type=typ, parent=sec))
    except Exception as exc:
        return {"skipped": "the child lists could not be built: " + fw.exc_name(exc)}
    view = lambda h: [[x.name, x.type] for x in h.sections]
    calls = []
    for side, i, target in case["calls"]:
        src = holders[side]
        if len(src.sections) == 0:
            continue
        i = i % len(src.sections)
        x = src.sections[i]
        dst = holders[1 - side] if target == "other" else x if target == "x" or len(x.sections) == 0 else x.sections[0]
        node, below = dst, False
        for _ in range(50):
            if node is None:
                break
            if node is x:
                below = True
            node = getattr(node, "parent", None)
        rec = {"old": view(src), "new": view(dst), "i": i, "below": below}
        try:
            x.parent = dst
            rec["raised"] = False
        except Exception as exc:
            rec["raised"] = True
        rec["after"] = {"raised": rec["raised"], "old": view(src), "new": view(dst),
                        "par": "old" if x.parent is src else "new" if x.parent is dst else "other"}
        if src is dst:
            rec["skip"] = True                # (cannot happen: the holders differ, x is not its own holder)
        calls.append(rec)
    # independent of the model: every object is still of a Document, found by its path and by the traversal
    lost = []
    for k, obj in enumerate(objs):
        node = obj
        for _ in range(50):
            if node is None or node is doc or node is doc2:
                break
            node = node.parent
        if node is None:
            lost.append([k, "is of no Document any more"])
            continue
        is_sec = hasattr(obj, "sections")
        try:
            path = obj.get_path()
            got = node.get_section_by_path(path) if is_sec else node.get_property_by_path(path)
        except Exception as exc:
            path, got = "?", exc
        if got is not obj:
            lost.append([k, "its path %r does not lead back to it" % (path,)])
            continue
        n = sum(1 for y in (node.itersections() if is_sec else node.iterproperties()) if y is obj)
        if n != 1:
            lost.append([k, "the traversal from its Document yields it %d times" % n])
    return {"calls": calls, "lost": lost[:3], "n": len(objs)}


def rng_free_holder(odml, doc2):
    return odml.Section(name="hb", type="t", parent=doc2)


# ----------------------------------------------------------------------------- positions
# ---- added after seeded round 6 ------------------------------------------------------------------------
REFUSE_RELS = ["type", "equal", "typecase", "subtype", "content", "supertype", "values", "empty", "sameid",
               "type+sameid", "deftype"]
REFUSE_HOWS = ["parent", "append", "insert", "extend", "extend2", "setitem", "ctor", "create", "clone", "rename",
               "insertf", "parent"]
MISUSES = ["prop_parent_doc", "prop_parent_prop", "sec_parent_prop", "sec_parent_str", "doc_append_prop",
           "doc_insert_prop", "append_int", "append_str", "append_list", "extend_mixed", "extend_mixed_first",
           "extend_int", "extend_twice", "setitem_prop_in_sections", "setitem_sec_in_properties", "setitem_by_name",
           "remove_absent", "remove_absent_prop", "remove_int", "reorder_far", "insert_no_index", "prop_append_doc_child"]


def refuse_case(rng, uid, j=0):
    """
    Stream hist, sub-stream "refuse" (added after seeded round 6): calls the library has to REFUSE, one at
    a time, with the object the call clashes with varied along every attribute, and the state judged right
    after the refusal (refused_check, `mid`), before a later edit can repair it.
      * a Section x (with Sections and Properties below it) is asked into a holder that already has a
        Section of the SAME NAME which is: equal to x / of another type / of a type that differs by case
        only / a sub- or super-type / of the same type with other content / with one other value / empty /
        carrying the same id; by parent =, append, insert, extend (alone, or together with an object that
        would be accepted, in both orders), sections[i] = x at the index of another member (refused) or of
        the namesake (a replacement), a constructor with parent=, create_section, a clone; a member of the
        holder is renamed to the name; a float index;
      * the holder is a Section below the Document, a nested Section, the Document itself, the namesake's
        own parent while x sits below the namesake; x comes from the same Document or from the second one;
      * the same for a Property and a Property of the same name (equal / other values / empty / same id);
      * a Section is asked below itself, its child, its grandchild;
      * calls with an argument of the wrong kind (a Property for a Document, a Property as a parent, ints,
        strings, lists; a list in which one entry is of the wrong kind; removing what is not there).
    Whatever the library answers (most of these end in an exception, a few are carried out), afterwards
    every object that was of the Document before is found by its path and by the traversals.
    """
    import copy
    group = ["sec", "sec", "prop", "sec", "cycle", "sec", "misuse", "prop"][j % 8]
    jj = j // 8
    types = ["stim", "t", "stim/white", "a/b", "T"]
    pool = NAMES + ["abcd", "c", "a b", u"\xe9"]
    name = rng.choice(pool)
    others = [n for n in pool if n != name]

    def props(k):
        out = []
        for pn in rng.sample(PROP_NAMES + ["q"], k):
            uid[0] += 1
            out.append({"n": pn, "v": rng.choice([[uid[0]], [uid[0], -3], [uid[0], -9, -9]])})
        return out
    t1 = rng.choice(types)
    x = {"n": name, "t": t1, "p": props(rng.choice([1, 1, 2])),
         "s": decorate(rng.choice(forests(rng.choice([0, 1, 1, 2]))), rng, uid, types)}
    rel = REFUSE_RELS[jj % len(REFUSE_RELS)]
    c = copy.deepcopy(x)
    if rel in ("type", "type+sameid"):
        c["t"] = rng.choice([t for t in types if t.lower() != t1.lower()])
    elif rel == "typecase":
        c["t"] = t1.swapcase()
    elif rel == "subtype":
        c["t"] = t1 + "/x"
    elif rel == "supertype":
        c["t"] = t1.split("/")[0] if "/" in t1 else "x/" + t1
    elif rel == "deftype":
        c["t"] = "n.s."
    elif rel == "content":
        c["p"] = props(rng.choice([0, 1, 2]))
        c["s"] = decorate(rng.choice(forests(rng.choice([0, 1, 2]))), rng, uid, types)
    elif rel == "values":
        c["p"][0]["v"] = c["p"][0]["v"] + [-7]
    elif rel == "empty":
        c["p"], c["s"] = [], []
    if rel in ("sameid", "type+sameid"):
        x["i"] = c["i"] = 71
    sib = lambda names: decorate(tuple((n, rng.choice(forests(rng.choice([0, 0, 1])))) for n in names), rng, uid, types)
    h2names = rng.sample(others, 3)
    h1names = [n for n in others if n not in h2names]
    n_sib2 = rng.choice([1, 1, 2])
    h2kids = sib(h2names[:n_sib2])
    ci = rng.randrange(0, len(h2kids) + 1)
    h2kids.insert(ci, c)
    h1kids = sib(h1names[:rng.choice([1, 1, 2])])      # h1kids[0]: an object the holder of c would accept
    xi = rng.randrange(0, len(h1kids) + 1)
    h1kids.insert(xi, x)
    lay = ["sibs", "nested", "doc", "below", "other", "sibs", "deep"][(jj // len(REFUSE_RELS)) % 7]
    if group in ("prop", "misuse") and lay in ("doc", "other"):
        lay = "sibs"
    H1 = {"n": rng.choice(pool), "t": rng.choice(types), "p": props(rng.choice([0, 1])), "s": h1kids}
    H2 = {"n": rng.choice([n for n in pool if n != H1["n"]]), "t": rng.choice(types), "p": [], "s": h2kids}
    other = decorate(rng.choice(forests(rng.randrange(0, 3))), rng, uid, types[:3])
    if lay == "sibs":
        main = [H1, H2] if rng.random() < 0.5 else [H2, H1]
    elif lay == "nested":
        main = [{"n": rng.choice(pool), "t": "t", "p": props(1), "s": [H1, H2]}]
    elif lay == "deep":
        # x sits deep below the holder of its namesake (it is asked upwards)
        h2kids[(ci + 1) % len(h2kids)]["s"].append(H1)
        if any(k["n"] == H1["n"] for k in h2kids[(ci + 1) % len(h2kids)]["s"][:-1]):
            h2kids[(ci + 1) % len(h2kids)]["s"] = [H1]
        main = [H2]
    elif lay == "doc":
        # the Document holds the namesake
        H1["n"] = rng.choice([n for n in pool if n not in [k["n"] for k in h2kids]])
        main = list(h2kids)
        main.insert(rng.randrange(0, len(main) + 1), H1)
        H2 = None
    elif lay == "below":
        # x sits below its namesake and is asked into the holder of the namesake
        c["s"] = [k for k in c["s"] if k["n"] != name] + [x]
        h1kids, xi = c["s"], len(c["s"]) - 1
        H1 = c
        main = [H2]
    else:
        # x comes from the second Document
        other = [k for k in h1kids]
        H1 = None
        main = [H2] + sib([n for n in h1names[2:3] if n != H2["n"]])
    doc = {"s": main, "o": other}
    counter = [0]
    number_nodes(doc["s"], counter)
    number_nodes(doc["o"], counter)
    X, C = {"u": x["u"]}, {"u": c["u"]}
    TO = {"u": H2["u"]} if H2 is not None else {"u": 0}
    holder2 = H2["s"] if H2 is not None else main
    ci = [n for n, k in enumerate(holder2) if k is c][0]
    how = REFUSE_HOWS[(jj + jj // len(REFUSE_HOWS)) % len(REFUSE_HOWS)]
    free_y = [k for k in (h1kids if lay != "other" else other) if k is not x and k["n"] not in [q["n"] for q in holder2]]
    ops = warm_round(rng, 0.5, 0.3)

    def main_op():
        if group == "sec":
            if how in ("parent", "append", "insert", "extend"):
                return {"op": "move", "x": X, "to": TO, "how": how, "i": rng.choice([0, 1, -1, ci, 7])}
            if how == "insertf":
                return {"op": "move", "x": X, "to": TO, "how": "insert", "i": rng.choice([1.0, 0.0, None, "0"])}
            if how == "extend2":
                if not free_y:
                    return {"op": "move", "x": X, "to": TO, "how": "extend", "i": 0, "y": X}
                return {"op": "move", "x": X, "to": TO, "how": "extend", "i": rng.choice([0, 1]),
                        "y": {"u": rng.choice(free_y)["u"]}}
            if how == "setitem":
                return {"op": "move", "x": X, "to": TO, "how": "setitem", "rawi": True,
                        "i": rng.choice(list(range(-len(holder2), len(holder2))) + [ci, len(holder2)])}
            if how in ("ctor", "create"):
                counter[0] += 1
                return {"op": "new", "to": TO, "name": name, "type": t1, "how": how, "i": 0, "u": counter[0]}
            if how == "clone":
                counter[0] += 1
                return {"op": "clone", "x": X, "keep_id": rng.random() < 0.5, "children": rng.random() < 0.8,
                        "name": None, "to": TO, "how": rng.choice(["append", "insert", "extend", "parent", "setitem"]),
                        "i": rng.choice([0, 1, -1]), "u": counter[0]}
            if how == "rename":
                mates = [k for k in holder2 if k is not c]
                return {"op": "rename", "x": {"u": rng.choice(mates)["u"]} if mates else X,
                        "name": rng.choice([name, {"nameof": C}])}
        if group == "prop":
            # a Property of x is asked into the namesake of x, which has (rel equal / values / sameid ...) a
            # Property of that name already - or has not (rel empty / content: carried out)
            S1, S2 = X, C
            k = rng.randrange(0, len(x["p"]))
            ph = ["parent", "append", "insert", "extend", "setitem", "ctor", "create", "prename", "extend2"][jj % 9]
            if ph in ("parent", "append", "insert", "extend"):
                return {"op": "pmove", "x": S1, "k": k, "to": S2, "how": ph, "i": rng.choice([0, 1, -1, 1.0])}
            if ph == "extend2":
                # a Section the namesake would accept and the Property it may not, in one call
                if not free_y:
                    return {"op": "pmove", "x": S1, "k": k, "to": S2, "how": "extend", "i": 0}
                return {"op": "move", "x": {"u": rng.choice(free_y)["u"]}, "to": S2, "how": "extend",
                        "i": rng.choice([0, 1]), "y": S1, "yk": k}
            if ph == "setitem":
                return {"op": "pmove", "x": S1, "k": k, "to": S2, "how": "setitem", "rawi": True,
                        "i": rng.choice([-2, -1, 0, 1, 2])}
            if ph in ("ctor", "create"):
                uid[0] += 1
                return {"op": "newprop", "to": S2, "name": x["p"][k]["n"], "v": [uid[0]], "how": ph, "i": 0}
            return {"op": "prename", "x": S2, "k": rng.randrange(0, 3), "name": rng.choice([p["n"] for p in c["p"]] or ["p"])}
        if group == "cycle":
            tgt = rng.choice([X, {"u": x["u"], "d": [0]}, {"u": x["u"], "d": [0, 0]}, C, {"u": c["u"], "d": [0]}])
            mover = rng.choice([X, X, X, {"u": x["u"], "up": 1}])
            if mover is not X and lay in ("doc", "other"):
                mover = X
            return {"op": "move", "x": mover, "to": tgt, "i": rng.choice([0, 1, -1]),
                    "how": ["parent", "append", "insert", "extend", "setitem"][jj % 5]}
        what = MISUSES[jj % len(MISUSES)]
        return {"op": "misuse", "what": what, "x": X, "to": TO, "k": rng.randrange(0, 3),
                "y": {"u": rng.choice(free_y)["u"]} if free_y else X}
    first = main_op()
    ops.append(first)
    ops.append({"op": "warm", "k": [k for k in WARM_KINDS if rng.random() < 0.3] + ["mid"]})
    for _ in range(rng.choice([0, 0, 1, 1, 2])):
        r = rng.random()
        if r < 0.3:
            ops.append(copy.deepcopy(first))              # the same call once more, on the state the refusal left
            if ops[-1]["op"] in ("new", "clone"):
                counter[0] += 1
                ops[-1]["u"] = counter[0]
        elif r < 0.45:
            ops.append({"op": "rename", "x": X, "name": rng.choice(others)})     # ... then it is welcome
            ops.append({"op": "move", "x": X, "to": TO, "how": rng.choice(["parent", "append", "insert"]), "i": 0})
        elif r < 0.55:
            ops.append({"op": "remove", "x": C, "how": rng.choice(["remove", "parent_none"])})
            ops.append({"op": "move", "x": X, "to": TO, "how": rng.choice(["parent", "append", "extend"]), "i": 0})
        elif r < 0.7:
            how = REFUSE_HOWS[rng.randrange(0, len(REFUSE_HOWS))]
            ops.append(main_op())
        else:
            op = hist_op2(rng, rng.choices(OP_KINDS, OP_WEIGHTS)[0], counter, uid)
            ops += op if isinstance(op, list) else [op]
        ops += warm_round(rng, 0.6, 0.7)
    return {"stream": "hist", "plan": "all", "doc": doc, "ops": ops, "refuse": group}


def sec_positions(doc):
    """All Section positions of a JSON tree in level order, with depth of the tree."""
    out = []
    level = [((i,), s) for i, s in enumerate(doc["s"])]
    depth = 0
    while level:
        depth += 1
        out += level
        level = [(p + (i,), c) for p, s in level for i, c in enumerate(s["s"])]
    return out, depth


def is_ascii(s):
    return all(ord(ch) < 128 for ch in s)


def swap_case(s):
    """The same text in another case (first spelling of case_variants). Until seeded round 4 letters
    outside ASCII were only asked for as stored; now every other-case spelling is asked for, the oracle
    accepts each reading of "case-insensitive" for them (see C14.oracle)."""
    return case_variants(s)[0]


def derived_requests(kids, rng=None, max_keys=6, max_types=8):
    """
    The names and types to ask `find` for, derived from the Sections it searches (JSON nodes):
    keys   None, the names that occur, near misses of them (other case, stripped, shortened, extended)
    types  None, the types that occur, each in another case, every single component of a hierarchical
           type (first / middle / last: a proper super-type matches with include_subtype only, the last
           component never), leading parts "a/b" of "a/b/c", one unknown type
    All keys are combined with all types by the caller. rng None: deterministic choice (plan "all").
    """
    names = list(dict.fromkeys(s["n"] for s in kids))
    types = list(dict.fromkeys(s["t"] for s in kids))
    near = []
    for n in names:
        for v in (swap_case(n), n.strip(), n[:-1], n + "b", " " + n):
            if v and v not in names and v not in near:
                near.append(v)
    comps = []
    for t in types:
        parts = t.split("/")
        cand = []
        if len(parts) > 1:
            cand += parts + ["/".join(parts[:k]) for k in range(2, len(parts))] + case_variants(parts[0])
        cand += case_variants(t)
        for v in cand:
            if v not in types and v not in comps:
                comps.append(v)
    if rng is None:
        keys = names[:max_keys - 2] + near[:2]
        typs = types[:max_types // 2]
        typs += comps[:max_types - 1 - len(typs)]
    else:
        keys = rng.sample(names, min(len(names), max_keys - 3)) + rng.sample(near, min(len(near), 2))
        typs = rng.sample(types, min(len(types), 3))
        typs += rng.sample(comps, min(len(comps), max_types - 3 - len(typs)))
    return [None] + keys, [None] + typs + ["zz/y"]


_PLAN_CACHE = {}


def plan_queries(case):
    """The queries of a tree case (driver format). Deterministic in the case (cached per object)."""
    hit = _PLAN_CACHE.get(id(case))
    if hit is not None and hit[0] is case:
        return hit[1]
    qs = _plan_queries(case)
    if len(_PLAN_CACHE) > 4:
        _PLAN_CACHE.clear()
    _PLAN_CACHE[id(case)] = (case, qs)
    return qs


def _plan_queries(case):
    doc = case["doc"]
    plan = case["plan"]
    secs, depth = sec_positions(doc)
    qs = [{"q": "wf"}]
    if plan == "all":
        starts = [()] + [p for p, _ in secs]
        pairs = [(a, b) for a, _ in secs for b, _ in secs]
        curs = starts
        targets = secs
        mds = [None, -1] + list(range(0, depth + 2))
    else:
        import random
        rng = random.Random(plan)
        allpos = [()] + [p for p, _ in secs]
        starts = [()] + [rng.choice(allpos) for _ in range(5)]
        pairs = [(rng.choice(secs)[0], rng.choice(secs)[0]) for _ in range(40)] if secs else []
        # ancestors / self / siblings are the delicate pairs: add them on purpose
        for _ in range(12):
            if not secs:
                break
            a = rng.choice(secs)[0]
            pairs.append((a, a[:rng.randrange(1, len(a) + 1)]))
            pairs.append((a[:rng.randrange(1, len(a) + 1)], a))
            sib = a[:-1] + (rng.randrange(0, a[-1] + 1),)
            pairs.append((a, sib))
        curs = [()] + [rng.choice(allpos) for _ in range(4)]
        targets = [rng.choice(secs) for _ in range(12)] if secs else []
        mds = [None, -1, 0, 1, 2, rng.randrange(0, depth + 2), depth, depth + 1]
    for cur in curs:
        for tp, ts in targets:
            qs.append({"q": "abs", "cur": list(cur), "target": list(tp)})
            for k in range(len(ts["p"])):
                qs.append({"q": "absp", "cur": list(cur), "target": list(tp), "k": k})
    byp = dict(secs)
    for a, b in pairs:
        qs.append({"q": "relres", "a": list(a), "b": list(b)})
        for k in range(len(byp[b]["p"])):
            qs.append({"q": "relp", "a": list(a), "b": list(b), "k": k})
    for st in starts:
        for md in mds:
            for ys in (False, True):
                qs.append({"q": "itersec", "start": list(st), "md": md, "ys": ys, "f": {"k": "all"}})
            qs.append({"q": "itersec", "start": list(st), "md": md, "ys": True, "f": {"k": "name_has", "c": "b"}})
            qs.append({"q": "iterprop", "start": list(st), "md": md, "f": {"k": "all"}})
            qs.append({"q": "iterprop", "start": list(st), "md": md, "f": {"k": "name_has", "c": "a"}})
            qs.append({"q": "iterval", "start": list(st), "md": md, "f": {"k": "all"}})
            qs.append({"q": "iterval", "start": list(st), "md": md, "f": {"k": "len_ge", "n": 2}})
        qs.append({"q": "itersec", "start": list(st), "md": None, "ys": False, "f": {"k": "type_eq", "t": "t"}})
        qs.append({"q": "itersec", "start": list(st), "md": 1, "ys": True, "f": {"k": "none"}})
        qs.append({"q": "iterval", "start": list(st), "md": None, "f": {"k": "has", "n": -9}})
        for key, typ in ((None, None), ("ab", None), (None, "T"), ("a", "stim/white"), (None, "stim"),
                         (None, "STIM"), ("zz", None), (None, ""), (None, "white"), (None, "X"),
                         ("", None), ("a", "STIM/white")):
            for fa in (False, True):
                for sub in (False, True):
                    qs.append({"q": "find", "cur": list(st), "key": key, "type": typ, "all": fa, "sub": sub})
        if not st:
            # find_related from the Document: only the children relation is non-empty
            for key, typ in ((None, None), ("ab", None), (None, "t"), ("a", "T")):
                for (c, s, p, r) in ((True, True, True, True), (True, False, False, False),
                                     (False, True, True, True)):
                    for fa in (False, True):
                        qs.append({"q": "related", "cur": [], "key": key, "type": typ, "children": c,
                                   "siblings": s, "parents": p, "recursive": r, "all": fa})
        if st:
            flagsets = [(c, s, p, r) for c in (False, True) for s in (False, True) for p in (False, True)
                        for r in (False, True)]
            few = [(True, False, False, True), (False, True, False, True), (False, False, True, True),
                   (False, False, True, False), (True, True, True, True)]
            for ki, (key, typ) in enumerate(((None, None), ("ab", None), (None, "t"), ("a", "T"), (None, "Stim"))):
                for (c, s, p, r) in (flagsets if ki < 2 else few):
                    for fa in (False, True):
                        qs.append({"q": "related", "cur": list(st), "key": key, "type": typ, "children": c,
                                   "siblings": s, "parents": p, "recursive": r, "all": fa})
    # ---- added after seeded round 3: requests DERIVED FROM THE TREE (the fixed grids above ask for a
    # name and a type together at two points only, and never for a name together with a super-type)
    prng = None
    if plan != "all":
        import random
        prng = random.Random("derived:%s" % plan)
    # "lite": a smaller derived grid, for the 17 000 trees of size 5 the thorough tier enumerates
    lite = bool(case.get("lite"))
    # "wide": more types per start (stream case: every spelling of every type is a request)
    wide = bool(case.get("wide"))
    asked = set((tuple(q["cur"]), q["key"], q["type"]) for q in qs if q["q"] == "find")
    for st in dict.fromkeys(tuple(s) for s in starts):
        kids = (byp[st]["s"] if st else doc["s"])
        if kids:
            keys, typs = derived_requests(kids, prng, *((4, 5) if lite else (3, 24) if wide else (6, 8)))
            for key in keys:
                for typ in typs:
                    if (st, key, typ) in asked:
                        continue              # the fixed grid has asked that already
                    for fa, sub in (((False, False), (False, True), (True, True)) if lite else
                                    ((False, False), (False, True), (True, False), (True, True))):
                        qs.append({"q": "find", "cur": list(st), "key": key, "type": typ, "all": fa, "sub": sub})
        if secs:
            # find_related: name and type of one Section asked for together (in the stored and in
            # another case), its name with the type of another Section, with a super-type, type alone
            if prng is None:
                picks = [secs[0][1], secs[-1][1]]
                if wide and st and st not in (secs[0][0], secs[-1][0]):
                    picks = [byp[st], secs[-1][1]]         # the start itself: found as its own sibling
            else:
                picks = [prng.choice(secs)[1], prng.choice(secs)[1]]
            reqs = []
            for n, x in enumerate(picks):
                other = picks[1 - n]
                for req in [(x["n"], x["t"]), (x["n"], swap_case(x["t"])), (x["n"], x["t"].split("/")[0]),
                            (x["n"], other["t"]), (None, x["t"]), (swap_case(x["n"]), x["t"])] + \
                        [(None, v) for v in case_variants(x["t"])[:(4 if wide else 1)]]:
                    if req not in reqs:
                        reqs.append(req)
            for key, typ in (reqs[:2] if lite else reqs):
                for (c, s, p, r) in ((True, True, True, True), (True, False, False, False),
                                     (False, True, True, False))[1 if lite and st else 0:]:
                    if not st and (c, s, p, r) == (False, True, True, False):
                        continue
                    for fa in (False, True):
                        qs.append({"q": "related", "cur": list(st), "key": key, "type": typ, "children": c,
                                   "siblings": s, "parents": p, "recursive": r, "all": fa})
    for cur, path in case.get("paths", []):
        qs.append({"q": "sec", "cur": list(cur), "path": path})
        qs.append({"q": "prop", "cur": list(cur), "path": path})
    return qs


# ----------------------------------------------------------------------------- implementation side
class Impl(object):
    """A real odml Document built from the JSON tree, with the object <-> position maps."""

    rawvals = False

    def __init__(self, doc):
        import odml
        self.odml = odml
        self.doc = odml.Document()
        self.pos_of = {id(self.doc): ()}
        self.obj_at = {(): self.doc}
        self.prop_of = {}
        self.keep = []
        self.objs = {}
        self._build(self.doc, (), doc["s"])

    def _build(self, parent, ppos, secs):
        """Optional keys of a node: "i" (objects with the same "i" get the same id), "l" (a link that is
        stored unresolved, as a reader does before finalize), "u" (handle used by the ops of a history)."""
        odml = self.odml
        for i, s in enumerate(secs):
            kw = {}
            if s.get("i") is not None:
                kw["oid"] = fixed_uuid(s["i"])
            if s.get("l") is not None:
                kw["link"] = s["l"]
            sec = odml.Section(name=s["n"], type=s["t"], parent=parent, **kw)
            pos = ppos + (i,)
            self.pos_of[id(sec)] = pos
            self.obj_at[pos] = sec
            if "u" in s:
                self.objs[s["u"]] = sec
            for k, p in enumerate(s["p"]):
                kw = {"oid": fixed_uuid(p["i"])} if p.get("i") is not None else {}
                prop = odml.Property(name=p["n"], values=list(p["v"]), dtype="int" if p["v"] else None,
                                     parent=sec, **kw)
                self.prop_of[id(prop)] = (pos, k)
                self.keep.append(prop)
            self._build(sec, pos, s["s"])

    def enc_sec(self, obj):
        if id(obj) in self.pos_of:
            return list(self.pos_of[id(obj)])
        return {"foreign": repr(obj)[:80]}

    def enc_prop(self, obj):
        if id(obj) in self.prop_of:
            pos, k = self.prop_of[id(obj)]
            return [list(pos), k]
        return {"foreign": repr(obj)[:80]}

    def enc_vals(self, vals):
        # a value list is identified by the Property holding it (its first value is unique);
        # where clones / merges / empty lists make that ambiguous (streams ids and hist) the value
        # lists themselves are the observation
        if self.rawvals:
            return list(vals) if isinstance(vals, list) else {"foreign": repr(vals)[:80]}
        for prop in self.keep:
            if prop.values is vals or (list(prop.values) == list(vals) and len(vals) > 0):
                return self.enc_prop(prop)
        return {"foreign": repr(vals)[:80]}

    def res(self, thunk, enc):
        try:
            return {"ok": enc(thunk())}
        except Exception as exc:
            return {"raised": fw.exc_name(exc)}

    def found(self, r):
        if r is None:
            return None
        if isinstance(r, list):
            return {"many": [self.enc_sec(x) for x in r]}
        return {"one": self.enc_sec(r)}

    @staticmethod
    def sec_filter(f):
        k = f["k"]
        if k == "all":
            return lambda s: True
        if k == "none":
            return lambda s: False
        if k == "name_has":
            return lambda s: all(ch in s.name for ch in f["c"])
        if k == "type_eq":
            return lambda s: s.type == f["t"]
        raise ValueError(k)

    @staticmethod
    def val_filter(f):
        k = f["k"]
        if k == "all":
            return lambda v: True
        if k == "none":
            return lambda v: False
        if k == "len_ge":
            return lambda v: len(v) >= f["n"]
        if k == "has":
            return lambda v: f["n"] in v
        raise ValueError(k)

    def run(self, q, n=0):
        at = lambda key: self.obj_at[tuple(q[key])]
        kind = q["q"]
        if kind == "wf":
            return None
        if kind == "path":
            return at("pos").get_path()
        if kind == "abs":
            path = at("target").get_path()
            return {"path": path, "res": self.res(lambda: at("cur").get_section_by_path(path), self.enc_sec)}
        if kind == "absp":
            path = at("target").properties[q["k"]].get_path()
            return {"path": path, "res": self.res(lambda: at("cur").get_property_by_path(path), self.enc_prop)}
        if kind == "relres":
            path = at("a").get_relative_path(at("b"))
            return {"path": path, "res": self.res(lambda: at("a").get_section_by_path(path), self.enc_sec)}
        if kind == "relp":
            path = at("a").get_relative_path(at("b")) + ":" + at("b").properties[q["k"]].name
            return {"path": path, "res": self.res(lambda: at("a").get_property_by_path(path), self.enc_prop)}
        if kind == "sec":
            return self.res(lambda: at("cur").get_section_by_path(q["path"]), self.enc_sec)
        if kind == "prop":
            return self.res(lambda: at("cur").get_property_by_path(q["path"]), self.enc_prop)
        # The same request is made in the ways a caller can make it (added after seeded round 3):
        # every argument by keyword; arguments that have their documented default left out; arguments
        # by position in the documented order. Which way is fixed by the place of the query in the plan.
        shape = n % 3
        if kind == "itersec":
            kw = {} if q["md"] is None else {"max_depth": q["md"]}
            if shape != 1 or q["ys"]:
                kw["yield_self"] = q["ys"]
            if shape != 1 or q["f"]["k"] != "all":
                kw["filter_func"] = self.sec_filter(q["f"])
            it = at("start").itersections(**kw)
            return [self.enc_sec(s) for s in it]
        if kind in ("iterprop", "iterval"):
            func = at("start").iterproperties if kind == "iterprop" else at("start").itervalues
            filt = self.sec_filter(q["f"]) if kind == "iterprop" else self.val_filter(q["f"])
            if shape == 2:
                it = func(q["md"], filt)
            elif shape == 1 and q["f"]["k"] == "all":
                it = func(q["md"]) if q["md"] is not None else func()
            else:
                kw = {} if q["md"] is None else {"max_depth": q["md"]}
                it = func(filter_func=filt, **kw)
            return [(self.enc_prop if kind == "iterprop" else self.enc_vals)(x) for x in it]
        if kind == "find":
            if shape == 2:
                return self.found(at("cur").find(q["key"], q["type"], q["all"], q["sub"]))
            kw = {"key": q["key"], "type": q["type"], "findAll": q["all"], "include_subtype": q["sub"]}
            if shape == 1:
                kw = dict((k, v) for k, v in kw.items() if v not in (None, False))
            return self.found(at("cur").find(**kw))
        if kind == "related":
            if shape == 2:
                return self.found(at("cur").find_related(q["key"], q["type"], q["children"], q["siblings"],
                                                         q["parents"], q["recursive"], q["all"]))
            kw = {"key": q["key"], "type": q["type"], "children": q["children"], "siblings": q["siblings"],
                  "parents": q["parents"], "recursive": q["recursive"], "findAll": q["all"]}
            if shape == 1:
                default = {"key": None, "type": None, "children": True, "siblings": True, "parents": True,
                           "recursive": True, "findAll": False}
                kw = dict((k, v) for k, v in kw.items() if v is not default[k] and v != default[k])
            return self.found(at("cur").find_related(**kw))
        raise ValueError(kind)


def fixed_uuid(i):
    import uuid
    return str(uuid.UUID(int=0x1000 + int(i)))


class Skip(Exception):
    """The history could not be set up the way the case describes it (never a verdict)."""


WARM_KINDS = ["paths", "rel", "lookup", "iter", "partial", "find", "validate", "detached"]
MAX_HIST_SECS = 300


class HistImpl(Impl):
    """
    A Document that reaches its state through a history (stream hist): initial tree, optional trip
    through a writer + reader, then operations of the public API with queries in between.
    Afterwards the tree is read from the child lists; that tree is what the queries, the model and
    the oracle talk about ("parent chain and child lists define the path of a node").
    """
    rawvals = True

    def __init__(self, case):
        import odml
        self.odml = odml
        self.doc = odml.Document()
        self.other = odml.Document()
        self.pos_of = {}
        self.obj_at = {}
        self.prop_of = {}
        self.keep = []
        self.objs = {}
        self.log = []
        self.mid = []
        self.stopped = None
        self.suspended = []
        self.nsteps = 0
        self._build(self.doc, (), case["doc"]["s"])
        self._build(self.other, (), case["doc"].get("o", []))
        if case.get("via"):
            self._roundtrip(case["via"], case["doc"])
        self.objs[0] = self.doc
        self.objs[-1] = self.other
        # every Section / Property the history has had in a child list so far (by identity): an object
        # that drops out of the child lists but keeps its parent reference is still known (added after
        # seeded round 5, see graphcheck / two_readings)
        self.known = ({}, {})
        # (added after seeded round 6) what a REFUSED call leaves behind, judged right after the call
        self.refused = []
        self.members = {}
        self.note()
        for n, op in enumerate(case.get("ops", [])):
            self.nsteps += op["op"] != "warm"
            try:
                self.log.append(self.apply(op) or "ok")
            except Skip:
                self.log.append("skip")
            except Exception as exc:          # a refused call is part of the history
                self.log.append("raised")
                if op["op"] != "warm" and len(self.refused) < 2:
                    self.refused += refused_check((self.doc, self.other), self.members,
                                                  "step %d of the history (%s, refused with %s)"
                                                  % (self.nsteps, op["op"], type(exc).__name__))
            if op["op"] != "warm":
                self.note()
            if op["op"] != "warm" and len(self.walk(self.doc)[1]) > MAX_HIST_SECS:
                self.stopped = n              # merges / clones of clones: keep the tree small
                break
        self.final, secs, props, bad = self.walk(self.doc)
        # the second Document is a document as well (objects come from it and leave for it)
        self.graph = self.refused[:2] + self.graphcheck(self.other, "second Document")
        if bad:
            # no positions to talk about; what the property says about objects is still checked
            self.graph += self.graphcheck(self.doc, "Document")
            raise Skip(bad, self.graph)
        # sibling names that are inside the quantifier one by one but occur twice (added after seeded round 5)
        self.graph += namecheck(self.doc, self.final, secs, props, "Document")
        self.pos_of = {id(self.doc): ()}
        self.obj_at = {(): self.doc}
        self.prop_of = {}
        for pos, sec in secs:
            self.pos_of[id(sec)] = pos
            self.obj_at[pos] = sec
        for pos, k, prop in props:
            self.prop_of[id(prop)] = (pos, k)
        self.keep = [p for _pos, _k, p in props]

    def graphcheck(self, doc, label):
        return graphcheck(doc, label, self.known)

    def note(self):
        collect([self.doc, self.other] + [self.objs[u] for u in sorted(self.objs)], *self.known)
        self.members = firm_members((self.doc, self.other))

    # -- the tree as the child lists define it ---------------------------------
    @staticmethod
    def walk(doc):
        """-> (JSON tree, [(pos, Section)] in level order, [(pos, k, Property)], inconsistency or None)"""
        out = {"s": []}
        secs, props = [], []
        bad = None
        level = [((), doc, out["s"])]
        depth = 0
        while level and not bad:
            depth += 1
            nxt = []
            for ppos, parent, dst in level:
                for i, sec in enumerate(iter(parent.sections)):
                    pos = ppos + (i,)
                    node = {"n": sec.name, "t": sec.type, "p": [], "s": []}
                    if sec.parent is not parent:
                        bad = "child list and parent of Section %s disagree" % (pos,)
                    if not isinstance(node["n"], str) or not isinstance(node["t"], str):
                        bad = "name / type of Section %s is not a string" % (pos,)
                    for k, prop in enumerate(iter(sec.properties)):
                        vals = prop.values
                        if prop.parent is not sec:
                            bad = "child list and parent of Property %s:%d disagree" % (pos, k)
                        if not isinstance(prop.name, str) or not isinstance(vals, list) or \
                                not all(type(v) is int for v in vals):
                            bad = "name / values of Property %s:%d outside the harness' vocabulary" % (pos, k)
                        node["p"].append({"n": prop.name, "v": list(vals)})
                        props.append((pos, k, prop))
                    dst.append(node)
                    secs.append((pos, sec))
                    nxt.append((pos, sec, node["s"]))
            level = nxt
            if depth > 60 or len(secs) > 5000:
                bad = "tree too deep / too large (cycle?)"
        return out, secs, props, bad

    def _roundtrip(self, via, doc_json):
        """Write the Document and read it back (string or file entry points); the handles of the
        initial tree then name the objects of the loaded Document (matched position by position)."""
        fmt, how = via
        if not self.finalize_ok():
            raise Skip("links of the initial tree cannot be resolved finitely")
        try:
            loaded = self._write_read(fmt, how)
        except Exception as exc:
            raise Skip("the Document could not be written and read back: %s" % fw.exc_name(exc))
        old, osecs, _p, bad = self.walk(self.doc)
        new, nsecs, _p, bad2 = self.walk(loaded)
        if fmt == "RDF" and not bad and not bad2:
            # an RDF graph does not keep the order of the children: the handles are matched by path
            by_path = dict((sec.get_path(), sec) for _pos, sec in nsecs)
            if sorted(by_path) != sorted(sec.get_path() for _pos, sec in osecs) or len(by_path) != len(nsecs):
                raise Skip("the reader did not return the Sections that were written")
            for u, sec in list(self.objs.items()):
                if sec.get_path() in by_path and sec.document is self.doc:
                    self.objs[u] = by_path[sec.get_path()]
            self.doc = loaded
            return
        shape = lambda t: [shape(s) for s in t["s"]]
        if bad or bad2 or (not has_links(doc_json["s"]) and shape(old) != shape(new)):
            raise Skip("the reader did not return the tree that was written")
        by_pos = dict(nsecs)
        back = dict((id(sec), pos) for pos, sec in osecs)
        for u, sec in list(self.objs.items()):
            pos = back.get(id(sec))
            if pos in by_pos:
                self.objs[u] = by_pos[pos]
        self.doc = loaded

    def _write_read(self, fmt, how):
        from odml.tools.odmlparser import ODMLReader, ODMLWriter
        if fmt == "CLONE":
            loaded = self.doc.clone(keep_id=(how == "keep_id"))
        elif fmt == "RDF":
            if how == "string":
                loaded = ODMLReader("RDF", show_warnings=False).from_string(ODMLWriter("RDF").to_string(self.doc), "xml")
            else:
                fd, path = tempfile.mkstemp(prefix="c14_", suffix=".rdf")
                os.close(fd)
                try:
                    ODMLWriter("RDF").write_file(self.doc, path)
                    loaded = ODMLReader("RDF", show_warnings=False).from_file(path, "xml")
                finally:
                    if os.path.exists(path):
                        os.remove(path)
            if not isinstance(loaded, list) or len(loaded) != 1:
                raise Skip("the RDF reader did not return one Document")
            loaded = loaded[0]
        elif how == "string":
            text = ODMLWriter(fmt).to_string(self.doc)
            loaded = ODMLReader(fmt, show_warnings=False).from_string(text)
        else:
            fd, path = tempfile.mkstemp(prefix="c14_", suffix="." + fmt.lower())
            os.close(fd)
            try:
                self.odml.save(self.doc, path, fmt)
                loaded = self.odml.load(path, fmt, show_warnings=False)
            finally:
                if os.path.exists(path):
                    os.remove(path)
        return loaded

    # -- operations --------------------------------------------------------------
    def resolve(self, spec):
        obj = self.objs.get(spec["u"])
        if obj is None:
            raise Skip()
        for i in spec.get("d", []):
            kids = obj.sections
            if len(kids) == 0:
                break
            obj = kids[i % len(kids)]
        for _ in range(spec.get("up", 0)):
            obj = obj.parent                  # the holder of the object, whatever it is by now
            if obj is None:
                raise Skip()
        return obj

    def nth_prop(self, sec, k):
        props = getattr(sec, "properties", None)
        if not props:
            raise Skip()
        return props[k % len(props)]

    def name_arg(self, name):
        """A name given by reference (added after seeded round 5): {"idof": spec[, "k": n]} = the id of
        another object (a Section, or its n-th Property) used as a name, {"nameof": ...} = its name."""
        if not isinstance(name, dict):
            return name
        obj = self.resolve(name["idof"] if "idof" in name else name["nameof"])
        if "k" in name:
            obj = self.nth_prop(obj, name["k"])
        if obj is self.doc or obj is self.other:
            raise Skip()
        return obj.id if "idof" in name else obj.name

    def attach(self, obj, to, how, i, props=False, also=None, rawi=False):
        if how == "none":
            return                        # the object stays detached for now (a later move attaches it)
        if how == "setitem" and rawi:
            # the index as the caller gives it: negative, the last one, out of range (added after round 5)
            (to.properties if props else to.sections)[i] = obj
            return
        if how == "extend" and also is not None:
            # several objects in one call (one of them may be refused: nothing is added then)
            to.extend([obj, also] if i % 2 == 0 else [also, obj])
        elif how == "parent":
            obj.parent = to
        elif how == "append":
            to.append(obj)
        elif how == "insert":
            to.insert(i, obj)
        elif how == "extend":
            to.extend([obj])
        elif how == "setitem":
            lst = to.properties if props else to.sections
            if len(lst) == 0:
                to.append(obj)
            else:
                lst[i % len(lst)] = obj
        else:
            raise ValueError(how)

    @staticmethod
    def related(a, b):
        """a is b, or one is an ancestor of the other (parent chains)."""
        for x, y in ((a, b), (b, a)):
            node = x
            for _ in range(200):
                if node is y:
                    return True
                node = getattr(node, "parent", None)
                if node is None:
                    break
        return False

    def linking(self, root):
        """The Sections at or below root that carry a link or an include."""
        out = []
        todo = [root]
        while todo and len(out) < 50:
            node = todo.pop()
            if getattr(node, "link", None) is not None or getattr(node, "include", None) is not None:
                out.append(node)
            todo += list(iter(node.sections))
        return out

    def link_ok(self, sec, target):
        """Resolving links is only asked for where it is a finite affair: the target is neither the
        linking Section nor above / below it, and what gets copied carries no links itself (a link into
        the own ancestry makes Document.finalize / merge copy without end - not this property's topic)."""
        return (not self.related(sec, target) and not self.linking(target)
                and self.linking(sec) in ([], [sec]))

    def finalize_ok(self):
        for sec in self.linking(self.doc):
            if sec.include is not None:
                return False
            try:
                target = sec.get_section_by_path(sec.link)
            except Exception:
                continue                      # finalize raises there; part of the history
            if not self.link_ok(sec, target):
                return False
        return True

    def apply(self, op):
        odml = self.odml
        R = self.resolve
        k = op["op"]
        if k == "warm":
            return self.warm(op["k"])
        if k == "finalize":
            if not self.finalize_ok():
                raise Skip()
            return self.doc.finalize()
        x = R(op["x"]) if "x" in op else None
        if "to" in op:
            if op["to"] == "parent":
                to = x if k == "pmove" else x.parent      # the parent the moved object has already
            else:
                to = R(op["to"])
            if to is None:
                raise Skip()
        if k == "rename":
            x.name = self.name_arg(op["name"])
        elif k == "prename":
            self.nth_prop(x, op["k"]).name = self.name_arg(op["name"])
        elif k == "move":
            also = None
            if "y" in op:
                also = R(op["y"])
                if "yk" in op:
                    also = self.nth_prop(also, op["yk"])
            self.attach(x, to, op["how"], op.get("i", 0), also=also, rawi=op.get("rawi", False))
        elif k == "remove":
            if x.parent is None:
                raise Skip()
            if op["how"] == "remove":
                x.parent.remove(x)
            else:
                x.parent = None
        elif k == "new":
            kw = {"oid": R(op["idof"]).id} if "idof" in op else {}
            name = self.name_arg(op["name"])
            if op["how"] == "ctor":
                self.objs[op["u"]] = odml.Section(name=name, type=op["type"], parent=to, **kw)
            elif op["how"] == "create":
                self.objs[op["u"]] = to.create_section(name, op["type"], **kw)
            else:
                sec = odml.Section(name=name, type=op["type"], **kw)
                self.objs[op["u"]] = sec
                self.attach(sec, to, op["how"], op.get("i", 0), rawi=op.get("rawi", False))
        elif k == "newprop":
            vals = list(op["v"])
            name = self.name_arg(op["name"])
            kw = {}
            if "idof" in op:
                kw["oid"] = self.nth_prop(R(op["idof"]), op.get("idk", 0)).id
            if op["how"] == "ctor":
                odml.Property(name=name, values=vals, dtype="int" if vals else None, parent=to, **kw)
            elif op["how"] == "create":
                to.create_property(name, vals, "int" if vals else None, **kw)
            else:
                prop = odml.Property(name=name, values=vals, dtype="int" if vals else None, **kw)
                self.attach(prop, to, op["how"], op.get("i", 0), props=True, rawi=op.get("rawi", False))
        elif k == "pmove":
            self.attach(self.nth_prop(x, op["k"]), to, op["how"], op.get("i", 0), props=True,
                        rawi=op.get("rawi", False))
        elif k == "premove":
            prop = self.nth_prop(x, op["k"])
            if op["how"] == "remove":
                x.remove(prop)
            else:
                prop.parent = None
        elif k == "reorder":
            x.reorder(op["i"])
        elif k == "preorder":
            self.nth_prop(x, op["k"]).reorder(op["i"])
        elif k == "sort" and op.get("how") == "reverse":
            x.sections.reverse()
            if hasattr(x, "properties"):
                x.properties.reverse()
        elif k == "sort":
            x.sections.sort()
            if hasattr(x, "properties"):
                x.properties.sort(reverse=op.get("rev", False))
        elif k == "clone":
            c = x.clone(children=op["children"], keep_id=op["keep_id"])
            self.objs[op["u"]] = c
            if op.get("name") is not None:
                c.name = self.name_arg(op["name"])
            self.attach(c, to, op["how"], op.get("i", 0), rawi=op.get("rawi", False))
        elif k == "setid":
            x.new_id(R(op["idof"]).id)
        elif k == "link":
            tgt = R(op["tgt"])
            if not self.link_ok(x, tgt) or self.linking(self.doc) not in ([], [x]):
                raise Skip()
            x.link = tgt.get_path() if op["abs"] else x.get_relative_path(tgt)
        elif k == "clean":
            x.clean()
        elif k == "merge":
            x.merge(R(op["src"]), strict=False)
        elif k == "type":
            x.type = op["t"]
        elif k == "values":
            self.nth_prop(x, op["k"]).values = list(op["v"])
        elif k == "misuse":
            self.misuse(op["what"], x, to, R(op["y"]), op.get("k", 0))
        else:
            raise ValueError(k)

    def misuse(self, what, x, to, y, k):
        """(added after seeded round 6) Calls with an argument of the wrong kind; x: a Section of the
        Document, to: another holder, y: a Section `to` would accept. The library refuses (nearly) all of
        them; what the refusal leaves behind is judged by refused_check and `mid`."""
        prop = self.nth_prop(x, k) if len(x.properties) else None
        if what.startswith(("prop_", "doc_", "setitem_prop", "remove_absent_prop")) and prop is None:
            raise Skip()
        if what == "prop_parent_doc":
            prop.parent = self.doc
        elif what == "prop_parent_prop":
            prop.parent = self.nth_prop(x, k + 1)
        elif what == "sec_parent_prop":
            x.parent = prop if prop is not None else 5
        elif what == "sec_parent_str":
            x.parent = "abc"
        elif what == "doc_append_prop":
            self.doc.append(prop)
        elif what == "doc_insert_prop":
            self.doc.insert(0, prop)
        elif what == "prop_append_doc_child":
            self.doc.extend([y, prop])
        elif what == "append_int":
            to.append(5)
        elif what == "append_str":
            to.append(x.name)
        elif what == "append_list":
            to.append([y])
        elif what == "extend_mixed":
            to.extend([y, 5])
        elif what == "extend_mixed_first":
            to.extend(["abc", y])
        elif what == "extend_int":
            to.extend(5)
        elif what == "extend_twice":
            to.extend([y, y])
        elif what == "setitem_prop_in_sections":
            to.sections[0] = prop
        elif what == "setitem_sec_in_properties":
            x.properties[0] = y
        elif what == "setitem_by_name":
            to.sections[to.sections[0].name] = y
        elif what == "remove_absent":
            to.remove(y)
        elif what == "remove_absent_prop":
            to.remove(prop)
        elif what == "remove_int":
            to.remove(5)
        elif what == "reorder_far":
            x.reorder(99)
        elif what == "insert_no_index":
            to.insert(None, y)
        else:
            raise ValueError(what)

    # -- queries before / between the edits -----------------------------------------
    def warm(self, kinds):
        """Every kind of query the property names, on the objects that are edited afterwards.
        The results are not looked at (except by "mid"); an exception here is not a verdict."""
        for doc in (self.other, self.doc):
            _tree, secs, props, bad = self.walk(doc)
            if bad:
                if "mid" in kinds and len(self.mid) <= 3:
                    self.mid += self.graphcheck(doc, "after %d steps of the history, %s" % (
                        self.nsteps, "Document" if doc is self.doc else "second Document"))
                return "skip"
            self.warm_doc(doc, _tree, secs, props, kinds)
        return "ok"

    def warm_doc(self, doc, _tree, secs, props, kinds):
        for kind in kinds:
            if kind in ("mid", "detached") and doc is not self.doc:
                continue
            try:
                if kind == "paths":
                    [s.get_path() for _p, s in secs]
                    [p.get_path() for _p, _k, p in props]
                elif kind == "rel":
                    for _p, a in secs[:6]:
                        for _q, b in secs[-6:]:
                            a.get_relative_path(b)
                elif kind == "lookup":
                    for _p, s in secs[:40]:
                        doc.get_section_by_path(s.get_path())
                        (s.parent if s.parent is not None else doc).get_section_by_path(s.get_path())
                    for _p, _k, p in props[:40]:
                        doc.get_property_by_path(p.get_path())
                elif kind == "iter":
                    for start in [doc] + [s for _p, s in secs[:8]]:
                        list(start.itersections())
                        list(start.itersections(max_depth=1, yield_self=True))
                        list(start.iterproperties())
                        list(start.itervalues(max_depth=2))
                elif kind == "partial":
                    # iterators that are started and left suspended while the tree is edited
                    for start in [doc] + [s for _p, s in secs[:3]]:
                        for gen in (start.iterproperties(), start.itervalues(), start.itersections(),
                                    start.itersections(yield_self=True, max_depth=1)):
                            next(gen, None)
                            self.suspended.append(gen)
                elif kind == "find":
                    for start in [doc] + [s for _p, s in secs[:8]]:
                        for key, typ in ((None, None), ("a", None), ("ab", None), (None, "t"), (None, "stim")):
                            start.find(key=key, type=typ)
                            start.find(key=key, type=typ, findAll=True, include_subtype=True)
                            if start is not doc:
                                start.find_related(key=key, type=typ)
                                start.find_related(key=key, type=typ, findAll=True)
                        # ... and for the types the tree holds, as stored and in other cases (added after
                        # seeded round 4: the same type is asked for before and after an edit)
                        for _p, sec in secs[:4]:
                            if isinstance(sec.type, str):
                                for typ in [sec.type] + case_variants(sec.type)[:2]:
                                    start.find(type=typ)
                                    start.find(type=typ, findAll=True, include_subtype=True)
                                    if start is not doc:
                                        start.find_related(type=typ, findAll=True)
                elif kind == "validate":
                    if len(secs) <= 60:
                        doc.validate()
                elif kind == "detached":
                    # objects that are (or were) outside the Document: they come back by a later move
                    for u, obj in sorted(self.objs.items()):
                        if u > 0:
                            obj.get_path()
                            list(obj.itersections(yield_self=True))
                            [p.get_path() for p in obj.properties]
                elif kind == "mid":
                    self.midcheck(secs, props, _tree)
            except Exception:
                pass

    def midcheck(self, secs, props, tree):
        """The property at an intermediate state of the history (oracle level, no model):
        absolute paths from the Document and from the parent, and the full traversals."""
        if len(secs) > 40 or len(self.mid) > 3:
            return
        doc = self.doc
        step = self.nsteps
        if not path_safe(tree["s"]):
            self.mid += namecheck(doc, tree, secs, props, "after %d steps of the history, Document" % step)
            return
        for pos, sec in secs:
            for frm in (doc, sec.parent, sec):
                try:
                    path = sec.get_path()
                    got = frm.get_section_by_path(path)
                except Exception as exc:
                    got = exc
                if got is not sec:
                    self.mid.append("after %d steps of the history: path %r of Section %s does not lead back "
                                    "to it (%s)" % (step, path, list(pos), type(got).__name__))
                    return
        for pos, k, prop in props:
            try:
                path = prop.get_path()
                got = doc.get_property_by_path(path)
            except Exception as exc:
                got = exc
            if got is not prop:
                self.mid.append("after %d steps of the history: path %r of Property %s:%d does not lead "
                                "back to it (%s)" % (step, path, list(pos), k, type(got).__name__))
                return
        got = list(doc.itersections())
        if sorted(id(s) for s in got) != sorted(id(s) for _p, s in secs):
            self.mid.append("after %d steps of the history: Document.itersections() yields %d Sections, "
                            "the child lists hold %d" % (step, len(got), len(secs)))
        got = list(doc.iterproperties())
        if sorted(id(p) for p in got) != sorted(id(p) for _p, _k, p in props):
            self.mid.append("after %d steps of the history: Document.iterproperties() yields %d Properties, "
                            "the child lists hold %d" % (step, len(got), len(props)))
        got = list(doc.itervalues())
        if sorted(map(repr, got)) != sorted(repr(p.values) for _p, _k, p in props):
            self.mid.append("after %d steps of the history: Document.itervalues() yields %d value lists, "
                            "the child lists hold %d" % (step, len(got), len(props)))


def collect(roots, secs, props):
    """Adds every Section / Property that is reachable through child lists from the roots to the
    registries id -> object (identity, not equality)."""
    todo, seen = list(roots), set()
    while todo and len(seen) < 5000:
        node = todo.pop()
        if id(node) in seen:
            continue
        seen.add(id(node))
        if hasattr(node, "properties"):
            secs.setdefault(id(node), node)
            for prop in iter(node.properties):
                props.setdefault(id(prop), prop)
        todo += list(iter(node.sections))


def firm_members(docs):
    """id -> (object, Document) for every Section / Property that is OF one of the Documents under every
    reading: reached from the Document through child lists, every step confirmed by the parent reference."""
    out = {}
    for doc in docs:
        todo = [doc]
        while todo and len(out) < 3000:
            node = todo.pop()
            for sec in iter(node.sections):
                if sec.parent is node and id(sec) not in out:
                    out[id(sec)] = (sec, doc)
                    todo.append(sec)
                    for prop in iter(sec.properties):
                        if prop.parent is sec:
                            out.setdefault(id(prop), (prop, doc))
    return out


def refused_check(docs, before, label):
    """
    (added after seeded round 6) The state a REFUSED call leaves behind. `before`: the Sections and
    Properties that were of a Document under every reading (child list and parent reference agree all the
    way up) right before a call of the public API that ended in an exception. A refused call is not an
    edit: the caller gets the exception and goes on using the Document, so what was of the Document under
    every reading still is - the weaker-reading rule of two_readings (which applies where the history gives
    no hint which of child list and parent reference defines "of a document") does not excuse it. For
    every such object that is afterwards of a Document by only ONE of the two - it names a parent chain
    that ends in the Document but is in no child list there, or it sits in a child list but names another
    parent - the first clauses of the property are evaluated as they stand: the Document's traversal
    yields it exactly once, and its get_path(), looked up from the Document, is that very object.
    An object that is afterwards of no Document under either reading is not judged (whether a refused
    call may drop an object altogether is C03/C04's question), nor is one that is still (or again, in
    another place) a child by both. On the unchanged tree child lists and parent references agree after
    every call, accepted or refused, so the clause never fires there.
    """
    reach = {}
    for doc in docs:
        ids, todo, n = {}, [doc], 0
        while todo and n < 5000:
            node = todo.pop()
            n += 1
            for sec in iter(node.sections):
                if id(sec) not in ids:
                    ids[id(sec)] = node
                    todo.append(sec)
                    for prop in iter(sec.properties):
                        ids.setdefault(id(prop), sec)
        reach[id(doc)] = ids

    def end_of_chain(obj):
        node = obj
        for _ in range(300):
            node = getattr(node, "parent", None)
            if node is None:
                return None
            for doc in docs:
                if node is doc:
                    return doc
        return None
    out = []
    for oid in sorted(before, key=lambda i: 0 if hasattr(before[i][0], "sections") else 1):
        obj, _doc = before[oid]
        is_sec = hasattr(obj, "sections")
        pdoc = end_of_chain(obj)
        ldocs = [doc for doc in docs if oid in reach[id(doc)]]
        if pdoc is not None and reach[id(pdoc)].get(oid) is obj.parent:
            continue                                  # a child by both, there or elsewhere
        if pdoc is None and not ldocs:
            continue                                  # of no Document any more: not this property's topic
        doc = pdoc if pdoc is not None else ldocs[0]
        what = "Section" if is_sec else "Property"
        how = ("names a parent chain that ends in the Document but is in no child list below it"
               if pdoc is not None and pdoc not in ldocs else
               "sits in a child list below the Document but names %s as its parent"
               % ("no object" if obj.parent is None else "another object"))
        try:
            got = list(doc.itersections() if is_sec else doc.iterproperties())
            count = sum(1 for g in got if g is obj)
        except Exception as exc:
            count = type(exc).__name__
        path, res = "?", None
        try:
            path = obj.get_path()
            res = doc.get_section_by_path(path) if is_sec else doc.get_property_by_path(path)
        except Exception as exc:
            res = exc
        if count == 1 and res is obj:
            continue
        # names outside the quantifier excuse the path, not the traversal
        names_ok = True
        node = obj
        for _ in range(300):
            if node is None or any(node is d for d in docs):
                break
            names_ok = names_ok and isinstance(node.name, str) and plain(node.name)
            node = getattr(node, "parent", None)
        if count == 1 and not names_ok:
            continue
        out.append("%s: %s %r was of the Document by child list and parent reference before the call; the "
                   "call was refused, and now it %s: the traversal from the Document yields it %s times, its "
                   "path %r looked up from the Document gives %s"
                   % (label, what, obj, how, count, path,
                      "that object" if res is obj else
                      (type(res).__name__ if isinstance(res, Exception) else "another object: %r" % (res,))))
        break
    return out


def all_plain(secs):
    """Every name of the JSON forest is inside the property's quantifier taken by itself."""
    return all(isinstance(s["n"], str) and plain(s["n"]) and all(isinstance(p["n"], str) and plain(p["n"])
               for p in s["p"]) and all_plain(s["s"]) for s in secs)


def namecheck(doc, tree, secs, props, label):
    """
    (added after seeded round 5) The child lists are a tree, every name is inside the quantifier (free of
    '/' and ':', not '.', '..', not empty) - but two siblings carry the same name. The quantifier of the
    property does not exclude that (the library itself is meant to: append / insert / the name setters
    refuse a taken name), so the first clause of the property is evaluated as it stands, on the objects:
    the path of every Section / Property, looked up from the Document and from its parent, is that object.
    The position oracle and the model assume distinct sibling names and stay silent on such a tree.
    """
    if path_safe(tree["s"]) or not all_plain(tree["s"]) or len(secs) > 200:
        return []
    for pos, sec in secs:
        for frm in (doc, sec.parent):
            try:
                path = sec.get_path()
                got = frm.get_section_by_path(path)
            except Exception as exc:
                path, got = "?", exc
            if got is not sec:
                return ["%s: two siblings are called the same; the path %r of Section %s does not lead back to it "
                        "(%s)" % (label, path, list(pos), type(got).__name__ if isinstance(got, Exception)
                                  else "another Section")]
    for pos, k, prop in props:
        try:
            path = prop.get_path()
            got = doc.get_property_by_path(path)
        except Exception as exc:
            path, got = "?", exc
        if got is not prop:
            return ["%s: two siblings are called the same; the path %r of Property %s:%d does not lead back to it "
                    "(%s)" % (label, path, list(pos), k, type(got).__name__ if isinstance(got, Exception)
                              else "another Property")]
    return []


def two_readings(doc, label, secs, holders, props, pholders, known):
    """
    (added after seeded round 5) Child lists and parent references disagree: a Section / Property sits in
    a child list below the Document but names another parent (or none), or names a parent below the
    Document without being in its child list. "The Sections and Properties of a document" then has two
    readings - L: what the child lists hold, P: what the parent references lead to the Document - and the
    property does not choose (which of them is right is C03/C04's question). The WEAKER reading is taken:
    a failure is reported only if the property fails under L AND under P:
      L  Document.itersections() / iterproperties() yield exactly the objects of the child lists once each
         and the path of each of them, looked up from the Document, is that object;
      P  the same for the known objects whose parent chain ends in the Document.
    known: every Section / Property the history has had in a child list at some time (identity).
    """
    ksecs, kprops = known
    firm = lambda obj, hold: any(obj.parent is h for h in hold.get(id(obj), []))

    def chain_ends_in_doc(sec):
        node = sec
        for _ in range(300):
            node = getattr(node, "parent", None)
            if node is doc:
                return True
            if node is None:
                return False
        return False
    psecs = [s for s in ksecs.values() if chain_ends_in_doc(s)]
    pids = set(id(s) for s in psecs)
    pprops = [p for p in kprops.values() if p.parent is not None and id(p.parent) in pids]
    lids, lpids = set(id(s) for s in secs), set(id(p) for p in props)
    loose = [x for x in secs if not firm(x, holders)] + [x for x in props if not firm(x, pholders)]
    stray = [x for x in psecs if id(x) not in lids] + [x for x in pprops if id(x) not in lpids]
    if not loose and not stray:
        return []
    got_s, got_p = list(doc.itersections()), list(doc.iterproperties())

    def reading(name, rsecs, rprops):
        for what, got, want in (("itersections", got_s, rsecs), ("iterproperties", got_p, rprops)):
            if sorted(id(x) for x in got) != sorted(id(x) for x in want):
                missing = [x for x in want if not any(x is g for g in got)]
                extra = [x for x in got if not any(x is w for w in want)]
                return "Document.%s() yields %d objects, the %s hold %d%s%s" % (
                    what, len(got), name, len(want), "; not yielded: %r" % missing[0] if missing else "",
                    "; yielded: %r" % extra[0] if extra else "")
        groups = {}
        for s in rsecs:
            groups.setdefault(id(s.parent) if name != "child lists" else id(holders[id(s)][0]), []).append(s.name)
        ok = all(isinstance(n, str) and plain(n) for ns in groups.values() for n in ns) and \
            all(len(set(ns)) == len(ns) for ns in groups.values())
        if ok and len(rsecs) <= 80:
            for s in rsecs:
                path = "?"
                try:
                    path = s.get_path()
                    got = doc.get_section_by_path(path)
                except Exception as exc:
                    got = exc
                if got is not s:
                    return "the path %r of %r, looked up from the Document, gives %s" % (
                        path, s, type(got).__name__ if isinstance(got, Exception) else repr(got))
            for p in rprops[:80]:
                path = "?"
                try:
                    path = p.get_path()
                    got = doc.get_property_by_path(path)
                except Exception as exc:
                    got = exc
                if got is not p:
                    return "the path %r of %r, looked up from the Document, gives %s" % (
                        path, p, type(got).__name__ if isinstance(got, Exception) else repr(got))
        return None
    fail_l = reading("child lists", secs, props)
    fail_p = reading("parent references", psecs, pprops)
    if fail_l and fail_p:
        return ["%s: child lists and parent references disagree (%r), and the property holds under neither: "
                "taking the child lists, %s; taking the parent references, %s"
                % (label, (loose + stray)[0], fail_l, fail_p)]
    return []


def graphcheck(doc, label, known=None):
    """
    The property read on OBJECTS (identity), for a state in which the child lists are not known to be a
    tree - a Section found in two child lists, a parent reference that names another holder. There are
    no positions then, so neither the model nor the position oracle applies; what the property says
    under every reading still does:
      * a traversal yields no object twice ("exactly once") and nothing that is in no child list below
        the start;
      * an object that is a child by the child list AND by its parent reference is yielded;
      * the path of such a Section, looked up from the Document, is that Section (names inside the
        quantifier, sibling names distinct).
    A child list that leads back to one of its own ancestors is not judged here (no traversal ends).
    """
    secs, holders = [], {}
    level, seen = [doc], set([id(doc)])
    edges = {}
    while level:
        nxt = []
        for node in level:
            kids = list(iter(node.sections))
            edges[id(node)] = kids
            for sec in kids:
                holders.setdefault(id(sec), []).append(node)
                if id(sec) not in seen:
                    seen.add(id(sec))
                    secs.append(sec)
                    nxt.append(sec)
        level = nxt
        if len(secs) > 2000:
            return []
    # cycle?  (iterative depth first search with colours)
    colour = {}
    stack = [(doc, iter(edges[id(doc)]))]
    colour[id(doc)] = 1
    while stack:
        node, it = stack[-1]
        kid = next(it, None)
        if kid is None:
            colour[id(node)] = 2
            stack.pop()
        elif colour.get(id(kid)) == 1:
            return []
        elif colour.get(id(kid)) is None:
            colour[id(kid)] = 1
            stack.append((kid, iter(edges[id(kid)])))
    props, pholders = [], {}
    for sec in secs:
        for prop in iter(sec.properties):
            pholders.setdefault(id(prop), []).append(sec)
            if len(pholders[id(prop)]) == 1:
                props.append(prop)
    firm = lambda obj, hold: any(obj.parent is h for h in hold[id(obj)])
    out = []

    def judge(what, got, reached, hold):
        ids = [id(x) for x in got]
        known = set(id(x) for x in reached)
        if len(set(ids)) != len(ids):
            twice = [x for x in got if ids.count(id(x)) > 1][0]
            out.append("%s: %s yields %r %d times (each object below the start point exactly once)"
                       % (label, what, twice, ids.count(id(twice))))
        elif [i for i in ids if i not in known]:
            out.append("%s: %s yields an object that is in no child list below the start" % (label, what))
        else:
            lost = [x for x in reached if id(x) not in ids and firm(x, hold)]
            if lost:
                out.append("%s: %s does not yield %r, a child by child list and parent reference"
                           % (label, what, lost[0]))

    judge("Document.itersections()", list(doc.itersections()), secs, holders)
    judge("Document.iterproperties()", list(doc.iterproperties()), props, pholders)
    nvals = len(list(doc.itervalues()))
    if not out and nvals != len(props):
        out.append("%s: Document.itervalues() yields %d value lists, the child lists hold %d Properties"
                   % (label, nvals, len(props)))
    for start in secs[:30]:
        if len(out) > 3:
            break
        got = list(start.itersections(yield_self=True))
        if len(set(id(x) for x in got)) != len(got):
            out.append("%s: itersections(yield_self=True) started at %r yields a Section twice" % (label, start))
        got = list(start.iterproperties())
        if len(set(id(x) for x in got)) != len(got):
            out.append("%s: iterproperties() started at %r yields a Property twice" % (label, start))
    named = all(isinstance(s.name, str) and plain(s.name) for s in secs) and \
        all(len(set(k.name for k in kids)) == len(kids) for kids in edges.values())
    if named and len(secs) <= 60:
        for sec in secs:
            chain, node = True, sec
            for _ in range(len(secs) + 1):
                if node is doc or node is None:
                    break
                if not any(node.parent is h for h in holders.get(id(node), [])):
                    chain = False
                    break
                node = node.parent
            if not chain or node is not doc:
                continue
            try:
                path = sec.get_path()
                got = doc.get_section_by_path(path)
            except Exception as exc:
                path, got = "?", exc
            if got is not sec:
                out.append("%s: the path %r of %r, looked up from the Document, gives %s"
                           % (label, path, sec, type(got).__name__ if isinstance(got, Exception) else repr(got)))
                break
    if known is not None and not out:
        out += two_readings(doc, label, secs, holders, props, pholders, known)
    return out[:4]


def has_links(secs):
    return any(s.get("l") is not None or has_links(s["s"]) for s in secs)


def pack_answers(answers):
    """The answers of a tree case travel compressed: the framework keeps every observation of a run
    in memory (thorough: ~0.5 MB per exhaustively queried tree, 12 GB in all, which together with the
    model requests and answers got the run killed on a machine that other checks use as well)."""
    return base64.b64encode(zlib.compress(json.dumps(answers).encode("utf-8"), 6)).decode("ascii")


_ANS_CACHE = {}


def answers_of(obs):
    if "answers" in obs:
        return obs["answers"]
    hit = _ANS_CACHE.get(id(obs))
    if hit is not None and hit[0] is obs:
        return hit[1]
    ans = json.loads(zlib.decompress(base64.b64decode(obs["answers_z"])).decode("utf-8"))
    _ANS_CACHE.clear()
    _ANS_CACHE[id(obs)] = (obs, ans)
    return ans


def is_hist(case):
    return "ops" in case or "via" in case


_EFF_CACHE = {}


def eff_case(case, obs):
    """The case whose "doc" is the tree the queries talk about: the generated tree, or (stream hist)
    the tree read from the child lists after the history. None: the history was skipped."""
    if not is_hist(case):
        return case
    if not isinstance(obs, dict) or "doc" not in obs:
        return None
    hit = _EFF_CACHE.get(id(obs))
    if hit is not None and hit[0] is obs:
        return hit[1]
    dc = derived_case(case, obs["doc"])
    if len(_EFF_CACHE) > 4:
        _EFF_CACHE.clear()
    _EFF_CACHE[id(obs)] = (obs, dc)
    return dc


def derived_case(case, final):
    nsecs = len(sec_positions(final)[0])
    plan = case["plan"] if (case["plan"] != "all" or nsecs <= 6) else 1 + nsecs
    dc = {"stream": case["stream"], "h": path_safe(final["s"]), "plan": plan, "doc": final, "rawvals": True}
    if case.get("wide"):
        dc["wide"] = True
    return dc


def vals_at(doc, ans):
    """The value lists of the Properties [[pos, k], ...] (model answer of itervalues)."""
    out = []
    for pos, k in ans:
        node = {"s": doc["s"]}
        for i in pos:
            node = node["s"][i]
        out.append(list(node["p"][k]["v"]))
    return out


def norm_res(r):
    """Only ok-vs-raised is compared (the property names no exception class)."""
    if isinstance(r, dict) and "raised" in r:
        return {"raised": True}
    return r


def norm_answer(a):
    if isinstance(a, dict) and "res" in a:
        return {"path": a.get("path"), "res": norm_res(a["res"])}
    return norm_res(a)


# ----------------------------------------------------------------------------- oracle helpers
# What "comparisons are case-insensitive" (doc string of _matches) can mean for a letter outside ASCII.
# For ASCII text - everything the check generated before seeded round 4, and the non-ASCII types of
# round 3, which were only asked for as stored - the three agree, so nothing the oracle demanded before
# has changed. Where they disagree (sharp s vs SS, final sigma, dotted I, ligatures) the property text
# does not pick one: the WEAKER reading is taken, the answers of a case must be right under ONE of them
# (the same one for every find query of the case, and one for every find_related query).
READINGS = (("lower", str.lower), ("casefold", str.casefold), ("upper", str.upper))


def satisfies(sec_json, key, typ, sub=False, fold=str.lower):
    """Does a Section satisfy the requested name / type (the property's reading)?"""
    if sec_json is None:           # the Document has neither name nor type
        return key is None and typ is None
    if key is not None and sec_json["n"] != key:
        return False
    if typ is None:
        return True
    have = fold(sec_json["t"])
    want = fold(typ)
    return have == want or (sub and want in have.split("/")[:-1])


class C14(fw.Check):
    prop = "C14"
    lean_targets = ["OdmlModel.Props.C14"]
    obligations = ["C14." + t for t in [
        "abs_path_resolves", "abs_prop_path_resolves",
        "rel_path_spec", "rel_path_resolves", "rel_prop_path_resolves",
        "legacy_last_step_counterexample",
        "bfs_level_order", "itersections_bfs", "itersections_level_sorted", "itersections_nodup",
        "itersections_mem", "itersections_mem_document",
        "iterproperties_mem", "iterproperties_once_bfs", "itervalues_spec",
        "find_sound", "find_complete", "find_all_exact",
        "find_related_mem", "find_related_sound", "find_related_complete",
        "find_caseless", "find_type_as_stored", "find_related_caseless", "find_related_type_as_stored",
        "mixed_folding_counterexample",
        "set_name_keeps_distinct", "set_name_keeps_plain", "set_name_stores", "set_name_keeps_wf",
        "paths_resolve_after_set_name", "late_fallback_counterexample",
        "set_parent_refused_keeps", "set_parent_accepted_moves", "set_parent_consistent",
        "set_parent_keeps_distinct", "paths_resolve_after_set_parent", "contains_precheck_counterexample"]]
    trusted_base = [
        "Lean 4.33.0 kernel; axioms propext, Classical.choice, Quot.sound only (audited per theorem)",
        "hand-written model lean/OdmlModel/Model/Path.lean, Model/PathTree.lean, Model/PathName.lean, Model/PathMove.lean, Py/Posix.lean, "
        "tied to /repo and to the real posixpath by this correspondence run",
        "Driver/*.lean JSON glue; harness/framework.py, harness/c14.py",
    ]
    assumptions = [
        "the tree is rooted in a Document and well formed (C03/C04): the model is a pure tree",
        "sibling names pairwise distinct, non-empty, free of '/' and ':', not '.' or '..' (the property's quantifier)",
        "str.lower() is a parameter of the model (the find / find_related theorems hold for every function; "
        "find_caseless needs lower('') = '', the siblings clause of find_related_caseless idempotence); the "
        "driver uses ASCII lower-casing plus the table of real str.lower results sent with each case",
        "filter functions are pure (the model applies them after the walk)",
    ]
    rule = ("small: every ordered tree with <= N Sections (N=3 quick exhaustively + a sample of N=4,5; "
            "N=5 thorough exhaustively) over names {a,ab,abc,b}: every cur x target absolute lookup "
            "(Sections and Properties), every ordered pair for relative paths, every start node x "
            "max_depth in {None,-1,0..depth+1} x yield_self x filters for the three iterators, "
            "find/find_related over key/type/flag grids; big: random trees up to 200 Sections with "
            "sampled pairs; paths/weird: arbitrary path strings and unsafe names (correspondence only); "
            "posix: random strings through posixpath vs Py/Posix.lean; ids: trees whose Sections / "
            "Properties share ids; hist: the Document reaches its state through a history (constructors or "
            "a trip through the XML/JSON/YAML writer and reader or Document.clone, then 1-12 public API "
            "edits - rename, move, remove, insert, replace, reorder, sort, clone with/without keep_id, new_id, "
            "link/merge/clean/finalize, type/value edits, refused calls, moves to and from a second Document - "
            "with queries of every kind before and between the edits); the tree read from the child lists "
            "after the history is queried like a small/big tree and given to the model. "
            "twins (in hist): equal Sections at several places, objects moved between them by parent=, append, "
            "insert, extend, sections[i]=; a final state in which child lists and parent references disagree "
            "is judged on the objects (no traversal yields an object twice). names: confusable sibling names, "
            ">10 Properties / siblings; types: hierarchical types of every shape; case: types whose letters have "
            "several other-case forms (sharp s, sigma, dotted I, long s, ligatures, Cherokee, Kelvin sign, "
            "digraphs, Deseret, NFC/NFD) stored and requested in every spelling, built / edited by a history / "
            "read from XML, JSON, YAML (lone surrogates: oracle only); RDF "
            "round trips; find / find_related requests derived from the tree (names x types x findAll x "
            "include_subtype); calls by keyword, with defaults left out, by position. "
            "A case is non-trivial when the "
            "tree has at least two Sections (tree streams) or the function result is non-empty (posix); "
            "distinct = distinct canonical JSON of the case.")

    def extra_exhaustive(self, tier):
        return True

    # -- generation ----------------------------------------------------------
    def generate(self, tier, rng):
        cases = []
        uid = [0]
        nmax_all = 3 if tier == "quick" else 5
        for n in range(0, nmax_all + 1):
            for f in forests(n):
                cases.append({"stream": "small", "h": True, "plan": "all",
                              "doc": {"s": decorate(f, rng, uid)}})
                if n >= 5:
                    cases[-1]["lite"] = True
        if tier == "quick":
            for n, cnt in ((4, 120), (5, 160)):
                pool = forests(n)
                for _ in range(cnt):
                    cases.append({"stream": "small", "h": True, "plan": "all",
                                  "doc": {"s": decorate(rng.choice(pool), rng, uid)}})
        nbig = 12 if tier == "quick" else 300
        for i in range(nbig):
            n = rng.choice([6, 8, 12, 20, 40, 80, 150, 200]) if tier != "quick" else rng.choice([6, 10, 25, 60, 200])
            f = random_forest(rng, n, BIG_NAMES, rng.choice([2, 3, 6, 12]))
            cases.append({"stream": "big", "h": True, "plan": rng.randrange(1, 10 ** 9),
                          "doc": {"s": decorate(f, rng, uid, TYPES, PROP_NAMES + ["...", "a b", u"é"])}})
        # arbitrary path strings on small trees
        npaths = 150 if tier == "quick" else 3000
        # only path strings with non-empty steps: how empty steps / a trailing slash are treated is
        # not part of the property, a rewrite of the resolver may change it
        steps = ["a", "ab", "abc", "b", ".", "..", "zz", "a", "ab"]
        for i in range(npaths):
            n = rng.randrange(1, 6)
            f = rng.choice(forests(n))
            doc = {"s": decorate(f, rng, uid)}
            secs, _d = sec_positions(doc)
            paths = []
            for _ in range(12):
                cur = rng.choice([()] + [p for p, _ in secs])
                k = rng.randrange(1, 5)
                path = "/".join(rng.choice(steps) for _ in range(k))
                if rng.random() < 0.25:
                    path = "/" + path
                if rng.random() < 0.3:
                    path += rng.choice([":p", ":a", ":ab", ":zz"])
                paths.append([list(cur), path])
            cases.append({"stream": "paths", "h": True, "plan": "none", "doc": doc, "paths": paths})
        # names outside the quantifier
        nweird = 60 if tier == "quick" else 1500
        for i in range(nweird):
            f = random_forest(rng, rng.randrange(1, 7), WEIRD_NAMES, 3)
            doc = {"s": decorate(f, rng, uid, TYPES[:3], ["a", "a:b", "p/q", ".", ":"])}
            cases.append({"stream": "weird", "h": path_safe(doc["s"]), "plan": "all" if i % 3 == 0 else 7 + i,
                          "doc": doc})
        # posixpath
        nposix = 2500 if tier == "quick" else 60000
        alpha = ["a", "b", "ab", "/", "/", ".", "..", "//", "/./", "/../"]
        for i in range(nposix):
            def word(absolute=False, rng=rng):
                s = "".join(rng.choice(alpha) for _ in range(rng.randrange(0, 7)))
                return ("/" + s) if absolute else s
            f = rng.choice(["dirname", "normpath", "commonprefix", "relpath", "relative", "relative"])
            if f in ("dirname", "normpath"):
                cases.append({"stream": "posix", "f": f, "a": word(rng.random() < 0.5)})
            elif f == "commonprefix":
                a = word(True)
                b = a[:rng.randrange(0, len(a) + 1)] + word() if rng.random() < 0.6 else word(True)
                cases.append({"stream": "posix", "f": f, "a": a, "b": b})
            elif f == "relpath":
                a = word(True)
                b = a[:rng.randrange(1, len(a) + 1)] if rng.random() < 0.5 else word(True)
                cases.append({"stream": "posix", "f": f, "a": a, "b": b})
            else:
                # _get_relative_path on path-like strings: shared prefixes are the interesting part
                segs = lambda: [rng.choice(NAMES + ["...", ".a"]) for _ in range(rng.randrange(1, 5))]
                sa = segs()
                sb = sa[:rng.randrange(0, len(sa) + 1)] + (segs() if rng.random() < 0.6 else [])
                if not sb:
                    sb = segs()
                if True:      # only strings get_path() can return for path-safe names
                    cases.append({"stream": "posix", "f": f, "a": "/" + "/".join(sa), "b": "/" + "/".join(sb)})
        # ---- added after seeded round 2 (kept behind the older streams: they see the same rng) ----
        # objects sharing an id
        scale = 1 if tier == "quick" else 6
        pool = [f for n in (2, 3) for f in forests(n)]
        for f in (rng.sample(pool, 60) if tier == "quick" else pool):
            doc = {"s": decorate(f, rng, uid)}
            share_ids(rng, doc["s"])
            cases.append({"stream": "ids", "h": True, "plan": "all", "doc": doc})
        for i in range(30 * scale):
            doc = {"s": decorate(rng.choice(forests(rng.choice([4, 5]))), rng, uid)}
            share_ids(rng, doc["s"])
            cases.append({"stream": "ids", "h": True, "plan": "all", "doc": doc})
        for i in range(4 * scale):
            f = random_forest(rng, rng.choice([10, 30, 80]), BIG_NAMES, rng.choice([2, 3, 6, 12]))
            doc = {"s": decorate(f, rng, uid, TYPES, PROP_NAMES)}
            share_ids(rng, doc["s"])
            cases.append({"stream": "ids", "h": True, "plan": rng.randrange(1, 10 ** 9), "doc": doc})
        # deep trees (boundary of "large random trees": depth instead of width)
        for i in range(3 * scale):
            f = chain_forest(rng, rng.choice([30, 60, 120]), NAMES + ["c", "a b"])
            cases.append({"stream": "big", "h": True, "plan": rng.randrange(1, 10 ** 9),
                          "doc": {"s": decorate(f, rng, uid, TYPES, PROP_NAMES)}})
        # histories: every kind of operation after every kind of query ...
        small = lambda: rng.choice(forests(rng.choice([1, 2, 2, 3, 3, 3, 4, 4, 5])))
        for kind in OP_KINDS:
            for j in range(8 * scale):
                warm = [None, WARM_KINDS, WARM_KINDS + ["mid"], ["paths"], [rng.choice(WARM_KINDS)], []][j % 6]
                cases.append(hist_case(rng, uid, small(), [kind], warm, "all", links=kind in ("finalize", "clean"),
                                       ids=rng.random() < 0.15))
        # ... random longer histories ...
        for i in range(200 * scale):
            kinds = rng.choices(OP_KINDS, OP_WEIGHTS, k=rng.randrange(2, 9))
            cases.append(hist_case(rng, uid, small(), kinds, None, "all", links=rng.random() < 0.15,
                                   ids=rng.random() < 0.2))
        # ... on large trees ...
        for i in range(8 * scale):
            f = random_forest(rng, rng.choice([10, 25, 60, 120]), BIG_NAMES, rng.choice([2, 3, 6, 12]))
            kinds = rng.choices(OP_KINDS, OP_WEIGHTS, k=rng.randrange(2, 12))
            cases.append(hist_case(rng, uid, f, kinds, None, rng.randrange(1, 10 ** 9), big=True,
                                   ids=rng.random() < 0.3))
        # ... and on Documents that come out of a reader (string and file entry points)
        for i in range(48 * scale):
            via = (["XML", "JSON", "YAML", "CLONE"][i % 4], ["string", "file"][(i // 4) % 2])
            if via[0] == "CLONE":
                via = ("CLONE", ["keep_id", "new_id"][(i // 4) % 2])
            kinds = rng.choices(OP_KINDS, OP_WEIGHTS, k=rng.randrange(0, 5))
            cases.append(hist_case(rng, uid, small(), kinds, None, "all", via=via, links=rng.random() < 0.3,
                                   ids=via[1] == "string" and rng.random() < 0.4))
        # ---- added after seeded round 3 (again behind the older streams) ----
        # Documents that come out of the RDF reader (the order of the children is not the written one)
        for i in range(12 * scale):
            kinds = rng.choices(OP_KINDS, OP_WEIGHTS, k=rng.randrange(0, 4))
            cases.append(hist_case(rng, uid, small(), kinds, None, "all", via=("RDF", ["string", "file"][i % 2])))
        # histories on Documents that hold EQUAL Sections / Properties at several places
        for j in range(200 * scale):
            cases.append(twin_case(rng, uid, j))
        # sibling names that differ by case / white space / Unicode normalisation / spelling of a number
        # only, more than ten Properties in a Section, more than ten siblings with multi-digit names
        for i in range(48 * scale):
            groups = rng.sample(CONFUSABLE, rng.choice([1, 2]))
            names = [n for g in groups for n in g]
            f = random_forest(rng, rng.choice([2, 3, 4, 5, 6, 9, 14]), names, rng.choice([3, 6, 8]))
            doc = {"s": decorate(f, rng, uid, TYPES, names[:6])}
            nodes = [n for _p, n in json_nodes(doc["s"])]
            if i % 3 == 0 and nodes:
                node = rng.choice(nodes)
                have = [p["n"] for p in node["p"]]
                for pn in ["p%d" % k for k in range(1, rng.choice([10, 11, 14]))] + names:
                    if pn not in have:
                        uid[0] += 1
                        have.append(pn)
                        node["p"].append({"n": pn, "v": [uid[0]]})
            cases.append({"stream": "names", "h": True, "plan": "all" if len(nodes) <= 6 else rng.randrange(1, 10 ** 9),
                          "doc": doc})
        for i in range(4 * scale):
            names = [str(k) for k in range(0, 13)] + ["01", "010", "1.0", "100"]
            rng.shuffle(names)
            f = tuple((nm, random_forest(rng, rng.choice([0, 0, 2]), names, 3)) for nm in names[:rng.choice([10, 11, 15])])
            cases.append({"stream": "names", "h": True, "plan": rng.randrange(1, 10 ** 9),
                          "doc": {"s": decorate(f, rng, uid, TYPES, PROP_NAMES)}})
        # hierarchical types of every shape (repeated / empty / shared components, a component that is
        # the beginning of another one, white space); with letters outside ASCII the stream is
        # ORACLE ONLY (the model's str.lower() is ASCII)
        for i in range(60 * scale):
            ascii_only = i % 3 != 0
            pool = RICH_TYPES if ascii_only else RICH_TYPES + RICH_TYPES_U
            types = rng.sample(pool, rng.choice([2, 3, 5, 8]))
            f = random_forest(rng, rng.choice([2, 3, 4, 5, 6, 10]), NAMES + ["c", "d", "e", "A"], rng.choice([3, 4, 8]))
            doc = {"s": decorate(f, rng, uid, types, PROP_NAMES)}
            nsec = len(json_nodes(doc["s"]))
            case = {"stream": "types", "h": True, "plan": "all" if nsec <= 6 else rng.randrange(1, 10 ** 9),
                    "doc": doc}
            # (until seeded round 4 these cases were oracle only; the model now takes str.lower as a
            # parameter and gets the real one for the strings of the case)
            cases.append(case)
        # ---- added after seeded round 4 (again behind the older streams) ----
        # stream case: types whose letters have several "other cases" (see CASE_GROUPS), stored and
        # asked for in every spelling.
        # (1) every spelling on its own: the only Section of that type below its parent, or next to one
        #     other spelling of the same group - "find one if any exists" cannot be satisfied by a twin
        tiny = []
        for group in CASE_GROUPS:
            for n, t in enumerate(group):
                tiny.append([t])
                tiny.append([t, group[(n + 1 + rng.randrange(0, len(group) - 1)) % len(group)]])
        for t in CASE_TYPES_H:
            tiny.append([t])
        for n, ts in enumerate(tiny):
            kids = [{"n": NAMES[k], "t": t, "p": [], "s": []} for k, t in enumerate(ts)]
            if n % 2:
                kids[0]["s"] = decorate(((rng.choice(NAMES), ()),), rng, uid, ts)
            top = {"n": rng.choice(NAMES), "t": rng.choice(["t", ts[0]]), "p": [], "s": kids}
            doc = {"s": [top] if n % 3 else [top] + decorate((("b" if top["n"] != "b" else "a", ()),), rng, uid, ts)}
            cases.append({"stream": "case", "h": True, "plan": "all", "wide": True, "doc": doc})
        # (2) random trees over one or two groups, flat / as components of hierarchical types / next to
        #     ASCII types
        def case_pool():
            groups = rng.sample(CASE_GROUPS, rng.choice([1, 1, 2]))
            pool = [t for g in groups for t in g]
            mode = rng.randrange(0, 4)
            if mode == 1:
                pool = [t + "/" + rng.choice(["x", "X", u"L\xe4nge", t]) for t in pool[:4]] + \
                       [rng.choice(["stim", "x"]) + "/" + t for t in pool[:3]] + pool[:3]
            elif mode == 2:
                pool = rng.sample(CASE_TYPES_H, 6) + pool[:3]
            elif mode == 3:
                pool = pool + TYPES[:6]
            return rng.sample(pool, min(len(pool), rng.choice([1, 2, 3, 5, 8])))
        for i in range(60 * scale):
            f = random_forest(rng, rng.choice([1, 2, 3, 4, 5, 6, 6, 9, 14]), NAMES + ["c", "d", "e", "A"],
                              rng.choice([3, 4, 8]))
            doc = {"s": decorate(f, rng, uid, case_pool(), PROP_NAMES)}
            nsec = len(json_nodes(doc["s"]))
            cases.append({"stream": "case", "h": True, "wide": True, "doc": doc,
                          "plan": "all" if nsec <= 6 else rng.randrange(1, 10 ** 9)})
        # (3) the Document reaches such types through a history: type edits and new Sections between
        #     queries for the same types, Documents read back from XML / JSON / YAML strings and files
        for i in range(40 * scale):
            kinds = rng.choices(OP_KINDS, OP_WEIGHTS, k=rng.randrange(0, 4))
            kinds.insert(rng.randrange(0, len(kinds) + 1), "type")
            if i % 4 == 3:
                kinds.append(rng.choice(["new", "type", "clone"]))
            via = None
            if i % 2:
                via = (["XML", "JSON", "YAML"][(i // 2) % 3], ["string", "file"][(i // 6) % 2])
            case = hist_case(rng, uid, small(), kinds, [None, ["find"], WARM_KINDS][i % 3], "all", via=via,
                             typepool=case_pool())
            case["wide"] = True
            cases.append(case)
        # (4) lone surrogates in a type: ORACLE ONLY (they cannot travel to the Lean driver as JSON)
        for i in range(4 * scale):
            pool = rng.sample(SURROGATE_TYPES, 2) + rng.sample(rng.choice(CASE_GROUPS), 2) + ["t"]
            f = random_forest(rng, rng.choice([2, 3, 5]), NAMES, 3)
            cases.append({"stream": "case", "h": True, "plan": "all", "oracle_only": True,
                          "doc": {"s": decorate(f, rng, uid, pool, PROP_NAMES)}})
        # ---- added after seeded round 5 (again behind the older streams) ----
        scale = 1 if tier == "quick" else 3           # (the thorough tier is at its time budget already)
        # an object is attached to the parent it has already / assigned to a slot of its own child list
        for j in range(168 * scale):
            cases.append(own_case(rng, uid, j))
        # names that are ids: unnamed objects, siblings called like the id of another, names cleared again
        for j in range(144 * scale):
            cases.append(idname_case(rng, uid, j))
        # the name setters one call at a time, against Model/PathName.lean
        for j in range(240 * scale):
            cases.append(setname_case(rng, j))
        # random histories with the wider argument shapes (own parent as target, raw indices, empty names,
        # ids / names of other objects as names, initial trees with unnamed objects)
        for i in range(120 * scale):
            kinds = rng.choices(OP_KINDS, OP_WEIGHTS, k=rng.randrange(1, 8))
            via = None
            if i % 6 == 5:
                via = (["XML", "JSON", "YAML"][(i // 6) % 3], ["string", "file"][(i // 18) % 2])
            ids = rng.random() < 0.15 and (via is None or via[1] == "string")   # odml.save refuses repeated ids
            cases.append(hist_case(rng, uid, small(), kinds, None, "all", via=via, ids=ids, wide_ops=True))
        # ---- added after seeded round 6 (again behind the older streams) ----
        # calls the library has to refuse (the object clashed with varied along every attribute, cycles,
        # arguments of the wrong kind), judged right after the refusal
        for j in range(264 * scale):
            cases.append(refuse_case(rng, uid, j))
        # the parent setter one call at a time, against Model/PathMove.lean
        for j in range(180 * scale):
            cases.append(setparent_case(rng, j))
        return cases

    # -- implementation ------------------------------------------------------
    def impl(self, case):
        if case["stream"] == "posix":
            f, a = case["f"], case["a"]
            try:
                if f == "dirname":
                    return {"r": posixpath.dirname(a)}
                if f == "normpath":
                    return {"r": posixpath.normpath(a)}
                if f == "commonprefix":
                    return {"r": posixpath.commonprefix([a, case["b"]])}
                if f == "relpath":
                    return {"r": posixpath.relpath(a, case["b"])}
                if f == "relative":
                    try:
                        from odml.base import Sectionable
                        fn = Sectionable._get_relative_path
                    except (ImportError, AttributeError):
                        return {"skipped": "_get_relative_path not found"}
                    return {"r": fn(a, case["b"])}
            except Exception as exc:
                return {"raised": fw.exc_name(exc)}
            raise ValueError(f)
        if case["stream"] == "setname":
            return run_setname(case)
        if case["stream"] == "setparent":
            return run_setparent(case)
        if is_hist(case):
            try:
                im = HistImpl(case)
            except Skip as exc:
                return {"skipped": str(exc.args[0]) if exc.args else "",
                        "graph": list(exc.args[1]) if len(exc.args) > 1 else []}
            dc = derived_case(case, im.final)
            return {"answers_z": pack_answers([im.run(q, n) for n, q in enumerate(plan_queries(dc))]), "doc": im.final,
                    "log": im.log, "mid": im.mid, "graph": im.graph, "stopped": im.stopped}
        im = Impl(case["doc"])
        return {"answers_z": pack_answers([im.run(q, n) for n, q in enumerate(plan_queries(case))])}

    # -- model ---------------------------------------------------------------
    def model_requests(self, case, obs):
        if case["stream"] == "posix":
            if "skipped" in obs:
                return []
            req = {"op": "posix", "f": case["f"], "a": case["a"]}
            if "b" in case:
                req["b"] = case["b"]
            return [req]
        if case["stream"] == "setname":
            return [{"op": "setname", "sibs": c["before"], "i": c["i"], "oid": c["oid"], "new": c["new"]}
                    for c in obs.get("calls", [])
                    if all(isinstance(x, str) for x in c["before"] + [c["oid"]])]
        if case["stream"] == "setparent":
            return [{"op": "setparent", "old": c["old"], "new": c["new"], "i": c["i"], "below": c["below"]}
                    for c in obs.get("calls", [])]
        if case.get("oracle_only"):
            return []                         # outside the model's vocabulary: the oracle alone decides
        case = eff_case(case, obs)
        if case is None:
            return []
        qs = plan_queries(case)
        req = {"op": "tree", "doc": case["doc"], "qs": qs}
        strings = tree_types(case["doc"]["s"]) + [q["type"] for q in qs if q.get("type") is not None]
        table = lower_table(strings)
        if table:
            # str.lower is a parameter of the model; here: the real one, for the strings of this case
            req["lower"] = table
        if any(has_surrogates(x) for x in strings):
            return []                        # lone surrogates do not survive the JSON protocol
        return [req]

    def compare(self, case, obs, answers):
        if not answers:
            return []
        if case["stream"] == "setname":
            out = []
            for c, a in zip(obs.get("calls", []), answers):
                got = {"raised": True} if c["raised"] else {"ok": c["after"]}
                if got != a:
                    out.append("child %d of %s, name = %r (id %s): implementation %s, model %s"
                               % (c["i"], c["before"], c["new"], c["oid"], fw.canon(got), fw.canon(a)))
            return out
        if case["stream"] == "setparent":
            out = []
            for c, a in zip(obs.get("calls", []), answers):
                if c["after"] != a:
                    out.append("entry %d of %s, parent = the holder of %s (below=%s): implementation %s, model %s"
                               % (c["i"], c["old"], c["new"], c["below"], fw.canon(c["after"]), fw.canon(a)))
            return out
        if is_hist(case):
            case = eff_case(case, obs)
        if case["stream"] == "posix":
            if "raised" in obs:
                return ["%s(%r, %r) raised %s" % (case["f"], case["a"], case.get("b"), obs["raised"])]
            if obs["r"] != answers[0]:
                return ["%s(%r, %r): posixpath/implementation %r, model %r"
                        % (case["f"], case["a"], case.get("b"), obs["r"], answers[0])]
            return []
        out = []
        if answers[0][0] != case["h"]:
            out.append("model says well-formed/path-safe=%s, generator says %s" % (answers[0][0], case["h"]))
        impl_answers = answers_of(obs)
        if len(impl_answers) != len(answers[0]):
            return out + ["implementation answered %d queries, model %d" % (len(impl_answers), len(answers[0]))]
        qs = None
        for i in range(1, len(answers[0])):
            got, want = impl_answers[i], answers[0][i]
            if got != want and norm_answer(got) != norm_answer(want):
                if qs is None:
                    qs = plan_queries(case)
                if case.get("rawvals") and qs[i]["q"] == "iterval" and got == vals_at(case["doc"], want):
                    continue      # value lists observed by content: the model names their Properties
                if not case["h"] and qs[i]["q"] in ("abs", "absp", "relres", "relp", "sec", "prop"):
                    continue      # paths over names outside the property's quantifier are not compared
                out.append("%s: implementation %s, model %s" % (fw.canon(qs[i]), fw.canon(got), fw.canon(want)))
                if len(out) > 5:
                    break
        return out

    # -- oracle (the property over the public API, independent of the model) --
    def oracle(self, case, obs):
        if "harness_exception" in obs or case["stream"] == "posix":
            return []
        if case["stream"] == "setname":
            # independent of the model, and only what C14 says: whatever the assignments did (what a setter
            # stores and when it refuses is C04's topic; the correspondence with the model pins it), the
            # children are found by their paths and by the traversal afterwards - which two siblings of one
            # name cannot be
            out = []
            for c in obs.get("calls", []):
                if len(set(c["before"])) == len(c["before"]) and len(set(c["after"])) != len(c["after"]) \
                        and obs.get("lost"):
                    out.append("child %d of %s, name = %r (id %s): two siblings are called the same afterwards: %s"
                               % (c["i"], c["before"], c["new"], c["oid"], c["after"]))
            if obs.get("lost"):
                out.append("after the assignments the path of child %s does not lead back to it" % obs["lost"])
            if "seen" in obs and obs["seen"] != list(range(obs["n"])):
                out.append("after the assignments the traversal of the parent yields the children %s of %d"
                           % (obs["seen"], obs["n"]))
            return out
        if case["stream"] == "setparent":
            # independent of the model, and only what C14 says: whatever the calls did (refused or carried
            # out), every Section / Property that was of a Document is found by its path and by the traversal
            return ["after the calls %s object %d of %d %s" % (
                [(c["i"], c["old"], c["new"], "refused" if c["raised"] else "done") for c in obs.get("calls", [])],
                k, obs["n"], why) for k, why in obs.get("lost", [])]
        out = []
        if is_hist(case):
            out += obs.get("mid", [])        # the property at intermediate states of the history
            out += obs.get("graph", [])      # ... and on the objects, where there are no positions
            case = eff_case(case, obs)
            if case is None:
                return out
        if not case.get("h"):
            return out
        doc = case["doc"]
        secs, _depth = sec_positions(doc)
        byp = dict((tuple(p), s) for p, s in secs)

        def below(start, md, include_start):
            """positions of Sections at or below start, per level, limited by md"""
            start = tuple(start)
            if start == ():
                level = [(i,) for i in range(len(doc["s"]))]
                lv = 1
                levels = {0: []}
            else:
                level = [start]
                lv = 0
                levels = {}
            while level and (md is None or lv <= md):
                levels[lv] = level
                level = [p + (i,) for p in level for i in range(len(byp[p]["s"]))]
                lv += 1
            if not include_start:
                levels[0] = []
            return levels

        sec_ok = {"all": lambda s, f: True, "none": lambda s, f: False,
                  "name_has": lambda s, f: all(c in s["n"] for c in f["c"]),
                  "type_eq": lambda s, f: s["t"] == f["t"]}
        val_ok = {"all": lambda v, f: True, "none": lambda v, f: False,
                  "len_ge": lambda v, f: len(v) >= f["n"], "has": lambda v, f: f["n"] in v}

        tree_ascii = all(is_ascii(t) for t in tree_types(doc["s"]))
        by_reading = dict((k, dict((rname, []) for rname, _f in READINGS)) for k in ("find", "related"))
        for q, a in zip(plan_queries(case), answers_of(obs)):
            kind = q["q"]
            if kind in ("abs", "relres"):
                want = q["target"] if kind == "abs" else q["b"]
                frm = q["cur"] if kind == "abs" else q["a"]
                if a["res"] != {"ok": want}:
                    out.append("%s: path %r of Section %s looked up from %s gives %s"
                               % (kind, a["path"], want, frm, fw.canon(a["res"])))
            elif kind in ("absp", "relp"):
                want = [q["target"] if kind == "absp" else q["b"], q["k"]]
                frm = q["cur"] if kind == "absp" else q["a"]
                if a["res"] != {"ok": want}:
                    out.append("%s: path %r of Property %s looked up from %s gives %s"
                               % (kind, a["path"], want, frm, fw.canon(a["res"])))
            elif kind in ("itersec", "iterprop", "iterval") and q["md"] is not None and q["md"] < 0:
                pass            # a negative max_depth is outside the property's quantifier
            elif kind == "itersec":
                levels = below(q["start"], q["md"], q["ys"])
                want = [p for lv in sorted(levels) for p in levels[lv] if sec_ok[q["f"]["k"]](byp[p], q["f"])]
                got = [tuple(x) if isinstance(x, list) else x for x in a]
                if sorted(map(repr, got)) != sorted(map(repr, want)):
                    out.append("itersections%s yields %s, the Sections below the start within the depth are %s"
                               % (fw.canon(q), got, want))
                elif [len(x) for x in got] != sorted(len(x) for x in got):
                    out.append("itersections%s is not breadth first: %s" % (fw.canon(q), got))
            elif kind in ("iterprop", "iterval"):
                levels = below(q["start"], q["md"], True)
                want = []
                for lv in sorted(levels):
                    for p in levels[lv]:
                        for k, pr in enumerate(byp[p]["p"]):
                            ok = sec_ok[q["f"]["k"]](pr, q["f"]) if kind == "iterprop" else \
                                val_ok[q["f"]["k"]](pr["v"], q["f"])
                            if ok:
                                want.append((p, k))
                if kind == "iterval" and case.get("rawvals"):
                    # value lists observed by content (equal lists in clones / merged Sections):
                    # the multiset must be right, and some assignment must be breadth first
                    queues = {}
                    for p, k in want:
                        queues.setdefault(repr(byp[p]["p"][k]["v"]), []).append(len(p))
                    if sorted(map(repr, a)) != sorted(repr(byp[p]["p"][k]["v"]) for p, k in want):
                        out.append("itervalues%s yields %s, expected exactly once each the value lists of %s"
                                   % (fw.canon(q), a, want))
                    else:
                        depths = [queues[repr(v)].pop(0) for v in a]
                        if depths != sorted(depths):
                            out.append("itervalues%s is not breadth first: %s" % (fw.canon(q), a))
                    continue
                got = [(tuple(x[0]), x[1]) if isinstance(x, list) else x for x in a]
                if sorted(map(repr, got)) != sorted(map(repr, want)):
                    out.append("%s%s yields %s, expected exactly once each of %s" % (kind, fw.canon(q), got, want))
                elif [len(x[0]) for x in got] != sorted(len(x[0]) for x in got):
                    out.append("%s%s is not breadth first: %s" % (kind, fw.canon(q), got))
            elif kind in ("find", "related"):
                cur = tuple(q["cur"])
                kids = lambda p: [p + (i,) for i in range(len((byp[p]["s"] if p else doc["s"])))]
                if kind == "find":
                    scope = kids(cur)
                    sub = q["sub"]
                else:
                    sub = False
                    scope = []
                    if q["children"]:
                        if q["recursive"]:
                            scope += [p for p in byp if len(p) > len(cur) and p[:len(cur)] == cur]
                        else:
                            scope += kids(cur)
                    if q["siblings"] and cur:
                        scope += kids(cur[:-1])
                    if q["parents"] and cur:
                        scope += [cur[:k] for k in range(len(cur))] if q["recursive"] else [cur[:-1]]
                if a is None:
                    ret = []
                elif "one" in a:
                    ret = [a["one"]]
                else:
                    ret = a["many"]
                    if not ret:
                        out.append("%s%s returned an empty list" % (kind, fw.canon(q)))
                plain_case = tree_ascii and (q["type"] is None or is_ascii(q["type"]))
                verdict = None
                for n, (rname, fold) in enumerate(READINGS):
                    if n == 0 or not plain_case:     # ASCII: the readings agree, one evaluation
                        verdict = None
                        good = [p for p in scope if satisfies(byp.get(p), q["key"], q["type"], sub, fold)]
                        for r in ret:
                            if not isinstance(r, list) or tuple(r) not in good:
                                verdict = ("%s%s returned %s which does not satisfy the request within the relation"
                                           % (kind, fw.canon(q), r))
                                break
                        if verdict is None and good and not ret:
                            verdict = ("%s%s found nothing although %s satisfies the request"
                                       % (kind, fw.canon(q), good[0]))
                    if verdict is None and plain_case:
                        break
                    if verdict is not None and len(by_reading[kind][rname]) < 5:
                        by_reading[kind][rname].append(verdict if plain_case else
                                                       verdict + " (types compared after str.%s)" % rname)
            if len(out) + max(len(by_reading[k]["lower"]) for k in by_reading) > 8:
                break
        for kind in ("find", "related"):
            # a failure only if no reading of "case-insensitive" makes all answers of the case right
            if all(by_reading[kind][rname] for rname, _f in READINGS):
                out += by_reading[kind]["lower"]
        return out

    def tag(self, case, obs):
        if case["stream"] == "posix":
            return ("posix:" + case["f"], bool(obs.get("r")))
        if case["stream"] == "setname":
            return ("setname:" + case["kind"], any(not c["raised"] and c["after"] != c["before"]
                                                    for c in obs.get("calls", [])))
        if case["stream"] == "setparent":
            return ("setparent:" + case["kind"], any(c["raised"] for c in obs.get("calls", [])))
        case0, case = case, eff_case(case, obs)
        if case is None:
            return (case0["stream"] + ":skipped", False)
        secs, depth = sec_positions(case["doc"])
        return ("%s:n=%s" % (case["stream"], len(secs) if len(secs) < 6 else "6+"), len(secs) >= 2)


if __name__ == "__main__":
    sys.exit(fw.main(C14(), sys.argv[1:]))
