# -*- coding: utf-8 -*-
"""
C14 - Paths address exactly one object and traversals enumerate exactly the tree.

Tie between lean/OdmlModel/Model/Path.lean (+ Py/Posix.lean, Model/PathTree.lean) and /repo.
Objects are identified by positions (index paths from the Document) on both sides.

Streams
  small   every tree with <= N Sections over the names {a, ab, abc, b} (names that are prefixes
          of one another), every (start, target) pair, every start node, max_depth in
          {None, -1, 0 .. depth+1}
  big     random trees up to ~200 Sections, sampled pairs / starts
  paths   path strings with ., .. and unknown names at any position, absolute or relative
          - correspondence only
  weird   trees whose names are outside the property's quantifier (contain / or :, are . or ..)
          - correspondence of the traversals and find only (path results are not compared)
  posix   Py/Posix.lean against the real posixpath (commonprefix, dirname, normpath, relpath)
          and Sectionable._get_relative_path on arbitrary absolute strings
"""
import functools
import posixpath
import sys

import framework as fw

NAMES = ["a", "ab", "abc", "b"]
BIG_NAMES = NAMES + ["abcd", "ba", "bb", "c", "...", ".a", "a.", "a b", u"é", "-", "a-b", "..b",
                     "A", "aB", "x1", "x2", "x3", "x4", "x5", "x6", "x7", "x8"]
WEIRD_NAMES = ["a", "ab", ".", "..", "a/b", "a:b", "/", ":", "b/", ":a", "a/..", "./a"]
TYPES = ["t", "T", "stim/white", "Stim", "stim", "stim/white/x", "a/b", "n.s.", ""]
PROP_NAMES = ["a", "ab", "p", "b"]


# ----------------------------------------------------------------------------- tree enumeration
@functools.lru_cache(None)
def forests(n):
    """All ordered forests with n Sections, sibling names pairwise distinct, names from NAMES."""
    if n == 0:
        return [()]
    out = []
    for k in range(1, n + 1):
        for sub in forests(k - 1):
            for rest in forests(n - k):
                if len(rest) >= len(NAMES):
                    continue
                used = set(t[0] for t in rest)
                for nm in NAMES:
                    if nm not in used:
                        out.append(((nm, sub),) + rest)
    return out


def decorate(forest, rng, uid, types=TYPES[:6], pnames=PROP_NAMES):
    """(name, subforest) tuples -> JSON sections with types and Properties."""
    out = []
    for name, sub in forest:
        props = []
        k = rng.choice([0, 0, 1, 1, 2, 3])
        for pn in rng.sample(pnames, min(k, len(pnames))):
            uid[0] += 1
            props.append({"n": pn, "v": [uid[0]] + [rng.randrange(0, 4) - 10 for _ in range(rng.randrange(0, 3))]})
        out.append({"n": name, "t": rng.choice(types), "p": props, "s": decorate(sub, rng, uid, types, pnames)})
    return out


def random_forest(rng, n, names, maxkids):
    """Random forest with n Sections: attach each new Section below a random existing node."""
    root = []
    nodes = [root]
    for _ in range(n):
        for _try in range(20):
            kids = rng.choice(nodes)
            if len(kids) < maxkids:
                break
        free = [x for x in names if x not in [k[0] for k in kids]]
        if not free:
            continue
        sub = []
        kids.append((rng.choice(free), sub))
        nodes.append(sub)

    def freeze(l):
        return tuple((nm, freeze(s)) for nm, s in l)
    return freeze(root)


def plain(name):
    return name != "" and "/" not in name and ":" not in name and name not in (".", "..")


def path_safe(secs):
    """The property's quantifier (re-checked against the Lean predicate `Doc.wf` on every case)."""
    names = [s["n"] for s in secs]
    if len(set(names)) != len(names) or not all(plain(n) for n in names):
        return False
    for s in secs:
        pn = [p["n"] for p in s["p"]]
        if len(set(pn)) != len(pn) or not all(plain(n) for n in pn):
            return False
        if not path_safe(s["s"]):
            return False
    return True


# ----------------------------------------------------------------------------- positions
def sec_positions(doc):
    """All Section positions of a JSON tree in level order, with depth of the tree."""
    out = []
    level = [((i,), s) for i, s in enumerate(doc["s"])]
    depth = 0
    while level:
        depth += 1
        out += level
        level = [(p + (i,), c) for p, s in level for i, c in enumerate(s["s"])]
    return out, depth


_PLAN_CACHE = {}


def plan_queries(case):
    """The queries of a tree case (driver format). Deterministic in the case (cached per object)."""
    hit = _PLAN_CACHE.get(id(case))
    if hit is not None and hit[0] is case:
        return hit[1]
    qs = _plan_queries(case)
    if len(_PLAN_CACHE) > 4:
        _PLAN_CACHE.clear()
    _PLAN_CACHE[id(case)] = (case, qs)
    return qs


def _plan_queries(case):
    doc = case["doc"]
    plan = case["plan"]
    secs, depth = sec_positions(doc)
    qs = [{"q": "wf"}]
    if plan == "all":
        starts = [()] + [p for p, _ in secs]
        pairs = [(a, b) for a, _ in secs for b, _ in secs]
        curs = starts
        targets = secs
        mds = [None, -1] + list(range(0, depth + 2))
    else:
        import random
        rng = random.Random(plan)
        allpos = [()] + [p for p, _ in secs]
        starts = [()] + [rng.choice(allpos) for _ in range(5)]
        pairs = [(rng.choice(secs)[0], rng.choice(secs)[0]) for _ in range(40)] if secs else []
        # ancestors / self / siblings are the delicate pairs: add them on purpose
        for _ in range(12):
            if not secs:
                break
            a = rng.choice(secs)[0]
            pairs.append((a, a[:rng.randrange(1, len(a) + 1)]))
            pairs.append((a[:rng.randrange(1, len(a) + 1)], a))
            sib = a[:-1] + (rng.randrange(0, a[-1] + 1),)
            pairs.append((a, sib))
        curs = [()] + [rng.choice(allpos) for _ in range(4)]
        targets = [rng.choice(secs) for _ in range(12)] if secs else []
        mds = [None, -1, 0, 1, 2, rng.randrange(0, depth + 2), depth, depth + 1]
    for cur in curs:
        for tp, ts in targets:
            qs.append({"q": "abs", "cur": list(cur), "target": list(tp)})
            for k in range(len(ts["p"])):
                qs.append({"q": "absp", "cur": list(cur), "target": list(tp), "k": k})
    byp = dict(secs)
    for a, b in pairs:
        qs.append({"q": "relres", "a": list(a), "b": list(b)})
        for k in range(len(byp[b]["p"])):
            qs.append({"q": "relp", "a": list(a), "b": list(b), "k": k})
    for st in starts:
        for md in mds:
            for ys in (False, True):
                qs.append({"q": "itersec", "start": list(st), "md": md, "ys": ys, "f": {"k": "all"}})
            qs.append({"q": "itersec", "start": list(st), "md": md, "ys": True, "f": {"k": "name_has", "c": "b"}})
            qs.append({"q": "iterprop", "start": list(st), "md": md, "f": {"k": "all"}})
            qs.append({"q": "iterprop", "start": list(st), "md": md, "f": {"k": "name_has", "c": "a"}})
            qs.append({"q": "iterval", "start": list(st), "md": md, "f": {"k": "all"}})
            qs.append({"q": "iterval", "start": list(st), "md": md, "f": {"k": "len_ge", "n": 2}})
        qs.append({"q": "itersec", "start": list(st), "md": None, "ys": False, "f": {"k": "type_eq", "t": "t"}})
        qs.append({"q": "itersec", "start": list(st), "md": 1, "ys": True, "f": {"k": "none"}})
        qs.append({"q": "iterval", "start": list(st), "md": None, "f": {"k": "has", "n": -9}})
        for key, typ in ((None, None), ("ab", None), (None, "T"), ("a", "stim/white"), (None, "stim"),
                         (None, "STIM"), ("zz", None), (None, ""), (None, "white"), (None, "X")):
            for fa in (False, True):
                for sub in (False, True):
                    qs.append({"q": "find", "cur": list(st), "key": key, "type": typ, "all": fa, "sub": sub})
        if st:
            flagsets = [(c, s, p, r) for c in (False, True) for s in (False, True) for p in (False, True)
                        for r in (False, True)]
            few = [(True, False, False, True), (False, True, False, True), (False, False, True, True),
                   (False, False, True, False), (True, True, True, True)]
            for ki, (key, typ) in enumerate(((None, None), ("ab", None), (None, "t"), ("a", "T"), (None, "Stim"))):
                for (c, s, p, r) in (flagsets if ki < 2 else few):
                    for fa in (False, True):
                        qs.append({"q": "related", "cur": list(st), "key": key, "type": typ, "children": c,
                                   "siblings": s, "parents": p, "recursive": r, "all": fa})
    for cur, path in case.get("paths", []):
        qs.append({"q": "sec", "cur": list(cur), "path": path})
        qs.append({"q": "prop", "cur": list(cur), "path": path})
    return qs


# ----------------------------------------------------------------------------- implementation side
class Impl(object):
    """A real odml Document built from the JSON tree, with the object <-> position maps."""

    def __init__(self, doc):
        import odml
        self.odml = odml
        self.doc = odml.Document()
        self.pos_of = {id(self.doc): ()}
        self.obj_at = {(): self.doc}
        self.prop_of = {}
        self.keep = []
        self._build(self.doc, (), doc["s"])

    def _build(self, parent, ppos, secs):
        odml = self.odml
        for i, s in enumerate(secs):
            sec = odml.Section(name=s["n"], type=s["t"], parent=parent)
            pos = ppos + (i,)
            self.pos_of[id(sec)] = pos
            self.obj_at[pos] = sec
            for k, p in enumerate(s["p"]):
                prop = odml.Property(name=p["n"], values=list(p["v"]), dtype="int", parent=sec)
                self.prop_of[id(prop)] = (pos, k)
                self.keep.append(prop)
            self._build(sec, pos, s["s"])

    def enc_sec(self, obj):
        if id(obj) in self.pos_of:
            return list(self.pos_of[id(obj)])
        return {"foreign": repr(obj)[:80]}

    def enc_prop(self, obj):
        if id(obj) in self.prop_of:
            pos, k = self.prop_of[id(obj)]
            return [list(pos), k]
        return {"foreign": repr(obj)[:80]}

    def enc_vals(self, vals):
        # a value list is identified by the Property holding it (its first value is unique)
        for prop in self.keep:
            if prop.values is vals or (list(prop.values) == list(vals) and len(vals) > 0):
                return self.enc_prop(prop)
        return {"foreign": repr(vals)[:80]}

    def res(self, thunk, enc):
        try:
            return {"ok": enc(thunk())}
        except Exception as exc:
            return {"raised": fw.exc_name(exc)}

    def found(self, r):
        if r is None:
            return None
        if isinstance(r, list):
            return {"many": [self.enc_sec(x) for x in r]}
        return {"one": self.enc_sec(r)}

    @staticmethod
    def sec_filter(f):
        k = f["k"]
        if k == "all":
            return lambda s: True
        if k == "none":
            return lambda s: False
        if k == "name_has":
            return lambda s: all(ch in s.name for ch in f["c"])
        if k == "type_eq":
            return lambda s: s.type == f["t"]
        raise ValueError(k)

    @staticmethod
    def val_filter(f):
        k = f["k"]
        if k == "all":
            return lambda v: True
        if k == "none":
            return lambda v: False
        if k == "len_ge":
            return lambda v: len(v) >= f["n"]
        if k == "has":
            return lambda v: f["n"] in v
        raise ValueError(k)

    def run(self, q):
        at = lambda key: self.obj_at[tuple(q[key])]
        kind = q["q"]
        if kind == "wf":
            return None
        if kind == "path":
            return at("pos").get_path()
        if kind == "abs":
            path = at("target").get_path()
            return {"path": path, "res": self.res(lambda: at("cur").get_section_by_path(path), self.enc_sec)}
        if kind == "absp":
            path = at("target").properties[q["k"]].get_path()
            return {"path": path, "res": self.res(lambda: at("cur").get_property_by_path(path), self.enc_prop)}
        if kind == "relres":
            path = at("a").get_relative_path(at("b"))
            return {"path": path, "res": self.res(lambda: at("a").get_section_by_path(path), self.enc_sec)}
        if kind == "relp":
            path = at("a").get_relative_path(at("b")) + ":" + at("b").properties[q["k"]].name
            return {"path": path, "res": self.res(lambda: at("a").get_property_by_path(path), self.enc_prop)}
        if kind == "sec":
            return self.res(lambda: at("cur").get_section_by_path(q["path"]), self.enc_sec)
        if kind == "prop":
            return self.res(lambda: at("cur").get_property_by_path(q["path"]), self.enc_prop)
        if kind == "itersec":
            kw = {} if q["md"] is None else {"max_depth": q["md"]}
            it = at("start").itersections(yield_self=q["ys"], filter_func=self.sec_filter(q["f"]), **kw)
            return [self.enc_sec(s) for s in it]
        if kind == "iterprop":
            kw = {} if q["md"] is None else {"max_depth": q["md"]}
            it = at("start").iterproperties(filter_func=self.sec_filter(q["f"]), **kw)
            return [self.enc_prop(p) for p in it]
        if kind == "iterval":
            kw = {} if q["md"] is None else {"max_depth": q["md"]}
            it = at("start").itervalues(filter_func=self.val_filter(q["f"]), **kw)
            return [self.enc_vals(v) for v in it]
        if kind == "find":
            return self.found(at("cur").find(key=q["key"], type=q["type"], findAll=q["all"],
                                             include_subtype=q["sub"]))
        if kind == "related":
            return self.found(at("cur").find_related(key=q["key"], type=q["type"], children=q["children"],
                                                     siblings=q["siblings"], parents=q["parents"],
                                                     recursive=q["recursive"], findAll=q["all"]))
        raise ValueError(kind)


def norm_res(r):
    """Only ok-vs-raised is compared (the property names no exception class)."""
    if isinstance(r, dict) and "raised" in r:
        return {"raised": True}
    return r


def norm_answer(a):
    if isinstance(a, dict) and "res" in a:
        return {"path": a.get("path"), "res": norm_res(a["res"])}
    return norm_res(a)


# ----------------------------------------------------------------------------- oracle helpers
def satisfies(sec_json, key, typ, sub=False):
    """Does a Section satisfy the requested name / type (the property's reading)?"""
    if sec_json is None:           # the Document has neither name nor type
        return key is None and typ is None
    if key is not None and sec_json["n"] != key:
        return False
    if typ is None:
        return True
    have = sec_json["t"].lower()
    want = typ.lower()
    return have == want or (sub and want in have.split("/")[:-1])


class C14(fw.Check):
    prop = "C14"
    lean_targets = ["OdmlModel.Props.C14"]
    obligations = ["C14." + t for t in [
        "abs_path_resolves", "abs_prop_path_resolves",
        "rel_path_spec", "rel_path_resolves", "rel_prop_path_resolves",
        "legacy_last_step_counterexample",
        "bfs_level_order", "itersections_bfs", "itersections_level_sorted", "itersections_nodup",
        "itersections_mem", "itersections_mem_document",
        "iterproperties_mem", "iterproperties_once_bfs", "itervalues_spec",
        "find_sound", "find_complete", "find_all_exact",
        "find_related_mem", "find_related_sound", "find_related_complete"]]
    trusted_base = [
        "Lean 4.33.0 kernel; axioms propext, Classical.choice, Quot.sound only (audited per theorem)",
        "hand-written model lean/OdmlModel/Model/Path.lean, Model/PathTree.lean, Py/Posix.lean, "
        "tied to /repo and to the real posixpath by this correspondence run",
        "Driver/*.lean JSON glue; harness/framework.py, harness/c14.py",
    ]
    assumptions = [
        "the tree is rooted in a Document and well formed (C03/C04): the model is a pure tree",
        "sibling names pairwise distinct, non-empty, free of '/' and ':', not '.' or '..' (the property's quantifier)",
        "str.lower() is modelled for ASCII only; generated types are ASCII",
        "filter functions are pure (the model applies them after the walk)",
    ]
    rule = ("small: every ordered tree with <= N Sections (N=3 quick exhaustively + a sample of N=4,5; "
            "N=5 thorough exhaustively) over names {a,ab,abc,b}: every cur x target absolute lookup "
            "(Sections and Properties), every ordered pair for relative paths, every start node x "
            "max_depth in {None,-1,0..depth+1} x yield_self x filters for the three iterators, "
            "find/find_related over key/type/flag grids; big: random trees up to 200 Sections with "
            "sampled pairs; paths/weird: arbitrary path strings and unsafe names (correspondence only); "
            "posix: random strings through posixpath vs Py/Posix.lean. A case is non-trivial when the "
            "tree has at least two Sections (tree streams) or the function result is non-empty (posix); "
            "distinct = distinct canonical JSON of the case.")

    def extra_exhaustive(self, tier):
        return True

    # -- generation ----------------------------------------------------------
    def generate(self, tier, rng):
        cases = []
        uid = [0]
        nmax_all = 3 if tier == "quick" else 5
        for n in range(0, nmax_all + 1):
            for f in forests(n):
                cases.append({"stream": "small", "h": True, "plan": "all",
                              "doc": {"s": decorate(f, rng, uid)}})
        if tier == "quick":
            for n, cnt in ((4, 120), (5, 160)):
                pool = forests(n)
                for _ in range(cnt):
                    cases.append({"stream": "small", "h": True, "plan": "all",
                                  "doc": {"s": decorate(rng.choice(pool), rng, uid)}})
        nbig = 12 if tier == "quick" else 300
        for i in range(nbig):
            n = rng.choice([6, 8, 12, 20, 40, 80, 150, 200]) if tier != "quick" else rng.choice([6, 10, 25, 60, 200])
            f = random_forest(rng, n, BIG_NAMES, rng.choice([2, 3, 6, 12]))
            cases.append({"stream": "big", "h": True, "plan": rng.randrange(1, 10 ** 9),
                          "doc": {"s": decorate(f, rng, uid, TYPES, PROP_NAMES + ["...", "a b", u"é"])}})
        # arbitrary path strings on small trees
        npaths = 150 if tier == "quick" else 3000
        # only path strings with non-empty steps: how empty steps / a trailing slash are treated is
        # not part of the property, a rewrite of the resolver may change it
        steps = ["a", "ab", "abc", "b", ".", "..", "zz", "a", "ab"]
        for i in range(npaths):
            n = rng.randrange(1, 6)
            f = rng.choice(forests(n))
            doc = {"s": decorate(f, rng, uid)}
            secs, _d = sec_positions(doc)
            paths = []
            for _ in range(12):
                cur = rng.choice([()] + [p for p, _ in secs])
                k = rng.randrange(1, 5)
                path = "/".join(rng.choice(steps) for _ in range(k))
                if rng.random() < 0.25:
                    path = "/" + path
                if rng.random() < 0.3:
                    path += rng.choice([":p", ":a", ":ab", ":zz"])
                paths.append([list(cur), path])
            cases.append({"stream": "paths", "h": True, "plan": "none", "doc": doc, "paths": paths})
        # names outside the quantifier
        nweird = 60 if tier == "quick" else 1500
        for i in range(nweird):
            f = random_forest(rng, rng.randrange(1, 7), WEIRD_NAMES, 3)
            doc = {"s": decorate(f, rng, uid, TYPES[:3], ["a", "a:b", "p/q", ".", ":"])}
            cases.append({"stream": "weird", "h": path_safe(doc["s"]), "plan": "all" if i % 3 == 0 else 7 + i,
                          "doc": doc})
        # posixpath
        nposix = 2500 if tier == "quick" else 60000
        alpha = ["a", "b", "ab", "/", "/", ".", "..", "//", "/./", "/../"]
        for i in range(nposix):
            def word(absolute=False, rng=rng):
                s = "".join(rng.choice(alpha) for _ in range(rng.randrange(0, 7)))
                return ("/" + s) if absolute else s
            f = rng.choice(["dirname", "normpath", "commonprefix", "relpath", "relative", "relative"])
            if f in ("dirname", "normpath"):
                cases.append({"stream": "posix", "f": f, "a": word(rng.random() < 0.5)})
            elif f == "commonprefix":
                a = word(True)
                b = a[:rng.randrange(0, len(a) + 1)] + word() if rng.random() < 0.6 else word(True)
                cases.append({"stream": "posix", "f": f, "a": a, "b": b})
            elif f == "relpath":
                a = word(True)
                b = a[:rng.randrange(1, len(a) + 1)] if rng.random() < 0.5 else word(True)
                cases.append({"stream": "posix", "f": f, "a": a, "b": b})
            else:
                # _get_relative_path on path-like strings: shared prefixes are the interesting part
                segs = lambda: [rng.choice(NAMES + ["...", ".a"]) for _ in range(rng.randrange(1, 5))]
                sa = segs()
                sb = sa[:rng.randrange(0, len(sa) + 1)] + (segs() if rng.random() < 0.6 else [])
                if not sb:
                    sb = segs()
                if True:      # only strings get_path() can return for path-safe names
                    cases.append({"stream": "posix", "f": f, "a": "/" + "/".join(sa), "b": "/" + "/".join(sb)})
        return cases

    # -- implementation ------------------------------------------------------
    def impl(self, case):
        if case["stream"] == "posix":
            f, a = case["f"], case["a"]
            try:
                if f == "dirname":
                    return {"r": posixpath.dirname(a)}
                if f == "normpath":
                    return {"r": posixpath.normpath(a)}
                if f == "commonprefix":
                    return {"r": posixpath.commonprefix([a, case["b"]])}
                if f == "relpath":
                    return {"r": posixpath.relpath(a, case["b"])}
                if f == "relative":
                    try:
                        from odml.base import Sectionable
                        fn = Sectionable._get_relative_path
                    except (ImportError, AttributeError):
                        return {"skipped": "_get_relative_path not found"}
                    return {"r": fn(a, case["b"])}
            except Exception as exc:
                return {"raised": fw.exc_name(exc)}
            raise ValueError(f)
        im = Impl(case["doc"])
        return {"answers": [im.run(q) for q in plan_queries(case)]}

    # -- model ---------------------------------------------------------------
    def model_requests(self, case, obs):
        if case["stream"] == "posix":
            if "skipped" in obs:
                return []
            req = {"op": "posix", "f": case["f"], "a": case["a"]}
            if "b" in case:
                req["b"] = case["b"]
            return [req]
        return [{"op": "tree", "doc": case["doc"], "qs": plan_queries(case)}]

    def compare(self, case, obs, answers):
        if not answers:
            return []
        if case["stream"] == "posix":
            if "raised" in obs:
                return ["%s(%r, %r) raised %s" % (case["f"], case["a"], case.get("b"), obs["raised"])]
            if obs["r"] != answers[0]:
                return ["%s(%r, %r): posixpath/implementation %r, model %r"
                        % (case["f"], case["a"], case.get("b"), obs["r"], answers[0])]
            return []
        out = []
        if answers[0][0] != case["h"]:
            out.append("model says well-formed/path-safe=%s, generator says %s" % (answers[0][0], case["h"]))
        if len(obs["answers"]) != len(answers[0]):
            return out + ["implementation answered %d queries, model %d" % (len(obs["answers"]), len(answers[0]))]
        qs = None
        for i in range(1, len(answers[0])):
            got, want = obs["answers"][i], answers[0][i]
            if got != want and norm_answer(got) != norm_answer(want):
                if qs is None:
                    qs = plan_queries(case)
                if not case["h"] and qs[i]["q"] in ("abs", "absp", "relres", "relp", "sec", "prop"):
                    continue      # paths over names outside the property's quantifier are not compared
                out.append("%s: implementation %s, model %s" % (fw.canon(qs[i]), fw.canon(got), fw.canon(want)))
                if len(out) > 5:
                    break
        return out

    # -- oracle (the property over the public API, independent of the model) --
    def oracle(self, case, obs):
        if "harness_exception" in obs or case["stream"] == "posix" or not case.get("h"):
            return []
        doc = case["doc"]
        secs, _depth = sec_positions(doc)
        byp = dict((tuple(p), s) for p, s in secs)
        out = []

        def below(start, md, include_start):
            """positions of Sections at or below start, per level, limited by md"""
            start = tuple(start)
            if start == ():
                level = [(i,) for i in range(len(doc["s"]))]
                lv = 1
                levels = {0: []}
            else:
                level = [start]
                lv = 0
                levels = {}
            while level and (md is None or lv <= md):
                levels[lv] = level
                level = [p + (i,) for p in level for i in range(len(byp[p]["s"]))]
                lv += 1
            if not include_start:
                levels[0] = []
            return levels

        sec_ok = {"all": lambda s, f: True, "none": lambda s, f: False,
                  "name_has": lambda s, f: all(c in s["n"] for c in f["c"]),
                  "type_eq": lambda s, f: s["t"] == f["t"]}
        val_ok = {"all": lambda v, f: True, "none": lambda v, f: False,
                  "len_ge": lambda v, f: len(v) >= f["n"], "has": lambda v, f: f["n"] in v}

        for q, a in zip(plan_queries(case), obs["answers"]):
            kind = q["q"]
            if kind in ("abs", "relres"):
                want = q["target"] if kind == "abs" else q["b"]
                frm = q["cur"] if kind == "abs" else q["a"]
                if a["res"] != {"ok": want}:
                    out.append("%s: path %r of Section %s looked up from %s gives %s"
                               % (kind, a["path"], want, frm, fw.canon(a["res"])))
            elif kind in ("absp", "relp"):
                want = [q["target"] if kind == "absp" else q["b"], q["k"]]
                frm = q["cur"] if kind == "absp" else q["a"]
                if a["res"] != {"ok": want}:
                    out.append("%s: path %r of Property %s looked up from %s gives %s"
                               % (kind, a["path"], want, frm, fw.canon(a["res"])))
            elif kind in ("itersec", "iterprop", "iterval") and q["md"] is not None and q["md"] < 0:
                pass            # a negative max_depth is outside the property's quantifier
            elif kind == "itersec":
                levels = below(q["start"], q["md"], q["ys"])
                want = [p for lv in sorted(levels) for p in levels[lv] if sec_ok[q["f"]["k"]](byp[p], q["f"])]
                got = [tuple(x) if isinstance(x, list) else x for x in a]
                if sorted(map(repr, got)) != sorted(map(repr, want)):
                    out.append("itersections%s yields %s, the Sections below the start within the depth are %s"
                               % (fw.canon(q), got, want))
                elif [len(x) for x in got] != sorted(len(x) for x in got):
                    out.append("itersections%s is not breadth first: %s" % (fw.canon(q), got))
            elif kind in ("iterprop", "iterval"):
                levels = below(q["start"], q["md"], True)
                want = []
                for lv in sorted(levels):
                    for p in levels[lv]:
                        for k, pr in enumerate(byp[p]["p"]):
                            ok = sec_ok[q["f"]["k"]](pr, q["f"]) if kind == "iterprop" else \
                                val_ok[q["f"]["k"]](pr["v"], q["f"])
                            if ok:
                                want.append((p, k))
                got = [(tuple(x[0]), x[1]) if isinstance(x, list) else x for x in a]
                if sorted(map(repr, got)) != sorted(map(repr, want)):
                    out.append("%s%s yields %s, expected exactly once each of %s" % (kind, fw.canon(q), got, want))
                elif [len(x[0]) for x in got] != sorted(len(x[0]) for x in got):
                    out.append("%s%s is not breadth first: %s" % (kind, fw.canon(q), got))
            elif kind in ("find", "related"):
                cur = tuple(q["cur"])
                kids = lambda p: [p + (i,) for i in range(len((byp[p]["s"] if p else doc["s"])))]
                if kind == "find":
                    scope = kids(cur)
                    sub = q["sub"]
                else:
                    sub = False
                    scope = []
                    if q["children"]:
                        if q["recursive"]:
                            scope += [p for p in byp if len(p) > len(cur) and p[:len(cur)] == cur]
                        else:
                            scope += kids(cur)
                    if q["siblings"] and cur:
                        scope += kids(cur[:-1])
                    if q["parents"] and cur:
                        scope += [cur[:k] for k in range(len(cur))] if q["recursive"] else [cur[:-1]]
                good = [p for p in scope if satisfies(byp.get(p), q["key"], q["type"], sub)]
                if a is None:
                    ret = []
                elif "one" in a:
                    ret = [a["one"]]
                else:
                    ret = a["many"]
                    if not ret:
                        out.append("%s%s returned an empty list" % (kind, fw.canon(q)))
                for r in ret:
                    if not isinstance(r, list) or tuple(r) not in good:
                        out.append("%s%s returned %s which does not satisfy the request within the relation"
                                   % (kind, fw.canon(q), r))
                        break
                if good and not ret:
                    out.append("%s%s found nothing although %s satisfies the request" % (kind, fw.canon(q), good[0]))
            if len(out) > 8:
                break
        return out

    def tag(self, case, obs):
        if case["stream"] == "posix":
            return ("posix:" + case["f"], bool(obs.get("r")))
        secs, depth = sec_positions(case["doc"])
        return ("%s:n=%s" % (case["stream"], len(secs) if len(secs) < 6 else "6+"), len(secs) >= 2)


if __name__ == "__main__":
    sys.exit(fw.main(C14(), sys.argv[1:]))
