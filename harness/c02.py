# -*- coding: utf-8 -*-
"""
C02 - JSON and YAML save/load are lossless and keep the odML 1.1 layout.

Tie between lean/OdmlModel/Model/Dict.lean (+ DictDoc.lean) and /repo:

  roundtrip   generated documents (all dtypes incl. n-tuples, empty/single/multi values, strings
              YAML could re-type, falsy attribute values, every optional attribute, DType enum
              members) x {JSON, YAML} x {to_string/from_string, write_file/from_file,
              odml.save/odml.load} x strict/lenient DictReader.
              compared: DictWriter.to_dict vs writeDoc; the parsed text vs Transport(writeDoc);
              every loaded snapshot vs readDict on the parsed text; denote vs the loaded document
  scalar      one-property documents, one per scalar class / retypable string (the ScalarCodec
              contract of json / PyYAML is validated here on every run)
  denote      dictionaries in the 1.1 layout written by the harness itself (independent of
              DictWriter, random key order) must load to the document they describe
  malformed   foreign keys, python-name keys, missing root keys, wrong version, values the dtype
              refuses, clashing names: strict vs lenient outcome and warnings vs the model
  history     (oracle-only) one living document, several saves / loads one after the other: the same
              ODMLWriter / ODMLReader / DictWriter / DictReader object used again, with and without an
              edit in between, after a save the validation refused, after a load that failed; the same
              file written again; every spelling of the backend name; odml.save without extension,
              odml.display; keyword arguments of other backends; XML / RDF / validation in between
  fresh       (oracle-only) the same kind of history in a NEW interpreter: first use of every writer /
              reader / module-level table (PyYAML representers and constructors), other hash seed,
              C locale without UTF-8; plus harness-written UTF-8 files read under that locale

Configuration dimensions of roundtrip / scalar / denote cases (keys of the case, all optional):
  spell {fmt: [writer name, reader name]}, show_warnings, fname, route (which part of the public API
  builds the document: constructors, create_*, insert, setters after the fact incl. link merges, other
  argument shapes, clone, clone(keep_id), loaded from XML), variant (dialect of a foreign text).

Oracle (independent of the model): snapshot(load(save(d))) == snapshot(d) for every entry point and
both formats, JSON and YAML agree, strict and lenient DictReader agree and do not warn, the text
parses to the 1.1 layout (root keys, version, format-defined keys only), and json / yaml keep every
scalar class.
"""
import copy
import datetime as dt
import enum
import io
import json
import re
import os
import sys
import tempfile
import uuid

import framework as fw

FRESH = "<fresh>"
FORMATS = ("JSON", "YAML")


# ----------------------------------------------------------------------------- J encoding
def enc(v):
    """Python value -> encoding of Dict.J shared with the Lean driver."""
    if v is None or isinstance(v, bool):
        return v
    if isinstance(v, enum.Enum) and isinstance(v, str):
        return str(v.value)
    if isinstance(v, int):
        return v
    if isinstance(v, float):
        return {"f": repr(v)}
    if isinstance(v, str):
        return str.__str__(v)
    if isinstance(v, dt.datetime):
        return {"dt": str(v)}
    if isinstance(v, dt.date):
        return {"d": v.isoformat()}
    if isinstance(v, dt.time):
        return {"t": str(v)}
    if isinstance(v, (list, tuple)):
        return [enc(x) for x in v]
    if isinstance(v, dict):
        return {"o": [[k if isinstance(k, str) else {"weird_key": repr(k)}, enc(x)] for k, x in v.items()]}
    return {"weird": repr(v)}


def dec(e):
    """Encoding -> Python value."""
    if e is None or isinstance(e, (bool, int, str)):
        return e
    if isinstance(e, list):
        return [dec(x) for x in e]
    if "f" in e:
        return float(e["f"])
    if "d" in e:
        return dt.datetime.strptime(e["d"], "%Y-%m-%d").date()
    if "t" in e:
        return dt.datetime.strptime(e["t"], "%H:%M:%S").time()
    if "dt" in e:
        return dt.datetime.strptime(e["dt"], "%Y-%m-%d %H:%M:%S")
    if "o" in e:
        return dict((k, dec(x)) for k, x in e["o"])
    raise ValueError(e)


def undo_cp(x):
    """Driver answers carry non-printable / non-ASCII strings as {"cp": [code points]}."""
    if isinstance(x, list):
        return [undo_cp(v) for v in x]
    if isinstance(x, dict):
        if len(x) == 1 and "cp" in x:
            return "".join(chr(c) for c in x["cp"])
        return dict((k, undo_cp(v)) for k, v in x.items())
    return x


def has_weird(e):
    if isinstance(e, list):
        return any(has_weird(x) for x in e)
    if isinstance(e, dict):
        if "weird" in e or "weird_key" in e:
            return True
        if "o" in e:
            return any(isinstance(k, dict) or has_weird(x) for k, x in e["o"])
    return False


def unordered(e):
    """Canonical form that ignores dictionary key order."""
    if isinstance(e, list):
        return [unordered(x) for x in e]
    if isinstance(e, dict) and "o" in e:
        return {"o": sorted(([k, unordered(x)] for k, x in e["o"]), key=lambda p: json.dumps(p[0]))}
    return e


def transport(e, fmt):
    """What the contract of json / yaml says the written dictionary comes back as."""
    if isinstance(e, list):
        return [transport(x, fmt) for x in e]
    if isinstance(e, dict):
        if "o" in e:
            return {"o": [[k, transport(x, fmt)] for k, x in e["o"]]}
        if fmt == "JSON":
            for tag in ("d", "t", "dt"):
                if tag in e:
                    return e[tag]
        if fmt == "YAML" and "t" in e:
            return e["t"]
    return e


def strings_of(e, out):
    if isinstance(e, str):
        out.add(e)
    elif isinstance(e, list):
        for x in e:
            strings_of(x, out)
    elif isinstance(e, dict):
        if "o" in e:
            for _k, x in e["o"]:
                strings_of(x, out)
        else:
            for tag in ("d", "t", "dt"):
                if tag in e:
                    out.add(e[tag])


def ints_of(e, out):
    if isinstance(e, bool):
        return
    if isinstance(e, int):
        out.add(e)
    elif isinstance(e, list):
        for x in e:
            ints_of(x, out)
    elif isinstance(e, dict) and "o" in e:
        for _k, x in e["o"]:
            ints_of(x, out)


def floats_of(e, out):
    if isinstance(e, list):
        for x in e:
            floats_of(x, out)
    elif isinstance(e, dict):
        if "f" in e:
            out.add(e["f"])
        elif "o" in e:
            for _k, x in e["o"]:
                floats_of(x, out)


def objs_of(e, tag, out):
    if isinstance(e, list):
        for x in e:
            objs_of(x, tag, out)
    elif isinstance(e, dict):
        if tag in e and len(e) == 1:
            out.add(e[tag])
        elif "o" in e:
            for _k, x in e["o"]:
                objs_of(x, tag, out)


def lib_tables(e):
    """The CPython functions the model takes as parameters, tabulated on the strings of the case."""
    from odml import dtypes
    strs = set()
    strings_of(e, strs)
    more = set()
    for s in strs:
        if len(s) >= 2 and s[0] == "[" and s[-1] == "]":
            for piece in s[1:-1].split(","):
                more.add(piece.strip())
                more.add(piece)
    strs |= more
    for s in list(strs):
        t = s.strip()
        strs.add(t)
    tab = {"uuid": [], "int": [], "float": [], "date": [], "time": [], "datetime": [],
           "f_of_i": [], "i_of_f": [], "time_norm": [], "datetime_norm": []}

    def tryf(f, s):
        try:
            return f(s)
        except Exception:
            return None
    for s in sorted(strs):
        if len(s) > 64:
            continue
        r = tryf(lambda x: str(uuid.UUID(x)), s)
        if r is not None:
            tab["uuid"].append([s, r])
        r = tryf(int, s)
        if r is not None:
            tab["int"].append([s, r])
        r = tryf(lambda x: repr(float(x)), s)
        if r is not None:
            tab["float"].append([s, r])
            floats_extra = r
            ri = tryf(lambda x: int(float(x)), s)
            if ri is not None:
                tab["i_of_f"].append([floats_extra, ri])
        r = tryf(lambda x: dt.datetime.strptime(x, dtypes.FORMAT_DATE).date().isoformat(), s)
        if r is not None:
            tab["date"].append([s, r])
        r = tryf(lambda x: str(dt.datetime.strptime(x, dtypes.FORMAT_TIME).time()), s)
        if r is not None:
            tab["time"].append([s, r])
        r = tryf(lambda x: str(dt.datetime.strptime(x, dtypes.FORMAT_DATETIME)), s)
        if r is not None:
            tab["datetime"].append([s, r])
    ints = set()
    ints_of(e, ints)
    for i in sorted(ints):
        r = tryf(lambda x: repr(float(x)), i)
        if r is not None:
            tab["f_of_i"].append([i, r])
    fl = set()
    floats_of(e, fl)
    for f in sorted(fl):
        r = tryf(lambda x: int(float(x)), f)
        if r is not None and [f, r] not in tab["i_of_f"]:
            tab["i_of_f"].append([f, r])
    tt = set()
    objs_of(e, "t", tt)
    for s in sorted(tt):
        r = tryf(lambda x: str(dtypes.time_get(dt.datetime.strptime(x, "%H:%M:%S").time())), s)
        if r is not None:
            tab["time_norm"].append([s, r])
    tt = set()
    objs_of(e, "dt", tt)
    for s in sorted(tt):
        r = tryf(lambda x: str(dtypes.datetime_get(dt.datetime.strptime(x, "%Y-%m-%d %H:%M:%S"))), s)
        if r is not None:
            tab["datetime_norm"].append([s, r])
    # i_of_f must be a function of the token
    seen = {}
    tab["i_of_f"] = [seen.setdefault(k, [k, v]) for k, v in tab["i_of_f"] if k not in seen]
    return tab


# ----------------------------------------------------------------------------- documents
def card_out(c):
    if c is None:
        return None
    if isinstance(c, tuple) and len(c) == 2:
        return [None if x is None else int(x) for x in c]
    return {"weird": repr(c)}


def snap_prop(p):
    return {"id": p.id, "name": enc(p.name), "values": [enc(v) for v in p.values], "unit": enc(p.unit),
            "definition": enc(p.definition), "dependency": enc(p.dependency),
            "dependency_value": enc(p.dependency_value), "uncertainty": enc(p.uncertainty),
            "reference": enc(p.reference), "dtype": enc(p.dtype), "value_origin": enc(p.value_origin),
            "val_card": card_out(p.val_cardinality)}


def snap_sec(s):
    return {"id": s.id, "name": enc(s.name), "type": enc(s.type), "definition": enc(s.definition),
            "reference": enc(s.reference), "link": enc(s.link), "repository": enc(s.repository),
            "include": enc(s.include), "sec_card": card_out(s.sec_cardinality),
            "prop_card": card_out(s.prop_cardinality),
            "props": [snap_prop(p) for p in s.properties], "secs": [snap_sec(c) for c in s.sections]}


def snap_doc(d):
    return {"id": d.id, "version": enc(d.version), "author": enc(d.author), "date": enc(d.date),
            "repository": enc(d.repository), "secs": [snap_sec(s) for s in d.sections]}


def fresh_ids(snapshot, known):
    """Replace ids the loader had to invent (not present in the input) by the marker."""
    def fix_id(node):
        if node["id"] not in known:
            if node.get("name") == node["id"]:
                node["name"] = FRESH
            node["id"] = FRESH
    def walk_sec(s):
        fix_id(s)
        for p in s["props"]:
            fix_id(p)
        for c in s["secs"]:
            walk_sec(c)
    out = copy.deepcopy(snapshot)
    if out["id"] not in known:
        out["id"] = FRESH
    for s in out["secs"]:
        walk_sec(s)
    return out


def _prop_kw(p):
    kw = {}
    for k in ("unit", "definition", "dependency", "dependency_value", "uncertainty", "reference",
              "value_origin"):
        if p.get(k) is not None:
            kw[k] = dec(p[k])
    if p.get("val_card") is not None:
        kw["val_cardinality"] = tuple(p["val_card"])
    return kw


def _sec_kw(s):
    kw = {}
    for k in ("definition", "reference", "link", "repository", "include"):
        if s.get(k) is not None:
            kw[k] = dec(s[k])
    if s.get("sec_card") is not None:
        kw["sec_cardinality"] = tuple(s["sec_card"])
    if s.get("prop_card") is not None:
        kw["prop_cardinality"] = tuple(s["prop_card"])
    return kw


def _prop_dtype(p):
    import odml
    dtype = p.get("dtype")
    if isinstance(dtype, dict):
        dtype = getattr(odml.DType, dtype["enum"])
    return dtype


def build_prop(p, sec):
    """One Property of a spec, the constructor way."""
    import odml
    vals = [dec(v) for v in p["values"]]
    return odml.Property(name=dec(p["name"]), values=vals if vals else None, dtype=_prop_dtype(p), parent=sec,
                         oid=p["id"], **_prop_kw(p))


def build_sec(s, parent):
    """One Section (with everything below it) of a spec, the constructor way."""
    import odml
    sec = odml.Section(name=dec(s["name"]), type=dec(s["type"]), parent=parent, oid=s["id"], **_sec_kw(s))
    for p in s["props"]:
        build_prop(p, sec)
    for c in s["secs"]:
        build_sec(c, sec)
    return sec


def build_doc(spec, route=None):
    """Build the document of a spec through the public API. `route` chooses which part of the public API
    puts the document together (the property quantifies over every document buildable through it); every
    check downstream is relative to the snapshot of the document that was really built."""
    import odml
    if route in (None, "ctor", "clone", "clone_keep_id", "via_xml"):
        d = odml.Document(author=dec(spec["author"]), date=dec(spec["date"]), version=dec(spec["version"]),
                          repository=dec(spec["repository"]), oid=spec["id"])
        for s in spec["secs"]:
            build_sec(s, d)
        if route == "clone":
            d = d.clone()                      # new ids everywhere
        elif route == "clone_keep_id":
            d = d.clone(keep_id=True)
        elif route == "via_xml":
            # the conversion use case: a document that was loaded from odML-XML
            try:
                from odml.tools.odmlparser import ODMLWriter, ODMLReader
                x = ODMLReader("XML", show_warnings=False).from_string(ODMLWriter("XML").to_string(d))
                if x is not None:
                    d = x
            except Exception:
                pass                           # XML refuses the document (C01's business): keep the original
        return d

    if route == "shapes":
        # other argument shapes of the same constructors: date as text, values as a tuple / a bare scalar,
        # cardinalities as lists, ids in upper case
        date = dec(spec["date"])
        d = odml.Document(author=dec(spec["author"]), date=date.isoformat() if date is not None else None,
                          version=dec(spec["version"]), repository=dec(spec["repository"]),
                          oid=spec["id"].upper())

        def shaped_sec(s, parent):
            kw = _sec_kw(s)
            for k in ("sec_cardinality", "prop_cardinality"):
                if k in kw:
                    kw[k] = list(kw[k])
            sec = odml.Section(dec(s["name"]), dec(s["type"]), parent, oid=s["id"], **kw)
            for p in s["props"]:
                vals = [dec(v) for v in p["values"]]
                pkw = _prop_kw(p)
                if "val_cardinality" in pkw:
                    pkw["val_cardinality"] = list(pkw["val_cardinality"])
                if len(vals) == 1 and not isinstance(vals[0], str):
                    shaped = vals[0]
                elif vals:
                    shaped = tuple(vals)
                else:
                    shaped = []
                odml.Property(dec(p["name"]), shaped, sec, oid=p["id"].upper(), dtype=_prop_dtype(p), **pkw)
            for c in s["secs"]:
                shaped_sec(c, sec)
        for s in spec["secs"]:
            shaped_sec(s, d)
        return d

    # the remaining routes create empty objects and fill them through the setters / container methods
    d = odml.Document(oid=spec["id"])
    for k in ("author", "date", "version", "repository"):
        if spec.get(k) is not None:
            setattr(d, k, dec(spec[k]))

    def fill_prop(prop, p, with_values):
        if with_values:
            dtype = _prop_dtype(p)
            if dtype is not None:
                prop.dtype = dtype
            vals = [dec(v) for v in p["values"]]
            if vals:
                prop.values = vals
        for k, v in _prop_kw(p).items():
            setattr(prop, k, v)

    links = []

    def fill_sec(sec, s, skip=()):
        for k, v in _sec_kw(s).items():
            if k == "link":
                links.append((sec, v))         # the setter follows the link: only once the tree stands
            elif k not in skip:
                setattr(sec, k, v)

    def late_sec(s, parent):
        if route == "create":
            kw = _sec_kw(s)
            sec = parent.create_section(dec(s["name"]), dec(s["type"]), s["id"], kw.get("definition"),
                                        kw.get("reference"), kw.get("repository"), kw.get("link"),
                                        kw.get("include"))
            fill_sec(sec, s, ("definition", "reference", "repository", "link", "include"))
            links.pop() if "link" in kw else None
            for p in s["props"]:
                vals = [dec(v) for v in p["values"]]
                prop = sec.create_property(dec(p["name"]), vals if vals else None, _prop_dtype(p), p["id"])
                fill_prop(prop, p, False)
            for c in s["secs"]:
                late_sec(c, sec)
        elif route == "insert":
            # free standing objects, put in back to front with insert(0, ...)
            sec = odml.Section(name=dec(s["name"]), type=dec(s["type"]), oid=s["id"], **_sec_kw(s))
            for c in reversed(s["secs"]):
                late_sec(c, sec)
            for p in reversed(s["props"]):
                vals = [dec(v) for v in p["values"]]
                prop = odml.Property(name=dec(p["name"]), values=vals if vals else None, dtype=_prop_dtype(p),
                                     oid=p["id"], **_prop_kw(p))
                sec.insert(0, prop)
            parent.insert(0, sec)
        else:
            # "late": everything arrives after the object exists and hangs in the tree
            sec = odml.Section(name=dec(s["name"]), type=dec(s["type"]), parent=parent, oid=s["id"])
            fill_sec(sec, s)
            for p in s["props"]:
                prop = odml.Property(name=dec(p["name"]), parent=sec, oid=p["id"])
                fill_prop(prop, p, True)
            for c in s["secs"]:
                late_sec(c, sec)
    for s in (reversed(spec["secs"]) if route == "insert" else spec["secs"]):
        late_sec(s, d)
    for sec, link in links:
        # a link that leads somewhere merges the target into the Section (a document with merged
        # Sections); one that leads nowhere is refused by the setter and stays unset
        try:
            sec.link = link
        except Exception:
            pass
    return d


def layout_of(spec, rng_order=None):
    """The odML 1.1 dictionary of a spec, written by the harness itself (not by DictWriter).
    Returns a python dict with python values; `rng_order` shuffles the keys of every dictionary."""
    def order(d):
        if rng_order is None:
            return d
        keys = list(d)
        rng_order.shuffle(keys)
        return dict((k, d[k]) for k in keys)

    def put(d, key, e):
        if e is not None:
            d[key] = dec(e)

    def lay_prop(p):
        d = {"id": p["id"], "name": dec(p["name"])}
        dtype = p.get("dtype")
        if isinstance(dtype, dict):
            dtype = dtype["enum"]
        vals = [dec(v) for v in p["values"]]
        d["value"] = vals
        if dtype is not None:
            d["type"] = dtype
        for k, key in (("unit", "unit"), ("definition", "definition"), ("dependency", "dependency"),
                       ("dependency_value", "dependencyvalue"), ("uncertainty", "uncertainty"),
                       ("reference", "reference"), ("value_origin", "value_origin")):
            put(d, key, p.get(k))
        if p.get("val_card") is not None:
            d["val_cardinality"] = list(p["val_card"])
        return order(d)

    def lay_sec(s):
        d = {"id": s["id"], "name": dec(s["name"]), "type": dec(s["type"])}
        for k in ("definition", "reference", "link", "repository", "include"):
            put(d, k, s.get(k))
        if s.get("sec_card") is not None:
            d["sec_cardinality"] = list(s["sec_card"])
        if s.get("prop_card") is not None:
            d["prop_cardinality"] = list(s["prop_card"])
        d["properties"] = [lay_prop(p) for p in s["props"]]
        d["sections"] = [lay_sec(c) for c in s["secs"]]
        return order(d)
    doc = {"id": spec["id"]}
    for k in ("author", "version", "date", "repository"):
        put(doc, k, spec.get(k))
    doc["sections"] = [lay_sec(s) for s in spec["secs"]]
    from odml.info import FORMAT_VERSION
    return order({"Document": order(doc), "odml-version": FORMAT_VERSION})


# ----------------------------------------------------------------------------- generator
RETYPABLE = ["yes", "no", "Yes", "NO", "null", "Null", "~", "true", "False", "on", "off", "y", "n",
             "1e3", "1.5", "12", "-7", "+1", "0x1F", "0o17", "010", "1_000", "1:30", "190:20:30",
             ".inf", "-.INF", ".nan", "1.", ".5", "2020-01-01", "2020-01-01 10:00:00",
             "2001-12-14t21:59:43.10-05:00", "10:11:12", "=", "<<", "None", "nan", "inf"]
SPACEY = [" lead", "trail ", " both ", "a\nb", "line\n", "\nline", "\ttab", "a\tb", "a\rb", "  ", " ",
          "two\n\nlines", "trailing space \n"]
PUNCT = ["a, b", "a;b", "(x)", "[x]", "{x}", "a: b", "- a", "#c", "a #c", "'", '"', "a\\b", "!!str x",
         "&a", "*a", "%", "@", "`", "|", ">", "?", "? a", ": a", "[", "]", "[]", "{}", "x,", "'q'",
         '"q"', "a'b\"c", "\\n", "--- x", "..."]
UNICODE = ["\u00e9", "\u65e5\u672c", "\u00a0nbsp", "\u2028", "\x85", "emoji \U0001F600", "\x07", "\x7f",
           "\u200b", "\ufeff", "\u00e9\n\u00e9"]
PLAIN = ["a", "mV", "some text", "Word", "x1", "http://example.org/a#b", "J. Doe", ""]
# text longer than the line width of the YAML emitter / the JSON indentation (folding, trailing blanks at a
# fold, double blanks, a blank in front of a fold, long words, long lines after a line feed)
LONG = [("word " * 40).strip(), " lead " + "w " * 60, "tab\t" * 30, ("w" * 79 + " ") * 3, "a " * 39 + " b",
        "\u00e9 " * 50, "x" * 200, ("x  y " * 20) + "\nline two  " + "z " * 50, "yes " * 30, "1 " * 45 + "2"]
STR_POOL = RETYPABLE + SPACEY + PUNCT + UNICODE + PLAIN + LONG
# strings the Lean driver's JSON reader is not asked to carry: only in the oracle-only streams
EXTRA = ["a\ud800b", "\udfff", "a\x00b", "\x1b[0m", "\u2029 x", "\U0010ffff", "x" * 5000,
         ("long line with many words, " * 12) + "\n" + ("and another one; " * 12)]
# every spelling of a backend name the writers / readers accept (they upper() it); odml.save's own default
# is spelled in lower case
SPELLINGS = {"JSON": ["JSON", "json", "Json", "jSoN"], "YAML": ["YAML", "yaml", "Yaml", "yAmL"]}
ENTRIES = ["string", "file", "saveload", "save_noext", "display"]
ROUTES = ["ctor", "create", "insert", "late", "shapes", "clone", "clone_keep_id", "via_xml"]
FNAMES = [None, "d\u00f6c 1", "DOC.v2", "a b"]
NAME_POOL = ["a", "b", "ab", "s 1", "yes", "null", "1e3", "2020-01-01", " x ", "12", "n\u00e9", "true",
             "a: b", "#x", "[n]", "~", "1.5", "A", "on"]
TUPLE_ITEMS = ["1", "2.5", "a", "x y", "", "(p)", "yes", "1e3", "\u00e9", "a:b", "[z]", "'"]
INTS = [0, 1, -1, 7, 42, -300, 2 ** 31, -2 ** 63, 10 ** 30]
FLOATS = [0.0, -0.0, 1.5, -2.25, 0.1, 1e16, 1e-7, 3.141592653589793, 1e300, 5e-324, 100.0]
DATES = ["2020-01-02", "1999-12-31", "2024-02-29", "1970-01-01", "2100-06-15", "0987-06-05", "0005-01-02"]
TIMES = ["00:00:00", "03:04:05", "13:04:05", "23:59:59", "12:00:00"]
DATETIMES = ["2020-01-02 03:04:05", "1999-12-31 23:59:59", "2024-02-29 00:00:00", "1970-01-01 12:30:00",
             "0987-06-05 04:03:02", "0005-01-02 03:04:05"]
STRLIKE = ["string", "text", "url", "person"]


def new_id(rng):
    return str(uuid.UUID(int=rng.getrandbits(128), version=4))


class Gen(object):
    def __init__(self, rng, commas=False, falsy=True, enums=True, extra=False, wide=False):
        self.rng = rng
        self.commas = commas
        self.falsy = falsy
        self.enums = enums
        self.extra = extra          # strings of EXTRA too (oracle-only streams)
        self.wide = wide            # two-digit numbers of values / children, chains deeper than 3
        self.unnamed = extra        # objects created without a name (the library names them by their id)

    def pick_str(self, allow_empty=False):
        if self.extra and self.rng.random() < 0.15:
            return self.rng.choice(EXTRA)
        s = self.rng.choice(STR_POOL)
        if s == "" and not allow_empty:
            return "a"
        return s

    def opt_str(self, p=0.35):
        r = self.rng.random()
        if r < p:
            return self.pick_str()
        if self.falsy and r < p + 0.04:
            return ""
        return None

    def dep(self):
        # a dependency naming a sibling Section trips a defect of the validation (C08) inside write_file
        for _ in range(5):
            s = self.opt_str(0.15)
            if s not in NAME_POOL:
                return s
        return None

    def card(self):
        rng = self.rng
        if rng.random() < 0.7:
            return None
        a, b = rng.choice([(None, 1), (None, 3), (2, None), (1, 4), (2, 2), (0, 3), (5, 9), (1, 1),
                           (None, 10 ** 12), (3, None), (2, 10), (9, 11), (0, 12), (10, 100)])
        return [a, b]

    KINDS = ["string", "strlike", "int", "float", "boolean", "date", "time", "datetime", "tuple", "infer"]

    def values(self, kind=None, n=None):
        """-> (dtype for the constructor, list of J-encoded values)"""
        rng = self.rng
        if kind is None:
            kind = rng.choice(["string", "string", "strlike", "int", "float", "boolean", "date", "time",
                               "datetime", "tuple", "none", "infer"])
        if n is None:
            n = rng.choice([0, 1, 1, 2, 3])
            if self.wide and rng.random() < 0.2:
                n = rng.choice([10, 11, 12])
        if kind == "none":
            return None, []
        if kind in ("string", "strlike"):
            dtype = "string" if kind == "string" else rng.choice(STRLIKE)
            return dtype, [self.pick_str(True) for _ in range(n)]
        if kind == "infer":
            pool = rng.choice([STR_POOL, INTS, [True, False]])
            vals = [rng.choice(pool) for _ in range(max(1, n))]
            if vals and isinstance(vals[0], str) and vals[0] == "":
                vals[0] = "a"
            return None, [enc(v) for v in vals]
        if kind == "int":
            return "int", [rng.choice(INTS) for _ in range(n)]
        if kind == "float":
            return "float", [enc(rng.choice(FLOATS)) for _ in range(n)]
        if kind == "boolean":
            return "boolean", [rng.choice([True, False]) for _ in range(n)]
        if kind == "date":
            return "date", [{"d": rng.choice(DATES)} for _ in range(n)]
        if kind == "time":
            return "time", [{"t": rng.choice(TIMES)} for _ in range(n)]
        if kind == "datetime":
            return "datetime", [{"dt": rng.choice(DATETIMES)} for _ in range(n)]
        k = rng.choice([1, 2, 2, 3])
        items = TUPLE_ITEMS + (["a,b", ","] if self.commas else [])
        vals = []
        for _ in range(n):
            vals.append("(" + ";".join(rng.choice(items) for _ in range(k)) + ")")
        return "%d-tuple" % k, vals

    def prop(self, name, kind=None, n=None):
        rng = self.rng
        dtype, vals = self.values(kind, n)
        if self.enums and isinstance(dtype, str) and not dtype.endswith("-tuple") and rng.random() < 0.1:
            dtype = {"enum": dtype}
        unc = None
        r = rng.random()
        if r < 0.25:
            unc = enc(rng.choice([0.5, 1, 2.5, 1e-7, "0.5", 12]))
        elif self.falsy and r < 0.4:
            unc = enc(rng.choice([0, 0.0, False, -0.0]))
        dv = None
        r = rng.random()
        if r < 0.15:
            dv = enc(rng.choice(["yes", "1", 1, 1.5, True, "on state"]))
        elif self.falsy and r < 0.25:
            dv = enc(rng.choice([0, False, 0.0, ""]))
        return {"id": new_id(rng), "name": name, "values": vals, "dtype": dtype,
                "unit": self.opt_str(0.3), "definition": self.opt_str(), "dependency": self.dep(),
                "dependency_value": dv, "uncertainty": unc, "reference": self.opt_str(0.2),
                "value_origin": self.opt_str(0.2), "val_card": self.card()}

    def names(self, n):
        rng = self.rng
        pool = list(NAME_POOL)
        rng.shuffle(pool)
        if self.unnamed:
            return [None if rng.random() < 0.1 else nm for nm in pool[:n]]
        return pool[:n]

    def rich_sec(self, name):
        """A Section with one Property per class of value (every scalar class meets every configuration
        and every process state of the streams that use it), some typed by DType members."""
        rng = self.rng
        names = self.names(len(self.KINDS))
        props = [self.prop(nm, kind, rng.choice([1, 2, 3])) for nm, kind in zip(names, self.KINDS)]
        sec = self.sec(name, 3)
        sec["props"] = props
        sec["link"] = None
        return sec

    def sec(self, name, depth):
        rng = self.rng
        nprops = rng.choice([0, 1, 2, 3, 4]) if depth < 3 else rng.choice([0, 1])
        nsecs = rng.choice([0, 0, 1, 2]) if depth < 3 else 0
        if self.wide and depth == 1 and rng.random() < 0.3:
            nprops, nsecs = rng.choice([(10, 1), (12, 0), (2, 10), (11, 11)])
        if self.wide and 3 <= depth < 9 and rng.random() < 0.6:
            nsecs = 1                                   # a chain below the usual depth
        link = None
        include = None
        r = rng.random()
        if r < 0.1:
            link = rng.choice(["/a", "../b", "/a/b", "yes"])
        elif r < 0.2:
            include = rng.choice(["http://example.invalid/t.xml#a", "file:///none.xml", "null"])
        typ = self.pick_str() if rng.random() < 0.5 else rng.choice(["t", "n.s.", "recording/session"])
        return {"id": new_id(rng), "name": name, "type": typ,
                "definition": self.opt_str(), "reference": self.opt_str(0.2), "link": link,
                "repository": rng.choice([None, None, None, "http://example.invalid/r.xml", "yes"]),
                "include": include, "sec_card": self.card(), "prop_card": self.card(),
                "props": [self.prop(nm) for nm in self.names(nprops)],
                "secs": [self.sec(nm, depth + 1) for nm in self.names(nsecs)]}

    def doc(self, nsecs=None, rich=False):
        rng = self.rng
        if nsecs is None:
            nsecs = rng.choice([0, 1, 1, 2, 3])
        if rich:
            d = self.doc(max(1, nsecs) - 1)
            d["secs"].insert(rng.randrange(len(d["secs"]) + 1),
                             self.rich_sec([n for n in NAME_POOL if n not in
                                            [s["name"] for s in d["secs"]]][0]))
            return d
        version = None
        r = rng.random()
        if r < 0.4:
            version = enc(rng.choice(["1.0", "v2", "1", 1, 1.1, 2, "1e3", "yes"]))
        elif self.falsy and r < 0.5:
            version = enc(rng.choice([0, "", 0.0]))
        return {"id": new_id(rng), "author": self.opt_str(0.5), "version": version,
                "date": {"d": rng.choice(DATES)} if rng.random() < 0.5 else None,
                "repository": rng.choice([None, None, "http://example.invalid/r.xml", "~"]),
                "secs": [self.sec(nm, 1) for nm in self.names(nsecs)]}


def one_prop_doc(rng, **pkw):
    p = {"id": new_id(rng), "name": "p", "values": [], "dtype": None, "unit": None, "definition": None,
         "dependency": None, "dependency_value": None, "uncertainty": None, "reference": None,
         "value_origin": None, "val_card": None}
    p.update(pkw)
    s = {"id": new_id(rng), "name": "s", "type": "t", "definition": None, "reference": None, "link": None,
         "repository": None, "include": None, "sec_card": None, "prop_card": None, "props": [p], "secs": []}
    return {"id": new_id(rng), "author": None, "version": None, "date": None, "repository": None,
            "secs": [s]}


def spec_has_tuple_comma(spec):
    def sec(s):
        for p in s["props"]:
            if isinstance(p.get("dtype"), str) and p["dtype"].endswith("-tuple"):
                if any(isinstance(v, str) and "," in v for v in p["values"]):
                    return True
        return any(sec(c) for c in s["secs"])
    return any(sec(s) for s in spec["secs"])


# ----------------------------------------------------------------------------- pipelines
def parse_text(fmt, text):
    if fmt == "JSON":
        return json.loads(text)
    import yaml
    return yaml.safe_load(text)


def run_reader(parsed, lenient):
    """DictReader on a parsed dictionary -> {"doc": snapshot, "warnings": n} or {"raised": class}."""
    from odml.tools.dict_parser import DictReader
    from odml.tools.parser_utils import ParserException, InvalidVersionException
    reader = DictReader(show_warnings=False, ignore_errors=lenient)
    try:
        doc = reader.to_odml(copy.deepcopy(parsed))
    except InvalidVersionException:
        return {"raised": "invalid_version"}
    except ParserException:
        return {"raised": "parser"}
    except Exception as exc:
        return {"raised": "leak", "class": fw.exc_name(exc)}
    known = set()
    strings_of(enc(parsed), known)
    for x in list(known):
        try:
            known.add(str(uuid.UUID(x)))
        except ValueError:
            pass
    return {"doc": fresh_ids(snap_doc(doc), known), "warnings": len(reader.warnings)}


class _OwnThreadText(io.TextIOBase):
    """Collects what the creating thread writes. The library's repository loader threads (started by an
    earlier document) print their failures to sys.stdout whenever they are done: not part of a display."""

    def __init__(self):
        io.TextIOBase.__init__(self)
        import threading
        self._me = threading.get_ident
        self._owner = self._me()
        self._parts = []

    def writable(self):
        return True

    def write(self, text):
        if self._me() == self._owner:
            self._parts.append(text)
        return len(text)

    def getvalue(self):
        return "".join(self._parts)


class SaveRefused(Exception):
    """write_file refused the document (validation errors): not a case of this property."""


def via_entry(doc, fmt, entry, tmpdir, wname=None, rname=None, show_warnings=False, fname=None,
              writer=None, reader=None, kwargs=None):
    """Save and load through one public entry point -> (text, loaded document).
    wname / rname: the spelling of the backend name handed to the writer / the reader (default: `fmt`);
    fname: stem of the file name; writer / reader: objects to use again instead of new ones (where the
    entry point takes one)."""
    import odml
    from odml.tools.odmlparser import ODMLWriter, ODMLReader
    from odml.tools.parser_utils import ParserException
    wname = wname or fmt
    rname = rname or fmt
    kwargs = kwargs or {}        # keyword arguments meant for other backends: JSON / YAML ignore them
    if fname is not None:
        try:
            fname.encode(sys.getfilesystemencoding())
        except UnicodeError:
            fname = None         # this process cannot name such a file at all (locale): not the library's doing

    def the_writer():
        return writer if writer is not None else ODMLWriter(wname)

    def the_reader():
        return reader if reader is not None else ODMLReader(rname, show_warnings=show_warnings)
    if entry == "string":
        text = the_writer().to_string(doc, **kwargs)
        return text, the_reader().from_string(text)
    if entry == "display":
        # odml.display: the document text goes to stdout, nothing else does
        buf = _OwnThreadText()
        old = sys.stdout
        sys.stdout = buf
        try:
            odml.display(doc, wname)
        finally:
            sys.stdout = old
        text = buf.getvalue()
        if text.endswith("\n"):
            text = text[:-1]                  # the line end print() adds
        return text, the_reader().from_string(text)
    path = os.path.join(tmpdir, (fname or "doc") + "." + fmt.lower())
    try:
        if entry == "file":
            the_writer().write_file(doc, path, **kwargs)
        elif entry == "save_noext":
            # odml.save completes a file name without extension by the backend name as it was given
            stem = os.path.join(tmpdir, (fname or "doc").replace(".", "_") + "_noext")
            odml.save(doc, stem, wname, **kwargs)
            path = stem + "." + wname if os.path.exists(stem + "." + wname) else stem
        else:
            odml.save(doc, path, wname, **kwargs)
    except ParserException as exc:
        raise SaveRefused(str(exc)[:300])
    if entry == "file":
        loaded = the_reader().from_file(path)
    else:
        loaded = odml.load(path, rname, show_warnings=show_warnings)
    with io.open(path, encoding="utf-8") as fh:
        text = fh.read()
    return text, loaded


# ----------------------------------------------------------------------------- histories
# One document, several saves / loads one after the other: the same writer / reader object used again
# (with and without an edit of the document in between, after a refused save, after a failed load), the
# same file written again, every spelling of the backend name, other library features used in between.
# The `history` stream runs such a list of steps in the process of the check (whatever its module-level
# state is by then), the `fresh` stream in a new interpreter (first use of everything; other hash seed,
# other locale).

BAD_TEXTS = {"JSON": ['{"Document": {}, "odml-version": "1.0"}', "[]", "{", '{"Document": {"foo": 1}, '
                      '"odml-version": "1.1"}', ""],
             "YAML": ["Document: {}\nodml-version: '1.0'\n", "- a\n", "{", "Document: {foo: 1}\n"
                      "odml-version: '1.1'\n", "a: !!python/object/apply:os.getcwd []\n"]}


def doc_sections(doc):
    out = []

    def walk(s):
        out.append(s)
        for c in s.sections:
            walk(c)
    for s in doc.sections:
        walk(s)
    return out


def apply_edit(doc, step, poison):
    """One edit of the living document through the public API. `poison` is the stack of undo functions
    of the edits that made the document invalid (a validation *error*: write_file has to refuse it)."""
    import random
    rng = random.Random(step["seed"])
    g = Gen(rng, commas=False, extra=True)
    kind = step["kind"]
    secs = doc_sections(doc)
    props = [p for s in secs for p in s.properties]
    tag = "e%d" % (step["seed"] % 100000)
    try:
        if kind == "unpoison":
            while poison:
                poison.pop()()
        elif kind == "add_sec" or not secs:
            build_sec(g.sec("sec " + tag, 3), rng.choice([doc] + secs))
        elif kind == "add_prop":
            build_prop(g.prop("prop " + tag), rng.choice(secs))
        elif kind == "add_kinds":
            build_sec(g.rich_sec("kinds " + tag), rng.choice([doc] + secs))
        elif kind == "remove_prop" and props:
            p = rng.choice(props)
            p.parent.remove(p)
        elif kind == "remove_sec":
            s = rng.choice(secs)
            s.parent.remove(s)
        elif kind == "set_attr":
            target = rng.choice([doc] + secs + props + props)
            if target is doc:
                attr = rng.choice(["author", "version", "date", "repository"])
                val = {"author": g.opt_str(0.7), "version": rng.choice(["2", 3, 0, None, "1e3"]),
                       "date": rng.choice([None, dt.date(987, 6, 5), dt.date(2024, 2, 29), "2020-01-02"]),
                       "repository": rng.choice([None, "http://example.invalid/r.xml"])}[attr]
            elif any(target is x for x in secs):
                attr = rng.choice(["definition", "reference", "type", "sec_cardinality", "prop_cardinality"])
                val = g.card() if attr.endswith("cardinality") else (g.pick_str() if attr == "type"
                                                                   else g.opt_str(0.7))
                if attr.endswith("cardinality") and val is not None:
                    val = tuple(val)
            else:
                attr = rng.choice(["unit", "definition", "reference", "value_origin", "uncertainty",
                                   "dependency_value", "val_cardinality"])
                if attr == "uncertainty":
                    val = rng.choice([None, 0, 0.0, 0.5, "0.5", 12])
                elif attr == "dependency_value":
                    val = rng.choice([None, 0, False, "yes", 1.5, ""])
                elif attr == "val_cardinality":
                    val = g.card()
                    val = tuple(val) if val is not None else None
                else:
                    val = g.opt_str(0.7)
            setattr(target, attr, val)
        elif kind == "set_values" and props:
            p = rng.choice(props)
            dtype, vals = g.values()
            p.values = None
            if dtype is not None:
                p.dtype = dtype
            p.values = [dec(v) for v in vals]
        elif kind == "rename":
            rng.choice(secs + props).name = "name " + tag
        elif kind == "reorder":
            rng.choice(secs + props).reorder(0)
        elif kind == "poison_type":
            s = rng.choice(secs)
            old = s.type
            s.type = ""

            def undo(s=s, old=old):
                s.type = old
            poison.append(undo)
        elif kind == "poison_dupid":
            s = rng.choice(secs)
            c = s.clone(keep_id=True)
            c.name = "dup " + tag
            s.parent.append(c)

            def undo(c=c):
                c.parent.remove(c)
            poison.append(undo)
        else:
            return {"op": "edit", "kind": kind, "done": False}
    except Exception as exc:
        return {"op": "edit", "kind": kind, "raised": fw.exc_name(exc)}
    return {"op": "edit", "kind": kind, "done": True}


def run_steps(case):
    """Runs the steps of a history on one living document -> {"steps": [observation per step]}."""
    import random
    from odml.tools.odmlparser import ODMLWriter, ODMLReader
    try:
        doc = build_doc(case["doc"], case.get("route"))
    except Exception as exc:
        return {"unbuildable": fw.exc_name(exc)}
    writers, readers = {}, {}
    poison = []
    out = []
    tmpdir = tempfile.mkdtemp(prefix="c02_")

    def reader_of(step, fmt):
        if step.get("r") is None:
            return None
        key = (fmt, step["r"], bool(step.get("show_warnings")))
        if key not in readers:
            readers[key] = ODMLReader(step["fmt"], show_warnings=key[2])
        return readers[key]

    def load_text(step, fmt, text, reader):
        rd = reader if reader is not None else ODMLReader(step.get("rfmt") or step["fmt"], show_warnings=False)
        if step.get("entry") in ("file", "saveload", "save_noext"):
            path = os.path.join(tmpdir, "foreign." + fmt.lower())
            with io.open(path, "w", encoding="utf-8", newline="") as fh:
                fh.write(text)
            return rd.from_file(path)
        return rd.from_string(text)
    try:
        for step in case["steps"]:
            op = step["op"]
            if op == "edit":
                out.append(apply_edit(doc, step, poison))
                continue
            if op == "other":
                # another feature of the library used in between; what it does is not this property's business
                o = {"op": "other", "what": step["what"]}
                try:
                    if step["what"] == "xml":
                        ODMLReader("xml", show_warnings=False).from_string(ODMLWriter("xml").to_string(doc))
                    elif step["what"] == "rdf":
                        ODMLWriter("rdf").to_string(doc.clone(keep_id=True))
                    elif step["what"] == "validate":
                        doc.validate()
                    elif step["what"] == "dict":
                        from odml.tools.dict_parser import DictWriter
                        DictWriter().to_dict(doc)
                except Exception as exc:
                    o["raised"] = fw.exc_name(exc)
                out.append(o)
                continue
            fmt = step["fmt"].upper()
            reader = reader_of(step, fmt)
            if op == "bad_load":
                # a load that fails (or warns): the reader object may be used again afterwards
                o = {"op": "bad_load", "fmt": fmt}
                try:
                    load_text(step, fmt, BAD_TEXTS[fmt][step["which"] % len(BAD_TEXTS[fmt])], reader)
                except Exception as exc:
                    o["raised"] = fw.exc_name(exc)
                out.append(o)
                continue
            if op == "foreign":
                # a 1.1 structure written by the harness itself, through the same (possibly used) reader
                o = {"op": "foreign", "fmt": fmt, "entry": step.get("entry")}
                layout = layout_of(case["doc"], random.Random(step["seed"]))
                text = foreign_text(layout, fmt, random.Random(step["seed"]))
                if text is None:
                    o["skipped"] = True
                else:
                    o["orig"] = snap_doc(build_doc(case["doc"]))
                    try:
                        loaded = load_text(step, fmt, text, reader)
                        o["loaded"] = snap_doc(loaded) if loaded is not None else None
                    except Exception as exc:
                        o["raised"] = fw.exc_name(exc)
                        o["msg"] = str(exc)[:300]
                out.append(o)
                continue
            # op == "rt": save the living document and load it again
            o = {"op": "rt", "fmt": fmt, "as": step["fmt"], "entry": step["entry"], "poisoned": bool(poison),
                 "orig": snap_doc(doc)}
            writer = None
            if step.get("w") is not None:
                key = (fmt, step["w"])
                if key not in writers:
                    writers[key] = ODMLWriter(step["fmt"])      # created at its first use, not before
                writer = writers[key]
            if step["entry"] == "dict":
                # DictWriter.to_dict / DictReader.to_odml themselves, the objects kept between steps
                from odml.tools.dict_parser import DictWriter, DictReader
                from odml.info import FORMAT_VERSION
                dw = writers.setdefault(("dict", step.get("w")), DictWriter()) \
                    if step.get("w") is not None else DictWriter()
                lenient = bool(step.get("show_warnings"))
                dr = readers.setdefault(("dict", step.get("r"), lenient),
                                        DictReader(show_warnings=False, ignore_errors=lenient)) \
                    if step.get("r") is not None else DictReader(show_warnings=False, ignore_errors=lenient)
                try:
                    image = {"Document": dw.to_dict(doc), "odml-version": FORMAT_VERSION}
                    o["layout"] = layout_problems(image)
                    # through the text and back: what the reader gets shares nothing with the writer's image
                    loaded = dr.to_odml(parse_text(fmt, ODMLWriter(fmt).to_string(doc))
                                        if step.get("through_text") else copy.deepcopy(image))
                    o["loaded"] = snap_doc(loaded) if loaded is not None else None
                except Exception as exc:
                    o["raised"] = fw.exc_name(exc)
                    o["msg"] = str(exc)[:300]
                out.append(o)
                continue
            try:
                text, loaded = via_entry(doc, fmt, step["entry"], tmpdir, wname=step["fmt"],
                                         rname=step.get("rfmt") or step["fmt"],
                                         show_warnings=bool(step.get("show_warnings")),
                                         fname=step.get("fname"), writer=writer, reader=reader,
                                         kwargs=step.get("kw"))
                o["loaded"] = snap_doc(loaded) if loaded is not None else None
                try:
                    parsed = parse_text(fmt, text)
                    o["layout"] = layout_problems(parsed)
                    o["strict"] = run_reader(parsed, False)
                except Exception as exc:
                    o["parsed"] = {"raised": fw.exc_name(exc)}
            except SaveRefused as exc:
                o["refused"] = str(exc)
            except Exception as exc:
                o["raised"] = fw.exc_name(exc)
                o["msg"] = str(exc)[:300]
            out.append(o)
    finally:
        for name in os.listdir(tmpdir):
            os.unlink(os.path.join(tmpdir, name))
        os.rmdir(tmpdir)
    return {"steps": out}


def steps_oracle(obs):
    """The property on every step of a history: what was saved loads to the document it was saved from
    (valid documents only: a step on a document the validation rejects demands nothing), the text is in the
    1.1 layout; a harness-written 1.1 structure loads to the document it describes."""
    out = []
    for i, o in enumerate(obs.get("steps", [])):
        if o.get("op") == "foreign":
            if o.get("skipped"):
                continue
            where = "step %d (foreign %s %s)" % (i, o["fmt"], o.get("entry"))
            if "raised" in o:
                out.append("%s: text in the 1.1 layout is refused: %s %s" % (where, o["raised"], o.get("msg")))
            elif o.get("loaded") is None:
                out.append("%s: loading returned None" % where)
            elif fw.canon(o["loaded"]) != fw.canon(o["orig"]):
                out.append("%s: text in the 1.1 layout loads to another document: %s"
                           % (where, first_diff(o["orig"], o["loaded"])))
            continue
        if o.get("op") != "rt" or o.get("poisoned") or "refused" in o:
            # refused: write_file found validation errors - not a case of this property (as in `roundtrip`)
            continue
        where = "step %d (%s as %r, %s)" % (i, o["fmt"], o["as"], o["entry"])
        if "raised" in o:
            out.append("%s: save/load raised %s: %s" % (where, o["raised"], o.get("msg")))
            continue
        if isinstance(o.get("parsed"), dict) and "raised" in o["parsed"]:
            out.append("%s: the text could not be parsed: %s" % (where, o["parsed"]["raised"]))
            continue
        if o.get("loaded") is None:
            out.append("%s: loading returned None" % where)
            continue
        if fw.canon(o["loaded"]) != fw.canon(o["orig"]):
            out.append("%s: loaded document differs from the saved one: %s"
                       % (where, first_diff(o["orig"], o["loaded"])))
        for prob in o.get("layout", []):
            out.append("%s layout: %s" % (where, prob))
        r = o.get("strict") or {}
        if "raised" in r:
            out.append("%s: strict DictReader raised %s on the saved text" % (where, r["raised"]))
        elif "doc" in r and fw.canon(r["doc"]) != fw.canon(o["orig"]):
            out.append("%s: strict DictReader on the saved text: document differs: %s"
                       % (where, first_diff(o["orig"], r["doc"])))
    return out


def gen_steps(rng, fresh):
    """A history: 2-6 saves/loads in every configuration, edits, refused saves, failed loads in between."""
    steps = []

    def fmt_name():
        f = rng.choice(FORMATS)
        return rng.choice(SPELLINGS[f])

    def rt(**kw):
        name = kw.pop("fmt", None) or fmt_name()
        st = {"op": "rt", "fmt": name, "entry": rng.choice(ENTRIES + ["dict"]),
              "w": rng.choice([None, 0, 0, 1]), "r": rng.choice([None, 0, 0, 1]),
              "show_warnings": rng.random() < 0.3,
              # a locale without UTF-8 cannot even name such a file: plain names in `fresh`
              "fname": None if fresh else rng.choice(FNAMES)}
        if rng.random() < 0.3:
            st["rfmt"] = rng.choice(SPELLINGS[name.upper()])
        if rng.random() < 0.2:
            st["kw"] = rng.choice([{"rdf_format": "turtle"}, {"local_style": True},
                                   {"custom_template": "x.xsl", "rdf_format": "xml"}])
        st.update(kw)
        if st["entry"] == "dict":
            st["through_text"] = rng.random() < 0.5
        return st
    if rng.random() < 0.35:
        steps.append({"op": "other", "what": rng.choice(["xml", "rdf", "validate", "dict"])})
    if rng.random() < 0.25:
        steps.append({"op": rng.choice(["bad_load", "foreign"]), "fmt": fmt_name(), "r": rng.choice([None, 0]),
                      "which": rng.randrange(8), "seed": rng.randrange(1 << 30),
                      "entry": rng.choice(["string", "file"])})
    n = rng.choice([2, 3, 4, 5, 6])
    seen = set()
    for i in range(n):
        r = rng.random()
        if i and r < 0.45:
            steps.append({"op": "edit", "seed": rng.randrange(1 << 30),
                          "kind": rng.choice(["add_sec", "add_prop", "add_kinds", "remove_prop", "remove_sec",
                                              "set_attr", "set_attr", "set_values", "rename", "reorder"])})
        elif i and r < 0.6:
            # a save the validation refuses, through the writer the next save uses again
            steps.append({"op": "edit", "seed": rng.randrange(1 << 30),
                          "kind": rng.choice(["poison_type", "poison_dupid"])})
            name = fmt_name()
            steps.append(rt(fmt=name, entry=rng.choice(["file", "file", "saveload", "string"]), w=0))
            steps.append({"op": "edit", "seed": 0, "kind": "unpoison"})
            steps.append(rt(fmt=rng.choice(SPELLINGS[name.upper()]), w=0))
            seen.add(name.upper())
            continue
        elif i and r < 0.75:
            steps.append({"op": rng.choice(["bad_load", "bad_load", "foreign"]), "fmt": fmt_name(), "r": 0,
                          "which": rng.randrange(8), "seed": rng.randrange(1 << 30),
                          "entry": rng.choice(["string", "file"])})
        st = rt()
        seen.add(st["fmt"].upper())
        steps.append(st)
    for f in FORMATS:
        if f not in seen:              # both formats in every history
            steps.append(rt(fmt=rng.choice(SPELLINGS[f])))
    if fresh:
        # files other tools wrote (raw UTF-8 among them), read under this process' locale
        for f in FORMATS:
            steps.append({"op": "foreign", "fmt": rng.choice(SPELLINGS[f]), "r": rng.choice([None, 0]),
                          "seed": rng.randrange(1 << 30), "entry": "file"})
    return steps


CHILD_MARK = "C02-OBSERVATION "


def fresh_child_main():
    """`c02.py --fresh-child`: one history in this new interpreter; case on stdin, observation on stdout."""
    case = json.loads(sys.stdin.buffer.read().decode("utf-8"))
    # the library prints (also from the threads that fetch repositories, at any later time): everything
    # but the one marked answer line goes nowhere, for good
    real = sys.stdout
    sys.stdout = io.StringIO()
    sys.stderr = io.StringIO()
    try:
        obs = run_steps(case)
    except BaseException:
        import traceback
        sys.__stderr__.write(traceback.format_exc())
        sys.__stderr__.flush()
        os._exit(1)
    real.write(CHILD_MARK + json.dumps(obs, ensure_ascii=True) + "\n")
    real.flush()
    os._exit(0)            # do not wait for such threads


def no_time(x, dates_too=False):
    """yaml.safe_dump has no representer for datetime.time: times travel as text (as in odML's own YAML);
    dates_too: dates and datetimes as text as well (what JSON does)."""
    if isinstance(x, dict):
        return dict((k, no_time(v, dates_too)) for k, v in x.items())
    if isinstance(x, list):
        return [no_time(v, dates_too) for v in x]
    if isinstance(x, dt.time) or (dates_too and isinstance(x, dt.date)):
        return str(x)
    return x


def foreign_text(layout, fmt, rng):
    """The layout as text in one of the dialects other tools write. None when json / PyYAML themselves
    do not read that text back to the same structure (then it does not describe the layout)."""
    import yaml
    try:
        if fmt == "JSON":
            want = no_time(layout, True)
            indent = rng.choice([None, 2, "\t", 0])
            text = json.dumps(want, ensure_ascii=rng.random() < 0.4, indent=indent,
                              separators=rng.choice([None, (",", ":"), (" , ", " : ")]),
                              sort_keys=rng.random() < 0.5)
            if rng.random() < 0.3:
                text = text.replace("\n", "\r\n")      # line feeds inside strings are escaped: layout only
            if rng.random() < 0.5:
                text += "\n"
            back = json.loads(text)
        else:
            want = no_time(layout, rng.random() < 0.3)
            text = yaml.safe_dump(want, default_flow_style=rng.choice([False, True, None]),
                                  allow_unicode=rng.random() < 0.6, explicit_start=rng.random() < 0.3,
                                  width=rng.choice([20, 80, 10000]), indent=rng.choice([2, 4]),
                                  default_style=rng.choice([None, None, '"', "'"]),
                                  sort_keys=rng.random() < 0.5,
                                  line_break=rng.choice(["\n", "\n", "\r\n"]))
            back = yaml.safe_load(text)
        if fw.canon(unordered(enc(back))) != fw.canon(unordered(enc(want))):
            return None
        text.encode("utf-8")                  # a lone surrogate written raw: not a text file at all
        return text
    except Exception:
        return None


def format_keys():
    from odml import format as fmt
    out = {}
    # the file keys of the 1.1 layout: the `_args` names, with the mapped name for the child lists
    for name, f in (("Document", fmt.Document), ("Section", fmt.Section), ("Property", fmt.Property)):
        out[name] = set(f._map.get(k, k) if k in ("section", "property") else k for k in f._args.keys())
    return out


def layout_problems(parsed):
    """The odML 1.1 dictionary layout, checked from format.py directly."""
    from odml.info import FORMAT_VERSION
    keys = format_keys()
    out = []
    if not isinstance(parsed, dict) or sorted(parsed.keys()) != ["Document", "odml-version"]:
        return ["root keys are %r" % (sorted(parsed.keys()) if isinstance(parsed, dict) else type(parsed),)]
    if parsed["odml-version"] != FORMAT_VERSION:
        out.append("odml-version is %r" % (parsed["odml-version"],))

    def sec(s, where):
        if not isinstance(s, dict):
            out.append("%s is not a dictionary" % where)
            return
        for k in s:
            if k not in keys["Section"]:
                out.append("key %r in %s is not defined by the format" % (k, where))
        for p in s.get("properties", []):
            if not isinstance(p, dict):
                out.append("property in %s is not a dictionary" % where)
                continue
            for k in p:
                if k not in keys["Property"]:
                    out.append("key %r in a property of %s is not defined by the format" % (k, where))
        for c in s.get("sections", []):
            sec(c, where + "/section")
    d = parsed["Document"]
    if not isinstance(d, dict):
        return out + ["Document is not a dictionary"]
    for k in d:
        if k not in keys["Document"]:
            out.append("key %r in Document is not defined by the format" % k)
    for s in d.get("sections", []):
        sec(s, "section")
    return out


# ----------------------------------------------------------------------------- the check
class C02(fw.Check):
    prop = "C02"
    lean_targets = ["OdmlModel.Props.C02"]
    obligations = ["C02." + t for t in [
        "format_keys_valid", "dict_layout", "dict_denote", "strict_lenient_agree",
        "foreign_key_strict", "foreign_key_lenient", "dict_roundtrip_partial", "write_denotes",
        "roundtrip_direct", "roundtrip_json", "roundtrip_yaml", "json_yaml_agree",
        "prop_roundtrip", "card_roundtrip", "falsy_attributes_kept", "dict_roundtrip_or_refused",
        "refused_iff_not_repr", "tuple_comma_counterexample",
    ]]

    trusted_base = [
        "Lean 4.33.0 kernel; axioms propext, Classical.choice, Quot.sound only (audited per theorem)",
        "hand-written model lean/OdmlModel/Model/Dict.lean, DictDoc.lean (+ Card.lean), tied to /repo by this run",
        "harness/extract_tables.py (format.py / dtypes.py tables regenerated into Lean on every run)",
        "Driver/*.lean JSON glue; harness/framework.py, harness/c02.py",
        "json / PyYAML text <-> dictionary: a contract (ScalarCodec), validated per scalar class on every run",
        "CPython uuid.UUID, int(), float(), strptime: parameters of the model (Lib), tabulated by the harness",
    ]
    assumptions = [
        "names are compared with == only between values of the same scalar type (1 == True == 1.0 is not modelled)",
        "str.lower() is modelled for ASCII; dtype strings are ASCII in the generated stream",
        "odml attributes hold None, bool, int, float or str (DictRepr); date objects only as Document.date and as values",
    ]
    rule = ("random documents over the alphabet of the theorem (depth<=3, all dtypes, string pool with every "
            "YAML-retypable / whitespace / punctuation / non-ASCII class, falsy attribute values, every optional "
            "attribute, all cardinality shapes) x {JSON,YAML} x {string,file,save/load} x {strict,lenient}; plus "
            "one-property documents per scalar class, hand-written 1.1 dictionaries with shuffled keys (as "
            "dict and as json / yaml text in several dialects, from strings and UTF-8 files), malformed "
            "dictionaries; configurations: spelling of the backend name, show_warnings, file names, "
            "odml.save without extension, odml.display, build route of the document; histories on one "
            "document with reused writer / reader objects, edits, refused saves and failed loads, run in "
            "this process and in new interpreters (hash seed, C locale). Non-trivial = the document has at least one Property or optional attribute; "
            "distinct = distinct canonical JSON of the case.")

    # -- generation ----------------------------------------------------------
    def generate(self, tier, rng):
        cases = []
        ndocs = 100 if tier == "quick" else 9000

        def config(case, k):
            """The configuration dimensions of a save/load: how the backend name is spelled for the writer
            and for the reader, the reader's show_warnings switch, the file name. (Every third case keeps
            the plain configuration.)"""
            if k % 3 == 0:
                return case
            case["spell"] = dict((f, [rng.choice(SPELLINGS[f]), rng.choice(SPELLINGS[f])]) for f in FORMATS)
            case["show_warnings"] = rng.random() < 0.3
            fname = rng.choice(FNAMES)
            if fname is not None:
                case["fname"] = fname
            return case
        for i in range(ndocs):
            g = Gen(rng, commas=(i % 10 == 9), wide=(i % 4 == 1))
            case = {"stream": "roundtrip", "doc": g.doc(), "entry": ENTRIES[i % len(ENTRIES)]}
            if i % 2:
                case["route"] = rng.choice(ROUTES)
            cases.append(config(case, i))
        # scalar classes, one at a time, in every position a scalar can take
        scalars = [("string", s) for s in STR_POOL if s != ""] + [("string", "")] + \
                  [("int", i) for i in INTS] + [("float", enc(f)) for f in FLOATS] + \
                  [("float", {"f": "nan"}), ("float", {"f": "inf"}), ("float", {"f": "-inf"})] + \
                  [("boolean", True), ("boolean", False)] + [("date", {"d": d}) for d in DATES] + \
                  [("time", {"t": t}) for t in TIMES] + [("datetime", {"dt": t}) for t in DATETIMES] + \
                  [("2-tuple", "(a;b)"), ("1-tuple", "(yes)"), ("3-tuple", "(1; 2;3 )")]
        step = 1 if tier == "thorough" else 3
        offset = rng.randrange(step)
        for idx, (dtype, v) in enumerate(scalars):
            if tier == "quick" and dtype == "string" and idx % step != offset and v not in (
                    "yes", "null", "1e3", "2020-01-01", " both ", "a\nb", "\u00e9", "~", "10:11:12"):
                continue
            cases.append(config({"stream": "scalar", "doc": one_prop_doc(rng, values=[v], dtype=dtype),
                                 "entry": rng.choice(["string", "display"])}, idx))
            cases.append(config({"stream": "scalar", "doc": one_prop_doc(rng, values=[v, v], dtype=dtype),
                                 "entry": rng.choice(["file", "save_noext"])}, idx + 1))
            if dtype == "string" and v != "":
                cases.append({"stream": "scalar", "entry": "string",
                              "doc": one_prop_doc(rng, values=[], dtype=None, unit=v, definition=v,
                                                  dependency=v, dependency_value=v, reference=v,
                                                  value_origin=v, name=v)})
        for unc in [0, 0.0, False, 0.5, 1, "0.5", 1e-7, {"f": "-0.0"}]:
            cases.append({"stream": "scalar", "entry": "string",
                          "doc": one_prop_doc(rng, values=[1], dtype="int", uncertainty=enc(unc) if not isinstance(unc, dict) else unc)})
        for name in ("string", "int", "float", "boolean", "date", "text"):
            cases.append({"stream": "scalar", "entry": "saveload",
                          "doc": one_prop_doc(rng, values=[], dtype={"enum": name})})
        # hand-written dictionaries in the layout
        nden = 40 if tier == "quick" else 3000
        for i in range(nden):
            g = Gen(rng, commas=False, falsy=(i % 2 == 0), enums=False)
            case = {"stream": "denote", "doc": g.doc(), "shuffle": rng.randrange(1 << 30)}
            if i % 2:
                case["variant"] = 1 + rng.randrange(1 << 30)
                config(case, i)
                case.pop("fname", None)
                case.pop("show_warnings", None)
            cases.append(case)
        # malformed dictionaries
        nmal = 100 if tier == "quick" else 6000
        for i in range(nmal):
            g = Gen(rng, commas=False, falsy=False, enums=False)
            cases.append({"stream": "malformed", "doc": g.doc(nsecs=rng.choice([1, 2])),
                          "mutation": rng.choice(MUTATIONS), "where": rng.randrange(1 << 30)})
        # histories on one living document, in this process and in new interpreters (oracle-only)
        nhist = 40 if tier == "quick" else 2500
        for i in range(nhist):
            g = Gen(rng, commas=False, extra=True, wide=(i % 5 == 0))
            case = {"stream": "history", "doc": g.doc(rich=(i % 2 == 0)), "steps": gen_steps(rng, False)}
            if i % 3 == 2:
                case["route"] = rng.choice(ROUTES)
            cases.append(case)
        nfresh = 36 if tier == "quick" else 480
        for i in range(nfresh):
            g = Gen(rng, commas=False, extra=True)
            cases.append({"stream": "fresh", "doc": g.doc(rich=(i % 4 != 3)), "steps": gen_steps(rng, True),
                          "hashseed": rng.choice([0, 1, 7, 4242, 2 ** 32 - 1]), "locale": i % 3 == 1})
        return cases

    # -- implementation ------------------------------------------------------
    def impl(self, case):
        st = case["stream"]
        if st in ("roundtrip", "scalar"):
            return self.impl_roundtrip(case)
        if st == "denote":
            return self.impl_denote(case)
        if st == "malformed":
            return self.impl_malformed(case)
        if st == "history":
            return run_steps(case)
        if st == "fresh":
            return self.impl_fresh(case)
        raise ValueError(st)

    def impl_fresh(self, case):
        """The history of the case in a new interpreter: nothing of the library has been used before its
        first step (module-level tables of odml, yaml and json are as the imports leave them); the hash
        seed and, for some cases, the locale / default text encoding differ from this process."""
        import subprocess
        env = dict(os.environ)
        env.update({"ODML_REPO": fw.REPO, "PYTHONPATH": os.path.join(fw.VERIF, "harness"),
                    "PYTHONDONTWRITEBYTECODE": "1", "PYTHONHASHSEED": str(case.get("hashseed", 0))})
        if case.get("locale"):
            env.update({"LC_ALL": "C", "LANG": "C", "PYTHONUTF8": "0", "PYTHONCOERCECLOCALE": "0"})
            env.pop("PYTHONIOENCODING", None)
        try:
            proc = subprocess.run([sys.executable, os.path.abspath(__file__), "--fresh-child"],
                                  input=json.dumps(case, ensure_ascii=True).encode("ascii"), env=env,
                                  stdout=subprocess.PIPE, stderr=subprocess.PIPE, timeout=90)
        except subprocess.TimeoutExpired:
            return {"skipped": "the child interpreter did not answer in time (loaded machine)"}
        if proc.returncode != 0:
            return {"child_failed": proc.stderr.decode("utf-8", "replace")[-800:]}
        for line in proc.stdout.decode("ascii", "replace").splitlines():
            if line.startswith(CHILD_MARK):
                return json.loads(line[len(CHILD_MARK):])
        return {"child_failed": "no answer line; stderr: " + proc.stderr.decode("utf-8", "replace")[-800:]}

    def impl_roundtrip(self, case):
        from odml.tools.dict_parser import DictWriter
        from odml.info import FORMAT_VERSION
        try:
            doc = build_doc(case["doc"], case.get("route"))
        except Exception as exc:
            return {"unbuildable": fw.exc_name(exc)}
        obs = {"orig": snap_doc(doc)}
        spell = case.get("spell") or {}
        try:
            d = DictWriter().to_dict(doc)
            obs["dict"] = enc({"Document": d, "odml-version": FORMAT_VERSION})
        except Exception as exc:
            obs["dict"] = {"raised": fw.exc_name(exc)}
        obs["direct"] = {"strict": run_reader({"Document": d, "odml-version": FORMAT_VERSION}, False)} \
            if isinstance(obs["dict"], dict) and "o" in obs["dict"] else None
        tmpdir = tempfile.mkdtemp(prefix="c02_")
        try:
            for fmt in FORMATS:
                o = {}
                try:
                    wname, rname = spell.get(fmt) or (fmt, fmt)
                    text, loaded = via_entry(doc, fmt, case["entry"], tmpdir, wname=wname, rname=rname,
                                             show_warnings=bool(case.get("show_warnings")),
                                             fname=case.get("fname"))
                except SaveRefused as exc:
                    obs[fmt] = {"refused": str(exc)}
                    continue
                except Exception as exc:
                    obs[fmt] = {"raised": fw.exc_name(exc), "msg": str(exc)[:300]}
                    continue
                o["loaded"] = snap_doc(loaded) if loaded is not None else None
                try:
                    parsed = parse_text(fmt, text)
                    o["parsed"] = enc(parsed)
                    o["layout"] = layout_problems(parsed)
                    o["strict"] = run_reader(parsed, False)
                    o["lenient"] = run_reader(parsed, True)
                except Exception as exc:
                    o["parsed"] = {"raised": fw.exc_name(exc)}
                    o["text"] = text[:2000]
                obs[fmt] = o
        finally:
            for name in os.listdir(tmpdir):
                os.unlink(os.path.join(tmpdir, name))
            os.rmdir(tmpdir)
        return obs

    def impl_denote(self, case):
        import random
        import yaml
        from odml.tools.odmlparser import ODMLReader, JSONDateTimeSerializer
        spec = case["doc"]
        try:
            doc = build_doc(spec)
        except Exception as exc:
            return {"unbuildable": fw.exc_name(exc)}
        obs = {"described": snap_doc(doc)}
        layout = layout_of(spec, random.Random(case["shuffle"]))
        obs["layout"] = enc(layout)
        obs["direct"] = {"strict": run_reader(layout, False), "lenient": run_reader(layout, True)}
        # the same structure as text written by other tools: plain json / yaml.safe_dump
        texts = {"JSON": json.dumps(layout, cls=JSONDateTimeSerializer),
                 "YAML": yaml.safe_dump(no_time(layout), default_flow_style=bool(case["shuffle"] % 2),
                                        allow_unicode=False)}
        how = {"JSON": "string", "YAML": "string"}
        if case.get("variant"):
            # ... and in the other dialects such tools write (raw UTF-8, other indentation / line width /
            # quoting / line ends, dates as text), from a string and from a UTF-8 file
            vrng = random.Random(case["variant"])
            for fmt in FORMATS:
                text = foreign_text(layout, fmt, vrng)
                if text is not None:
                    texts[fmt] = text
                how[fmt] = vrng.choice(["string", "file", "load"])
        spell = case.get("spell") or {}
        tmpdir = tempfile.mkdtemp(prefix="c02_")
        try:
            for fmt in FORMATS:
                rname = (spell.get(fmt) or (fmt, fmt))[1]
                try:
                    if how[fmt] == "string":
                        loaded = ODMLReader(rname, show_warnings=False).from_string(texts[fmt])
                    else:
                        path = os.path.join(tmpdir, "foreign." + fmt.lower())
                        with io.open(path, "w", encoding="utf-8", newline="") as fh:
                            fh.write(texts[fmt])
                        if how[fmt] == "file":
                            loaded = ODMLReader(rname, show_warnings=False).from_file(path)
                        else:
                            import odml
                            loaded = odml.load(path, rname, show_warnings=False)
                    obs[fmt] = {"loaded": snap_doc(loaded), "parsed": enc(parse_text(fmt, texts[fmt])),
                                "how": how[fmt]}
                except Exception as exc:
                    obs[fmt] = {"raised": fw.exc_name(exc), "msg": str(exc)[:300], "how": how[fmt]}
        finally:
            for name in os.listdir(tmpdir):
                os.unlink(os.path.join(tmpdir, name))
            os.rmdir(tmpdir)
        return obs

    def impl_malformed(self, case):
        import random
        spec = case["doc"]
        layout = layout_of(spec, None)
        if case["mutation"] == "root_not_dict":
            layout = random.Random(case["where"]).choice([[layout], [], "x", None, 5, [["Document", 1]]])
            note = "root_not_dict"
        else:
            note = mutate(layout, case["mutation"], random.Random(case["where"]))
        return {"layout": enc(layout), "note": note,
                "strict": run_reader(layout, False), "lenient": run_reader(layout, True)}

    # -- model ---------------------------------------------------------------
    def model_requests(self, case, obs):
        st = case["stream"]
        reqs = []
        if "unbuildable" in obs or st in ("history", "fresh"):
            return reqs          # histories: oracle-only (the model has no writer / reader objects)
        P = {"p": "C02"}
        if st in ("roundtrip", "scalar"):
            libw = lib_tables(obs["orig_strings"]) if "orig_strings" in obs else lib_tables(_snap_strings(obs["orig"]))
            reqs.append(dict(P, op="write", doc=obs["orig"], lib=libw))
            if obs.get("direct"):
                reqs.append(dict(P, op="read", mode="strict", lib=lib_tables(obs["dict"]), j=obs["dict"]))
            for fmt in FORMATS:
                o = obs.get(fmt) or {}
                pj = o.get("parsed")
                if isinstance(pj, dict) and "o" in pj and not has_weird(pj):
                    lib = lib_tables(pj)
                    reqs.append(dict(P, op="read", mode="strict", lib=lib, j=pj))
                    reqs.append(dict(P, op="read", mode="lenient", lib=lib, j=pj))
                    reqs.append(dict(P, op="denote", lib=lib, j=pj))
        elif st == "denote":
            lib = lib_tables(obs["layout"])
            reqs.append(dict(P, op="denote", lib=lib, j=obs["layout"]))
            reqs.append(dict(P, op="read", mode="strict", lib=lib, j=obs["layout"]))
            reqs.append(dict(P, op="read", mode="lenient", lib=lib, j=obs["layout"]))
            reqs.append(dict(P, op="layout", j=obs["layout"]))
        elif st == "malformed":
            if has_weird(obs["layout"]):
                return []
            lib = lib_tables(obs["layout"])
            reqs.append(dict(P, op="read", mode="strict", lib=lib, j=obs["layout"]))
            reqs.append(dict(P, op="read", mode="lenient", lib=lib, j=obs["layout"]))
        return reqs

    @staticmethod
    def cmp_read(label, ans, got, out):
        """model answer of a read vs the implementation's run_reader result."""
        if "error" in ans:
            if ans["error"] == "unmodelled":
                return
            if got.get("raised") != ans["error"]:
                out.append("%s: model raises %s, implementation gives %s"
                           % (label, ans["error"], got.get("raised", "a document")))
            return
        if "raised" in got:
            out.append("%s: model loads a document, implementation raises %s" % (label, got))
            return
        if fw.canon(ans["doc"]) != fw.canon(got["doc"]):
            out.append("%s: loaded documents differ: model %s implementation %s"
                       % (label, first_diff(ans["doc"], got["doc"]), ""))
        if len(ans["warnings"]) != got["warnings"]:
            out.append("%s: model has %d warnings, implementation %d"
                       % (label, len(ans["warnings"]), got["warnings"]))

    def compare(self, case, obs, answers):
        st = case["stream"]
        out = []
        if "unbuildable" in obs or not answers:
            return out
        it = iter(undo_cp(answers))
        if st in ("roundtrip", "scalar"):
            w = next(it)
            if isinstance(obs["dict"], dict) and "raised" in obs["dict"]:
                if w["ok"]:
                    out.append("DictWriter raised %s, the model writer returns" % obs["dict"]["raised"])
            else:
                if not w["ok"]:
                    out.append("model writer raises, DictWriter returned")
                elif fw.canon(w["dict"]) != fw.canon(obs["dict"]):
                    out.append("DictWriter.to_dict differs from writeDoc: %s" % first_diff(w["dict"], obs["dict"]))
                if not w["layout"]:
                    out.append("layoutOK is false on the model's own output")
            if obs.get("direct"):
                self.cmp_read("direct strict", next(it), obs["direct"]["strict"], out)
            for fmt in FORMATS:
                o = obs.get(fmt) or {}
                pj = o.get("parsed")
                if not (isinstance(pj, dict) and "o" in pj and not has_weird(pj)):
                    continue
                if w["ok"] and "dict" in w:
                    want = transport(w["dict"], fmt)
                    same = fw.canon(want) == fw.canon(pj) if fmt == "JSON" else \
                        fw.canon(unordered(want)) == fw.canon(unordered(pj))
                    if not same:
                        out.append("%s text parses to something else than Transport(writeDoc): %s"
                                   % (fmt, first_diff(unordered(want), unordered(pj))))
                self.cmp_read(fmt + " strict", next(it), o["strict"], out)
                self.cmp_read(fmt + " lenient", next(it), o["lenient"], out)
                den = next(it)
                if den is not None and "doc" in o["strict"] and \
                        fw.canon(den["doc"]) != fw.canon(o["strict"]["doc"]):
                    out.append("%s: denote differs from the loaded document: %s"
                               % (fmt, first_diff(den["doc"], o["strict"]["doc"])))
                if w.get("wf") and w.get("repr") and den is None:
                    out.append("%s: the written dictionary of a representable document does not denote" % fmt)
        elif st == "denote":
            den = next(it)
            rs = next(it)
            rl = next(it)
            lay = next(it)
            self.cmp_read("direct strict", rs, obs["direct"]["strict"], out)
            self.cmp_read("direct lenient", rl, obs["direct"]["lenient"], out)
            if den is not None and "doc" in obs["direct"]["strict"] and \
                    fw.canon(den["doc"]) != fw.canon(obs["direct"]["strict"]["doc"]):
                out.append("denote differs from the loaded document: %s"
                           % first_diff(den["doc"], obs["direct"]["strict"]["doc"]))
            if not lay:
                pass        # layoutOK wants the root keys in writer order; shuffled roots are fine
        elif st == "malformed":
            self.cmp_read("strict", next(it), obs["strict"], out)
            self.cmp_read("lenient", next(it), obs["lenient"], out)
        return out

    # -- oracle --------------------------------------------------------------
    def oracle(self, case, obs):
        if "harness_exception" in obs or "unbuildable" in obs:
            return []
        st = case["stream"]
        out = []
        if st in ("history", "fresh"):
            if "child_failed" in obs:
                return ["the history could not be run in a new interpreter: %s" % obs["child_failed"]]
            return steps_oracle(obs)
        if st in ("roundtrip", "scalar"):
            orig = obs["orig"]
            if isinstance(obs["dict"], dict) and "raised" in obs["dict"]:
                out.append("DictWriter.to_dict raised %s" % obs["dict"]["raised"])
            loaded = {}
            for fmt in FORMATS:
                o = obs.get(fmt) or {}
                if "refused" in o:
                    continue
                if "raised" in o:
                    out.append("%s %s: save/load raised %s: %s" % (fmt, case["entry"], o["raised"], o.get("msg")))
                    continue
                if isinstance(o.get("parsed"), dict) and "raised" in o["parsed"]:
                    out.append("%s text could not be parsed: %s" % (fmt, o["parsed"]["raised"]))
                    continue
                if o.get("loaded") is None:
                    out.append("%s %s: loading returned None" % (fmt, case["entry"]))
                    continue
                loaded[fmt] = o["loaded"]
                if fw.canon(o["loaded"]) != fw.canon(orig):
                    out.append("%s %s: loaded document differs from the saved one: %s"
                               % (fmt, case["entry"], first_diff(orig, o["loaded"])))
                for prob in o.get("layout", []):
                    out.append("%s layout: %s" % (fmt, prob))
                for mode in ("strict", "lenient"):
                    r = o.get(mode) or {}
                    if "raised" in r:
                        out.append("%s %s DictReader raised %s" % (fmt, mode, r["raised"]))
                    else:
                        if fw.canon(r["doc"]) != fw.canon(orig):
                            out.append("%s %s DictReader: document differs: %s"
                                       % (fmt, mode, first_diff(orig, r["doc"])))
                        if r["warnings"]:
                            out.append("%s %s DictReader: %d warnings on a saved document"
                                       % (fmt, mode, r["warnings"]))
                # scalar contract of json / yaml: the parsed text is the written dictionary
                if isinstance(obs["dict"], dict) and "o" in obs["dict"] and isinstance(o.get("parsed"), dict) \
                        and "o" in o["parsed"]:
                    want = unordered(transport(obs["dict"], fmt))
                    if fw.canon(want) != fw.canon(unordered(o["parsed"])):
                        out.append("%s codec: the text does not parse back to the written dictionary: %s"
                                   % (fmt, first_diff(want, unordered(o["parsed"]))))
            if len(loaded) == 2 and fw.canon(loaded["JSON"]) != fw.canon(loaded["YAML"]):
                out.append("JSON and YAML load to different documents: %s"
                           % first_diff(loaded["JSON"], loaded["YAML"]))
        elif st == "denote":
            want = obs["described"]
            for mode in ("strict", "lenient"):
                r = obs["direct"][mode]
                if "raised" in r:
                    out.append("a dictionary in the 1.1 layout is refused by the %s reader: %s" % (mode, r))
                else:
                    if fw.canon(r["doc"]) != fw.canon(want):
                        out.append("%s reader: a dictionary in the 1.1 layout loads to another document: %s"
                                   % (mode, first_diff(want, r["doc"])))
                    if r["warnings"]:
                        out.append("%s reader warns on a dictionary in the 1.1 layout" % mode)
            for fmt in FORMATS:
                o = obs[fmt]
                if "raised" in o:
                    out.append("%s text in the 1.1 layout is refused: %s %s" % (fmt, o["raised"], o.get("msg")))
                elif fw.canon(o["loaded"]) != fw.canon(want):
                    out.append("%s text in the 1.1 layout loads to another document: %s"
                               % (fmt, first_diff(want, o["loaded"])))
        return out

    def finding_key(self, case, obs, failure):
        if case["stream"] in ("roundtrip", "scalar", "denote") and spec_has_tuple_comma(case["doc"]):
            # since fix 0846f56 the writer refuses such a document (ParserException) instead of
            # writing a text that cannot be loaded; anything else on such a document is new
            if "DictWriter.to_dict raised ParserException" in failure or \
                    ("save/load raised ParserException" in failure and "contains a comma" in failure):
                return "C02-tuple-item-comma"
        # a Property of an n-tuple dtype whose stored value is None (the open C05 finding
        # C05-tuple-empty-item-stored-as-none: `p.values = ['']` on a tuple Property stores [None], pinned by
        # test_dtypes.test_tuple) makes every writer raise TypeError from ";".join(None): narrow - this exception,
        # this message, and the document written at that step really holds such a value
        m = re.match(r"step (\d+) ", failure)
        if m and "save/load raised TypeError: can only join an iterable" in failure:
            steps = obs.get("steps", []) if isinstance(obs, dict) else []
            i = int(m.group(1))
            if i < len(steps) and _has_tuple_none(steps[i].get("orig")):
                return "C02-tuple-value-none"
        return None

    def tag(self, case, obs):
        st = case["stream"]
        if "unbuildable" in obs:
            return (st + ":unbuildable", False)
        if st in ("roundtrip", "scalar"):
            nt = bool(obs["orig"]["secs"])
            if any("refused" in (obs.get(f) or {}) for f in FORMATS):
                return ("%s:%s:save-refused" % (st, case["entry"]), False)
            return ("%s:%s" % (st, case["entry"]), nt)
        if st in ("history", "fresh"):
            if "skipped" in obs or "child_failed" in obs:
                return (st + ":not-run", False)
            rts = [o for o in obs.get("steps", []) if o.get("op") == "rt"]
            first = rts[0] if rts else {}
            return ("%s:first=%s" % (st, first.get("as")), bool(rts))
        if st == "malformed":
            r = obs.get("strict", {})
            return ("malformed:%s:%s" % (case["mutation"], r.get("raised", "ok")), True)
        return (st, True)


def _has_tuple_none(snapshot):
    """does the document snapshot hold a Property of an n-tuple dtype with a value that is None?"""
    def sec(s):
        for pr in s.get("props", []) or []:
            dt = pr.get("dtype")
            if isinstance(dt, str) and dt.endswith("-tuple") and any(v is None for v in (pr.get("values") or [])):
                return True
        return any(sec(x) for x in (s.get("secs", []) or []))
    return isinstance(snapshot, dict) and any(sec(x) for x in (snapshot.get("secs", []) or []))


def _snap_strings(snapshot):
    """All attribute strings of a snapshot as one J-encoded list (for the Lib tables of `write`)."""
    out = []

    def walk(x):
        if isinstance(x, dict):
            for v in x.values():
                walk(v)
        elif isinstance(x, list):
            for v in x:
                walk(v)
        elif isinstance(x, str):
            out.append(x)
    walk(snapshot)
    return out


def first_diff(a, b, path=""):
    """Short description of the first difference of two JSON values."""
    if type(a) != type(b):
        return "%s: %s vs %s" % (path or ".", json.dumps(a)[:120], json.dumps(b)[:120])
    if isinstance(a, dict):
        for k in sorted(set(a) | set(b)):
            if k not in a or k not in b:
                return "%s/%s: %s vs %s" % (path, k, json.dumps(a.get(k, "<absent>"))[:120],
                                            json.dumps(b.get(k, "<absent>"))[:120])
            d = first_diff(a[k], b[k], path + "/" + k)
            if d:
                return d
        return ""
    if isinstance(a, list):
        if len(a) != len(b):
            return "%s: length %d vs %d (%s vs %s)" % (path or ".", len(a), len(b), json.dumps(a)[:100],
                                                       json.dumps(b)[:100])
        for i, (x, y) in enumerate(zip(a, b)):
            d = first_diff(x, y, "%s[%d]" % (path, i))
            if d:
                return d
        return ""
    if a != b:
        return "%s: %s vs %s" % (path or ".", json.dumps(a)[:120], json.dumps(b)[:120])
    return ""


# ----------------------------------------------------------------------------- malformed inputs
MUTATIONS = ["foreign_doc_key", "foreign_sec_key", "foreign_prop_key", "python_names", "no_document",
             "no_version", "wrong_version", "bad_value", "dup_prop_names", "dup_sec_names",
             "odml_child_key", "bad_card", "bad_id", "no_name", "value_and_values", "none",
             "root_not_dict", "document_not_dict", "sections_not_list", "section_not_dict",
             "properties_not_list", "property_not_dict", "bad_doc_date", "doc_section_key",
             "dtype_spelling"]


def all_secs(layout):
    out = []

    def walk(s):
        out.append(s)
        for c in s.get("sections", []):
            walk(c)
    for s in layout.get("Document", {}).get("sections", []):
        walk(s)
    return out


def mutate(layout, mutation, rng):
    """Mutates a layout dictionary in place; returns a note."""
    secs = all_secs(layout)
    props = [(s, p) for s in secs for p in s.get("properties", [])]
    if mutation == "foreign_doc_key":
        layout["Document"][rng.choice(["foo", "properties", "name", "Author"])] = "x"
    elif mutation == "foreign_sec_key" and secs:
        rng.choice(secs)[rng.choice(["foo", "value", "unit", "author"])] = "x"
    elif mutation == "foreign_prop_key" and props:
        rng.choice(props)[1][rng.choice(["foo", "sections", "link", "Name"])] = "x"
    elif mutation == "python_names" and props:
        s, p = rng.choice(props)
        for old, new in (("id", "oid"), ("type", "dtype"), ("value", "values"),
                         ("dependencyvalue", "dependency_value")):
            if old in p and rng.random() < 0.7:
                p[new] = p.pop(old)
        if rng.random() < 0.5:
            s["oid"] = s.pop("id")
    elif mutation == "no_document":
        layout.pop("Document")
    elif mutation == "no_version":
        layout.pop("odml-version")
    elif mutation == "wrong_version":
        layout["odml-version"] = rng.choice(["1.0", "2", 1.1, 1, None, "1.10"])
    elif mutation == "bad_value" and props:
        p = rng.choice(props)[1]
        p["type"] = rng.choice(["int", "float", "boolean", "date", "time", "datetime", "2-tuple"])
        p["value"] = rng.choice([["x"], ["1", "y"], "[a, b]", ["2020-13-01"], [1.5, "z"], ["(1;2;3)"],
                                 "text", [True, "maybe"], "12", ["12", "13"], "[1, 2]", ["25:00:00"],
                                 ["1.5", "2"], [2, 3.0], "(1;2)", ["(1;2)", "(3;4)"], [["1", "2"]],
                                 [" 7 "], ["1e3"], "[(1;2),(3;4)]", ["true", "F", "0"], [1, 0]])
    elif mutation == "dup_prop_names" and props:
        s, p = rng.choice(props)
        q = copy.deepcopy(p)
        q["id"] = new_id(rng)
        s["properties"].append(q)
    elif mutation == "dup_sec_names" and secs:
        s = rng.choice(secs)
        if s.get("sections"):
            q = copy.deepcopy(s["sections"][0])
            q["id"] = new_id(rng)
            s["sections"].append(q)
        else:
            return "noop"
    elif mutation == "odml_child_key" and secs:
        s = rng.choice(secs)
        if rng.random() < 0.5:
            s["section"] = s.pop("sections")
        else:
            s["property"] = s.pop("properties")
    elif mutation == "bad_card" and secs:
        s = rng.choice(secs)
        s[rng.choice(["sec_cardinality", "prop_cardinality"])] = rng.choice(
            [[3, 1], [1], "x", [None, None], [-1, 2], ["None", 3], [1, 2, 3], 5, [2, "None"], [0, 0],
             [True, 2], [1.5, 2], {}])
    elif mutation == "bad_id" and props:
        rng.choice(props)[1]["id"] = rng.choice(["not-a-uuid", "", "12345", "{" + new_id(rng) + "}",
                                                 new_id(rng).upper(), new_id(rng).replace("-", "")])
    elif mutation == "no_name" and props:
        p = rng.choice(props)[1]
        if rng.random() < 0.5:
            p.pop("name")
        else:
            p["name"] = rng.choice(["", None])
    elif mutation == "value_and_values" and props:
        p = rng.choice(props)[1]
        p["values"] = ["other"]
        p["type"] = "string"
    elif mutation == "document_not_dict":
        layout["Document"] = rng.choice([[], "x", None, 5, [layout["Document"]]])
    elif mutation == "sections_not_list":
        target = rng.choice(secs + [layout["Document"]]) if secs else layout["Document"]
        target["sections"] = rng.choice(["x", 5, None, {}, {"a": 1}, True])
    elif mutation == "section_not_dict":
        target = rng.choice(secs + [layout["Document"]]) if secs else layout["Document"]
        target.setdefault("sections", []).insert(rng.randrange(2), rng.choice(["x", 5, None, [], [1]]))
    elif mutation == "properties_not_list" and secs:
        rng.choice(secs)["properties"] = rng.choice(["x", 5, None, {}, {"a": 1}, False])
    elif mutation == "property_not_dict" and secs:
        rng.choice(secs).setdefault("properties", []).insert(rng.randrange(2),
                                                             rng.choice(["x", 5, None, [], [1]]))
    elif mutation == "bad_doc_date":
        layout["Document"]["date"] = rng.choice(["2020-13-01", "yesterday", 5, [2020, 1, 2], "2020-01-02",
                                                 "", 0, dt.datetime(2020, 1, 2, 3, 4, 5)])
    elif mutation == "doc_section_key":
        layout["Document"]["section"] = layout["Document"].pop("sections")
    elif mutation == "dtype_spelling" and props:
        p = rng.choice(props)[1]
        kind = rng.choice(["string", "int", "boolean", "tuple"])
        if kind == "string":
            p["type"] = rng.choice(["String", "str", "STR", "Text", "URL", "join", "upper", "name", "foo"])
            p["value"] = ["a", "B"]
        elif kind == "int":
            p["type"] = rng.choice(["Int", "INT", "iNt"])
            p["value"] = rng.choice([[1, 2], ["3"], [1.0]])
        elif kind == "boolean":
            p["type"] = rng.choice(["bool", "Bool", "Boolean", "BOOLEAN"])
            p["value"] = rng.choice([[True], ["true", "F"], [1, 0]])
        else:
            p["type"] = rng.choice(["2-Tuple", "2-TUPLE", "02-tuple", "0-tuple"])
            p["value"] = rng.choice(["[(1;2),(3;4)]", ["(1;2)"], [["1", "2"]]])
    else:
        return "noop"
    return mutation


if __name__ == "__main__":
    if sys.argv[1:2] == ["--fresh-child"]:
        sys.exit(fresh_child_main())
    sys.exit(fw.main(C02(), sys.argv[1:]))
