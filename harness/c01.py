# -*- coding: utf-8 -*-
"""
C01 - XML save/load is lossless and conforms to odML format 1.1.

Tie between lean/OdmlModel/{Py/Csv, Model/XmlCsv, Model/Xml, Model/XmlRepr}.lean and /repo.

Streams
  csvlib   the Lean model of csv.writer / csv.reader (excel dialect) against the real `csv` module
  csv      to_csv / from_csv against the model; oracle: from_csv(to_csv(vs)) == [v.strip() for v in vs]
  doc      generated documents x every writer entry point x every reader entry point:
           tree written (bare lxml) vs writeXml, loaded snapshot + warning count vs readXml,
           oracle: the round-trip law over the public API, vocabulary, version attribute
  foreign  XML "written by another tool": the written text re-ordered / padded / re-cased
           (benign: must load to the same document) or damaged (correspondence with the
           strict and lenient reader model only)
  surface  (round 3) the same element tree in the other legal spellings of an XML file: declared
           encodings (UTF-8/16, Latin-1/9, cp1252, US-ASCII with character references), byte order
           marks, declaration styles, prolog / epilog, line ends, CDATA, root tag spelling, no
           white space; file / bytes / str / stream entry points; reader model + oracle
  session  (round 3, oracle only) one writer / reader object used several times, with an edit in
           between, after a refused or failed call; loaded documents saved again; other features
           of the library used in between
  proc     (round 3, oracle only) the round trip in a fresh interpreter under another locale,
           hash seed, optimisation level
  tokobj   (round 4) one date / time / datetime object in a non-canonical shape (time zone aware,
           microseconds, fold, subclass) handed to a Property: the stored value, its text and what
           the reader makes of it vs Model/XmlTok.lean; oracle: the XML round trip of that Property
Round 4 also widened the documents of every stream: values handed over in non-canonical shapes and
through the whole value API (`vplan`), inferred dtypes, attributes that are no texts, cardinalities
as lists / single ints / with bool bounds.
"""
import csv
import datetime
import io
import os
import re
import shutil
import sys
import tempfile
import uuid
import warnings

import framework as fw

warnings.simplefilter("ignore")

ATOMS = [u"a", u"b", u"x", u"1", u",", u'"', u"[", u"]", u"(", u")", u";", u"\n", u"\r", u" ",
         u"\xa0", u"<", u"&", u"\xe9", u"中", u"\t", u"'", u">", u"-", u"."]
# second alphabet (round 3): characters that mean something to the machinery *around* the value
# encoding - %-formatting, str.format, string.Template, re.sub replacement strings, URLs / file
# names, XML character references - and characters at the edges of what encodings, str.strip and
# XML 1.0 treat alike: Latin-1 / cp1252 / Latin-9 letters, astral, combining, zero width, BOM,
# C1 controls, the white space of str.strip beyond ASCII (FS..US, NEL, IDEOGRAPHIC SPACE, VT, FF)
ATOMS2 = [u"%", u"%", u"{", u"}", u"$", u"\\", u"#", u"/", u":", u"=", u"*", u"?", u"!", u"|", u"~",
          u"^", u"`", u"@", u"+", u"_", u"0", u"s", u"d", u"\u20ac", u"\xb5", u"\xfc", u"\xdf",
          u"\U0001F600", u"\u0301", u"\u200b", u"\u3000", u"\x85", u"\u2028", u"\ufeff", u"\x7f",
          u"\x9f", u"\x80", u"\u0153"]
# never representable in XML 1.0 (lxml refuses them inside a text) - only put into documents, rarely
CTRL = [u"\x00", u"\x01", u"\x08", u"\x0b", u"\x0c", u"\x0e", u"\x1c", u"\x1f", u"\ufffe", u"\uffff"]
SURROGATES = [u"\ud800", u"\udfff", u"\udc80"]
POOL = [u"a", u"b", u"a,b", u'x"', u'"x', u'a"b', u"[a]", u"[]", u"[", u"]", u"", u" ", u" a ",
        u"a\nb", u"a\r\nb", u"a\rb", u"<&>", u"\xe9中", u"None", u"(1;2)", u"a;b", u"\xa0a",
        u"a, b", u'""', u'"', u"[a,b]", u"1", u"True", u"x y", u"\ta\t", u"a]", u"[a",
        # line boundaries of str.splitlines() that are no line ends for csv / XML 1.0
        u"a\u2028b", u"a\x85b", u"a\u2029b,c"]
# round 3: format / template / replacement metacharacters, XML look-alikes, words of other encodings
POOL2 = [u"%", u"%%", u"%s", u"100%", u"in % of max", u"%(a)s", u"%d%%", u"50 %, 60 %", u"{0}", u"{}",
         u"{a", u"${x}", u"$1", u"\\1", u"\\g<0>", u"\\n", u"\\", u"a\\,b", u"&amp;", u"&#10;", u"&#xE9;",
         u"&lt;", u"]]>", u"<![CDATA[x]]>", u"<!-- c -->", u"<?pi?>", u'<odML version="1.1">',
         u"</value>", u"<value>a</value>", u'<?xml version="1.0" encoding="ISO-8859-1"?>',
         u"a%20b", u"file:///x#y", u"J\xfcrgen M\xfcller", u"\xb5V", u"\u20ac 5", u"Zo\xeb, na\xefve",
         u"\u0153uvre", u"\U0001F600", u"e\u0301", u"\u200bz\u200b", u"\u3000w\u3000", u"\x85n\x85",
         u"\ufeffb", u"a\x80\x9fb", u"\xc3\xa9", u"\xff\xfe"]
# white space of str.strip that XML 1.0 cannot carry: value encoding only (csv stream)
POOL_CSV = [u"\x1cf\x1f", u"\x0bv\x0c", u"\x1d", u"a\x0bb", u"\x1e,\x0c"]
REPOS = [None, None, None, u"file:///nonexistent/terms.xml"]
TEMPLATE = u'<xsl:template match="odML"><b>custom</b></xsl:template>'
# custom templates (round 3): the template text itself is arbitrary XSL, it may hold the same
# metacharacters as the document
TEMPLATES = [TEMPLATE,
             u'<xsl:template match="odML"><p>100% {$x} %s %(a)s \\1 \\g&lt;0&gt; $1</p></xsl:template>',
             u'<xsl:template match="odML"><html><body>d\xe9j\xe0 中 \u20ac</body></html></xsl:template>',
             u'<xsl:template match="odML"><xsl:value-of select="author"/>%%<section/><odML version="1.1">x</odML></xsl:template>']


def atom(rng):
    return rng.choice(ATOMS) if rng.random() < 0.8 else rng.choice(ATOMS2)


def gen_text(rng, allow_empty=True):
    r = rng.random()
    if r < 0.36:
        t = rng.choice(POOL)
    elif r < 0.48:
        t = rng.choice(POOL2)
    else:
        t = u"".join(atom(rng) for _ in range(rng.randrange(0, 7)))
    if not allow_empty and not t.strip():
        t = u"w" + t
    return t


def gen_id(rng):
    return str(uuid.UUID(int=rng.getrandbits(128)))


def gen_card(rng):
    r = rng.random()
    if r < 0.5:
        return None
    # bounds of one and of several digits (texts compare differently from numbers: "10" < "2"),
    # an explicit minimum of 0, very large bounds
    nums = [1, 2, 3, 4, 1, 2, 3, 4, 9, 10, 11, 12, 25, 99, 100, 1000, 10 ** 12]
    a, b = rng.choice(nums), rng.choice(nums)
    shape = rng.randrange(5)
    if shape == 0:
        return [None, b]
    if shape == 1:
        return [a, None]
    if shape == 2:
        return [min(a, b), max(a, b) + (1 if a == b else 0)]
    if shape == 3:
        return [0, b]
    return [a, a]


def opt_text(rng, p=0.35):
    return gen_text(rng) if rng.random() < p else None


def gen_values(rng, kind, n):
    out = []
    for _ in range(n):
        if kind in ("string", "text", "url", "person"):
            out.append({"s": gen_text(rng)})
        elif kind == "int":
            out.append({"i": rng.choice([0, 1, -1, 7, -12, rng.randrange(-10 ** 6, 10 ** 6),
                                         rng.randrange(-10 ** 25, 10 ** 25)])})
        elif kind == "boolean":
            out.append({"b": rng.random() < 0.5})
        elif kind == "float":
            f = rng.choice([0.5, -1.25, 1e22, 0.1 + 0.2, 3.0, 1e-7, float("inf"),
                            rng.uniform(-1000, 1000), rng.random(),
                            # boundary floats (round 3); compared by their text, so nan is fine
                            -0.0, float("-inf"), float("nan"), 1.7976931348623157e308, 5e-324,
                            1e16, 123456789012345678.0, 1e-5, 100.0])
            out.append({"k": str(f), "py": "float"})
        elif kind == "date":
            d = datetime.date(rng.choice([5, 999, 1000, 1999, 2024, 9999]), rng.randrange(1, 13),
                              rng.randrange(1, 29))
            out.append({"k": str(d), "py": "date"})
        elif kind == "time":
            out.append({"k": str(datetime.time(rng.randrange(24), rng.randrange(60), rng.randrange(60))),
                        "py": "time"})
        elif kind == "datetime":
            d = datetime.datetime(rng.choice([5, 999, 1000, 1999, 2024, 9999]), rng.randrange(1, 13),
                                  rng.randrange(1, 29), rng.randrange(24), rng.randrange(60),
                                  rng.randrange(60))
            out.append({"k": str(d), "py": "datetime"})
    return out


def gen_item(rng):
    if rng.random() < 0.06:
        return rng.choice([u"a,b", u"a\nb", u",", u"a\rb"])
    t = u"".join(rng.choice([u"a", u"1", u"(", u")", u'"', u"[", u"]", u" ", u"\xe9", u"<", u"x"])
                 for _ in range(rng.randrange(0, 4)))
    return t.strip()


# ----------------------------------------------------------------------------- value shapes (round 4)
# "every document buildable through the public API": a value does not have to be handed over in the
# canonical Python form of its dtype. Descriptors (JSON) of the objects a caller may pass instead:
# time / datetime objects that are time zone aware (UTC, fixed offsets incl. negative and sub-minute
# ones, an own tzinfo class, a tzinfo without offset), carry microseconds or fold=1, instances of
# subclasses (with an own __str__), texts in the spellings strptime / int() / float() / boolean_get
# accept, numbers of a neighbouring class (bool / float / Decimal / Fraction / IntEnum for int, ...),
# anything at all for the text dtypes, None. `raw_value` builds the object; what the library makes
# of it is its business - the document it then holds is what has to survive save / load.
TZS = [None, None, {"k": "utc"}, {"k": "fixed", "sec": 7200}, {"k": "fixed", "sec": -19800},
       {"k": "fixed", "sec": 20715}, {"k": "fixed", "sec": -86340}, {"k": "fixed", "sec": 0},
       {"k": "own", "sec": 3600}, {"k": "own", "sec": None}]


class _Zone(datetime.tzinfo):
    """a tzinfo class of the caller (as pytz / dateutil zones are); sec None: no offset known"""

    def __init__(self, sec):
        self.sec = sec

    def utcoffset(self, when):
        return None if self.sec is None else datetime.timedelta(seconds=self.sec)

    def dst(self, when):
        return None if self.sec is None else datetime.timedelta(0)

    def tzname(self, when):
        return "Own/Zone"


class _Time(datetime.time):
    pass


class _Date(datetime.date):
    pass


class _DateTime(datetime.datetime):
    pass


class _TimeStr(datetime.time):
    def __str__(self):
        return "T" + self.isoformat()


class _DateStr(datetime.date):
    def __str__(self):
        return self.strftime("%d.%m.%Y")


class _DateTimeStr(datetime.datetime):
    def __str__(self):           # (the way pandas.Timestamp / isoformat spell it)
        return self.isoformat()


class _Int(int):
    def __str__(self):
        return "#%d" % int(self)
    __repr__ = __str__


class _Float(float):
    def __str__(self):
        return "%.1f approx." % float(self)
    __repr__ = __str__


class _Str(str):
    pass


def mk_tz(tz):
    if tz is None:
        return None
    if tz["k"] == "utc":
        return datetime.timezone.utc
    if tz["k"] == "fixed":
        return datetime.timezone(datetime.timedelta(seconds=tz["sec"]))
    return _Zone(tz["sec"])


def raw_value(d):
    """the Python object a raw value descriptor stands for"""
    import decimal
    import enum
    import fractions
    r = d["r"]
    if r == "time":
        cls = [datetime.time, _Time, _TimeStr][d.get("sub", 0)]
        return cls(*d["a"], tzinfo=mk_tz(d.get("tz")), fold=d.get("fold", 0))
    if r == "datetime":
        cls = [datetime.datetime, _DateTime, _DateTimeStr][d.get("sub", 0)]
        return cls(*d["a"], tzinfo=mk_tz(d.get("tz")), fold=d.get("fold", 0))
    if r == "date":
        return [datetime.date, _Date, _DateStr][d.get("sub", 0)](*d["a"])
    if r in ("s", "i", "b"):
        return d["v"]
    if r == "f":
        return float(d["v"])
    if r == "none":
        return None
    if r == "dec":
        return decimal.Decimal(d["v"])
    if r == "frac":
        return fractions.Fraction(d["v"][0], d["v"][1])
    if r == "bytes":
        return d["v"].encode("utf-8")
    if r == "list":
        return [raw_value(x) for x in d["v"]]
    if r == "tuple":
        return tuple(raw_value(x) for x in d["v"])
    if r == "dict":
        return dict((k, raw_value(x)) for k, x in d["v"].items())
    if r == "intenum":
        return enum.IntEnum("Level", {"A": d["v"]}).A
    if r == "dtype":                         # a member of odml.DType (a str Enum) used as a text
        import odml
        return getattr(odml.DType, d["v"])
    if r == "isub":
        return _Int(d["v"])
    if r == "fsub":
        return _Float(float(d["v"]))
    if r == "ssub":
        return _Str(d["v"])
    raise ValueError(r)


def contain(how, objs):
    """the container (or not) in which a list of values is handed over"""
    if how == "tuple":
        return tuple(objs)
    if how == "iter":
        return iter(objs)
    if how == "gen":
        return (o for o in objs)
    if how == "scalar" and len(objs) == 1:
        return objs[0]
    if how == "dictkeys":
        try:
            d = dict((o, None) for o in objs)
            if len(d) == len(objs):
                return d.keys()
        except TypeError:
            pass
    return list(objs)


def gen_raw_time(rng):
    return {"r": "time", "a": [rng.choice([0, 1, 10, 12, 23, rng.randrange(24)]), rng.randrange(60),
                               rng.choice([0, 59, rng.randrange(60)]),
                               rng.choice([0, 0, 1, 250000, 999999, rng.randrange(10 ** 6)])],
            "tz": rng.choice(TZS), "fold": rng.choice([0, 0, 0, 1]), "sub": rng.choice([0, 0, 0, 1, 2])}


def gen_raw_date(rng):
    y = rng.choice([1, 5, 999, 1000, 1999, 2024, 9999])
    return {"r": "date", "a": [y, rng.randrange(1, 13), rng.randrange(1, 29)], "sub": rng.choice([0, 0, 1, 2])}


def gen_raw_datetime(rng):
    t = gen_raw_time(rng)
    return {"r": "datetime", "a": gen_raw_date(rng)["a"] + t["a"], "tz": t["tz"], "fold": t["fold"],
            "sub": t["sub"]}


def gen_raw_any(rng):
    """anything a caller may put into a Property of a text dtype (or of no dtype at all)"""
    r = rng.randrange(16)
    if r == 0:
        return {"r": "i", "v": rng.choice([0, 5, -3, 10 ** 20])}
    if r == 1:
        return {"r": "f", "v": rng.choice(["1.5", "0.0", "1e+22", "nan", "-inf", "2.0"])}
    if r == 2:
        return {"r": "b", "v": rng.random() < 0.5}
    if r == 3:
        return {"r": "none"}
    if r == 4:
        return gen_raw_time(rng)
    if r == 5:
        return gen_raw_datetime(rng)
    if r == 6:
        return gen_raw_date(rng)
    if r == 7:
        return {"r": "bytes", "v": rng.choice([u"x", u"", u"a,b", u"\xe9"])}
    if r == 8:
        return {"r": "list", "v": [{"r": "i", "v": 1}, {"r": "s", "v": u"a"}][:rng.randrange(3)]}
    if r == 9:
        return {"r": "dict", "v": {} if rng.random() < 0.3 else {"k": {"r": "s", "v": u"v"}}}
    if r == 10:
        return {"r": "dec", "v": rng.choice(["2.50", "1E+3", "0"])}
    if r == 11:
        return {"r": "dtype", "v": rng.choice(["string", "int", "text", "float"])}
    if r == 12:
        return {"r": "ssub", "v": gen_text(rng)}
    if r == 13:
        return {"r": "intenum", "v": rng.choice([0, 1, 7])}
    return {"r": "s", "v": gen_text(rng)}


def gen_raw(rng, kind, k=2):
    """one value for a Property of the given dtype kind, in one of the shapes the converters of
    that dtype accept (now and then one they refuse: the assignment is then skipped)"""
    cross = rng.random() < 0.06
    if cross:
        kind = rng.choice(["string", "int", "float", "boolean", "date", "time", "datetime"])
    if kind in ("string", "text", "url", "person", "none"):
        return gen_raw_any(rng)
    if kind == "time":
        if rng.random() < 0.75:
            return gen_raw_time(rng)
        return {"r": "s", "v": rng.choice([u"1:2:3", u"01:02:03", u"23:59:59", u"7:05:9", u"00:00:00",
                                           u"10:15:30+00:00", u"12:00:00.25", u" 10:00:00", u"24:00:00"])}
    if kind == "datetime":
        if rng.random() < 0.75:
            return gen_raw_datetime(rng)
        if rng.random() < 0.2:
            return gen_raw_date(rng)                 # a date is no datetime
        return {"r": "s", "v": rng.choice([u"2020-1-2 3:4:5", u"1999-12-31 23:59:59", u"0005-01-02  01:02:03",
                                           u"2020-01-02T03:04:05", u"2020-01-02 03:04:05+00:00",
                                           u"2024-02-29\t00:00:00", u"2020-01-02 03:04:05.5"])}
    if kind == "date":
        if rng.random() < 0.7:
            return gen_raw_date(rng)
        if rng.random() < 0.3:
            return gen_raw_datetime(rng)             # a datetime is a date as well (isinstance)
        return {"r": "s", "v": rng.choice([u"2020-1-2", u"1999-12-31", u"0005-01-02", u"2024-02-29",
                                           u"2023-02-29", u"2020-01- 2", u" 2020-01-02", u"20200102"])}
    if kind == "int":
        return rng.choice([{"r": "f", "v": rng.choice(["2.7", "-2.7", "-0.0", "1e+22", "3.0", "inf", "nan"])},
                           {"r": "b", "v": rng.random() < 0.5},
                           {"r": "s", "v": rng.choice([u"7", u" 7 ", u"-12", u"+5", u"1e3", u"7.9", u"0x10", u"1_000",
                                                       u"٣", u"00012", u"1e400", u"", u"12345678901234567890123"])},
                           {"r": "dec", "v": rng.choice(["2.5", "-7", "1E+2"])},
                           {"r": "frac", "v": rng.choice([[7, 2], [-1, 3], [4, 1]])},
                           {"r": "intenum", "v": rng.choice([0, 3, -1])},
                           {"r": "isub", "v": rng.choice([0, 42, -5])},
                           {"r": "i", "v": rng.choice([0, 1, -1, 10 ** 30])}, {"r": "none"}])
    if kind == "float":
        return rng.choice([{"r": "i", "v": rng.choice([3, 0, -1, 10 ** 30, 10 ** 400, 2 ** 53 + 1])},
                           {"r": "b", "v": rng.random() < 0.5},
                           {"r": "s", "v": rng.choice([u"1_0", u" 2.5 ", u"inf", u"-Infinity", u"nan", u"1e-7", u".5", u"5.",
                                                       u"1,5", u"0x1p3", u"١.٥", u"1e400", u"-0.0", u"007"])},
                           {"r": "dec", "v": rng.choice(["1.50", "0.1", "NaN", "1E+400"])},
                           {"r": "frac", "v": rng.choice([[1, 3], [7, 2]])},
                           {"r": "fsub", "v": rng.choice(["0.25", "-3.0"])},
                           {"r": "f", "v": rng.choice(["0.5", "-0.0", "nan", "1e+22", "5e-324"])}, {"r": "none"}])
    if kind == "boolean":
        return rng.choice([{"r": "i", "v": rng.choice([0, 1, 2, -1])}, {"r": "f", "v": rng.choice(["1.0", "0.0", "0.5"])},
                           {"r": "s", "v": rng.choice([u"TRUE", u"True", u"t", u"F", u"false", u"0", u"1", u"yes", u" true",
                                                       u"", u"T"])},
                           {"r": "b", "v": rng.random() < 0.5}, {"r": "none"}, {"r": "list", "v": []},
                           {"r": "dec", "v": "1"}, {"r": "intenum", "v": 1}])
    # n-tuples: the text form with padding, a list / tuple of the items (what the JSON / YAML
    # readers hand over). Items are texts without `,` CR LF here (those are refused on saving and
    # generated in the canonical form already).
    items = [gen_item(rng).replace(u",", u"").replace(u"\n", u"").replace(u"\r", u"") for _ in range(k)]
    if rng.random() < 0.1:
        items = items[:-1] if rng.random() < 0.5 else items + [u"x"]       # wrong arity: refused
    r = rng.random()
    if r < 0.4:
        return {"r": "s", "v": rng.choice([u"", u" ", u"\t"]) + u"(" + rng.choice([u"", u" "])
                + rng.choice([u";", u" ; ", u"; "]).join(items) + rng.choice([u"", u" "]) + u")" + rng.choice([u"", u" ", u"\n"])}
    if r < 0.7:
        return {"r": "list", "v": [{"r": "s", "v": x} for x in items]}
    return {"r": "tuple", "v": [{"r": "s", "v": x} for x in items]}


CONTAINERS = ["list", "list", "list", "tuple", "iter", "gen", "scalar", "dictkeys"]


def gen_vplan(rng, kind, k=2):
    """how the values of one Property come about: the first assignment (constructor argument
    `values=`, the deprecated `value=`, or the setter on the empty Property) and up to three
    further calls of the value API, each with objects in non-canonical shapes"""
    n = rng.choice([0, 1, 1, 1, 2, 2, 3, 4])
    plan = {"first": rng.choice(["ctor", "ctor", "ctor", "value_kw", "setter", "value_setter"]),
            "cont": rng.choice(CONTAINERS), "raw": [gen_raw(rng, kind, k) for _ in range(n)], "steps": []}
    if kind == "tuple" and plan["cont"] == "dictkeys":
        plan["cont"] = "list"
    for _ in range(rng.choice([0, 0, 0, 1, 1, 2, 3])):
        via = rng.choice(["append", "append", "extend", "extend", "insert", "setitem", "setitem", "set", "dtype",
                          "remove", "extend_prop", "value_setter"])
        step = {"via": via, "strict": rng.random() < 0.7, "i": rng.choice([0, 0, 1, 2, -1, 5]),
                "cont": rng.choice(CONTAINERS)}
        if via in ("append", "insert", "setitem"):
            step["raw"] = [gen_raw(rng, kind, k)]
        elif via in ("extend", "set", "extend_prop", "value_setter"):
            step["raw"] = [gen_raw(rng, kind, k) for _ in range(rng.choice([0, 1, 2, 3]))]
        elif via == "dtype":
            step["to"] = rng.choice(["string", "text", "int", "float", "boolean", "date", "time", "datetime",
                                     "String", "str", "bool", "person", "url", "2-tuple", None])
            if rng.random() < 0.5:
                step["back"] = True          # ... and back to the dtype it had
        plan["steps"].append(step)
    return plan


def first_values(p):
    """the `values` argument of the first assignment of a Property spec"""
    plan = p.get("vplan")
    if plan is None:
        return [py_value(v) for v in p["values"]] or None
    return contain(plan["cont"], [raw_value(d) for d in plan["raw"]])


def apply_vplan(prop, p, first_done=True):
    """the calls of the value API of a Property spec after its construction; a call the library
    refuses is skipped (the Property keeps what it had: that is C05's business, here only the
    document that exists afterwards matters)"""
    import odml
    plan = p.get("vplan")
    if plan is None:
        return
    if not first_done:
        try:
            if plan["first"] == "value_setter":
                prop.value = first_values(p)
            else:
                prop.values = first_values(p)
        except Exception:
            pass
    for step in plan["steps"]:
        try:
            via = step["via"]
            objs = [raw_value(d) for d in step.get("raw", [])]
            if via == "append":
                prop.append(objs[0], strict=step["strict"])
            elif via == "insert":
                prop.insert(step["i"], objs[0], strict=step["strict"])
            elif via == "setitem":
                prop[step["i"]] = objs[0]
            elif via == "extend":
                prop.extend(contain(step["cont"], objs), strict=step["strict"])
            elif via == "extend_prop":
                prop.extend(odml.Property(name="source", values=contain(step["cont"], objs), dtype=prop.dtype,
                                          unit=prop.unit))
            elif via == "set":
                prop.values = contain(step["cont"], objs)
            elif via == "value_setter":
                prop.value = contain(step["cont"], objs)
            elif via == "remove":
                vals = prop.values
                if vals:
                    prop.remove(vals[step["i"] % len(vals)])
            elif via == "dtype":
                old = prop.dtype
                prop.dtype = step["to"]
                if step.get("back"):
                    prop.dtype = old
        except Exception:
            pass


# text attributes given as something that is not a text (the writer makes a text of it)
RAW_ATTR_VALUES = [{"r": "i", "v": 0}, {"r": "i", "v": 5}, {"r": "f", "v": "1.5"}, {"r": "f", "v": "0.0"},
                   {"r": "b", "v": True}, {"r": "b", "v": False}, {"r": "date", "a": [2020, 1, 2]},
                   {"r": "dec", "v": "2.50"}, {"r": "time", "a": [1, 2, 3, 0], "tz": {"k": "utc"}},
                   {"r": "f", "v": "nan"}, {"r": "bytes", "v": u"x"}, {"r": "ssub", "v": u"w"},
                   {"r": "dtype", "v": "int"}]
PROP_RAW_ATTRS = ["unit", "definition", "reference", "value_origin", "dependency_value"]
SEC_RAW_ATTRS = ["definition", "reference"]
DOC_RAW_ATTRS = ["author", "version"]


def gen_raw_attrs(rng, keys, p=0.04):
    if rng.random() >= p:
        return None
    return dict((k, rng.choice(RAW_ATTR_VALUES)) for k in rng.sample(keys, rng.choice([1, 1, 2])))


def attr_of(spec, key):
    """the value of a text attribute of a spec: the text, or the object of `raw_attrs`"""
    raw = spec.get("raw_attrs")
    if raw and key in raw:
        return raw_value(raw[key])
    return spec.get(key)


CARD_SHAPES = ["tuple", "tuple", "tuple", "list", "int"]


def gen_prop(rng, name):
    kind = rng.choice(["string", "string", "text", "url", "person", "int", "float", "boolean",
                       "date", "time", "datetime", "tuple", "tuple", "none"])
    n = rng.choice([0, 1, 1, 1, 2, 2, 3, 4])
    if rng.random() < 0.04:
        n = rng.choice([9, 10, 11, 12, 30])      # more values than one digit counts
    p = {"id": gen_id(rng), "name": name, "unit": opt_text(rng), "definition": opt_text(rng),
         "dependency": None, "dependency_value": opt_text(rng),
         "reference": opt_text(rng), "value_origin": opt_text(rng), "val_card": gen_card(rng)}
    if rng.random() < 0.35:
        # never the name of a sibling (validation's dependency rule is C08's business)
        p["dependency"] = u"dep:" + gen_text(rng)
    r = rng.random()
    if r < 0.6:
        p["uncertainty"] = None
    elif r < 0.75:
        p["uncertainty"] = {"num": True, "py": rng.choice([0.5, 0, 3, 12.25])}
    else:
        p["uncertainty"] = {"num": False, "py": rng.choice([u"+-12", u"0.5", u" 3 ", u"a,b", gen_text(rng)])}
    if kind == "none":
        p["dtype"] = None
        p["values"] = []
    elif kind == "tuple":
        k = rng.randrange(1, 4)
        p["dtype"] = "%d-tuple" % k
        p["values"] = [{"t": [gen_item(rng) for _ in range(k)]} for _ in range(n)]
    else:
        p["dtype"] = kind
        p["values"] = gen_values(rng, kind, n)
    # round 4: values in non-canonical shapes, through the other calls of the value API, a dtype
    # left to inference; text attributes that are no texts; the cardinality as list / single int
    if rng.random() < 0.3:
        p["vplan"] = gen_vplan(rng, kind, int(p["dtype"].split("-")[0]) if kind == "tuple" else 2)
        if kind != "tuple" and rng.random() < 0.3:
            p["dtype"] = None                    # the dtype is inferred from the first value
    raw = gen_raw_attrs(rng, PROP_RAW_ATTRS)
    if raw:
        p["raw_attrs"] = raw
    if p["val_card"] is not None:
        p["card_shape"] = rng.choice(CARD_SHAPES)
    return p


def gen_names(rng, n):
    base = [u"a", u"b", u"ab", u"c", u"\xe9", u"a,b", u"a b", u"<n>", u"N", u"x\ny",
            # round 3: names with format / path / template metacharacters, names that only differ
            # in case or in a multi-digit number, words of other encodings
            u"50%", u"%s", u"{x}", u"a/b", u"n", u"n2", u"n10", u"\\1", u"Messger\xe4t", u"\u20ac",
            u"a%20b", u"$a", u"#", u"..", u"a:b"]
    rng.shuffle(base)
    names = base[:n] + [u"k%d" % i for i in range(n - len(base))]
    r = rng.random()
    if n and r < 0.04:
        names[0] = u" " + names[0] + u"\t"        # trimmed on load
    if n >= 2 and r > 0.975:
        names[1] = names[0] + u" "                # clash after trimming (known finding)
    if n and 0.04 <= r < 0.05:
        names[0] = u" "                           # blank name (known finding)
    if n and 0.05 <= r < 0.11:
        names[rng.randrange(n)] = None            # unnamed: the object is named by its id
    return names


def gen_sec(rng, name, depth, maxdepth=3):
    s = {"id": gen_id(rng), "name": name, "type": gen_text(rng, allow_empty=False),
         "definition": opt_text(rng), "reference": opt_text(rng), "link": opt_text(rng, 0.1),
         "repository": rng.choice(REPOS), "include": None,
         "sec_card": gen_card(rng), "prop_card": gen_card(rng)}
    if s["link"] is None and rng.random() < 0.1:
        s["include"] = gen_text(rng)
    raw = gen_raw_attrs(rng, SEC_RAW_ATTRS)
    if raw:
        s["raw_attrs"] = raw
    if s["sec_card"] is not None or s["prop_card"] is not None:
        s["card_shape"] = rng.choice(CARD_SHAPES)
    np_ = rng.choice([0, 1, 1, 2, 3])
    if rng.random() < 0.03:
        np_ = rng.choice([10, 11, 12, 13])        # a 10th, 11th ... child
    s["props"] = [gen_prop(rng, nm) for nm in gen_names(rng, np_)]
    ns = 0 if depth >= maxdepth else rng.choice([0, 0, 1, 1, 2])
    if depth < maxdepth and rng.random() < 0.02:
        ns = rng.choice([10, 11, 12])
        s["secs"] = [gen_sec(rng, nm, maxdepth, maxdepth) for nm in gen_names(rng, ns)]
    else:
        s["secs"] = [gen_sec(rng, nm, depth + 1, maxdepth) for nm in gen_names(rng, ns)]
    return s


def depth_of(d):
    """nesting depth of the Sections of a document spec / snapshot"""
    def rec(secs):
        return 0 if not secs else 1 + max(rec(s["secs"]) for s in secs)
    return rec(d["secs"])


def has_bool_card(mem):
    """a cardinality of the snapshot has a bool as a bound (round 4; not in the model's universe)"""
    def bad(c):
        return isinstance(c, list) and any(isinstance(x, bool) for x in c)
    return any(bad(s["sec_card"]) or bad(s["prop_card"]) or any(bad(p["val_card"]) for p in s["props"])
               for s in walk_secs(mem["secs"]))


def has_none_value(mem):
    """a value list of the snapshot holds None (round 4: what tuple_get makes of an empty or falsy
    value of an n-tuple Property). wfDoc excludes such documents (valOk nul = false) and the model's
    writer has no faithful rendering of them (the code's odml_tuple_export raises TypeError)."""
    return any(v is None for sec in walk_secs(mem["secs"]) for p in sec["props"] for v in p["values"])


def writer_modelled(mem):
    """is the written tree of this document compared with the writer model?
    Not from depth 5 on: the compiled writer model re-evaluates the Sub-Sections once per format
    key, its running time grows tenfold per nesting level. Not (round 4) with a bool as a
    cardinality bound or None in a value list: outside the model's universe (ints; typed values).
    The written tree is then judged by the oracle and by the reader model only."""
    return depth_of(mem) < 5 and not has_bool_card(mem) and not has_none_value(mem)


def xml_depth(mem):
    """depth of the element tree the writer makes of a document (root = 1)"""
    def rec(s):
        return 1 + max([1, 2 if s["props"] else 1] + [rec(c) for c in s["secs"]])
    return 1 + max([1] + [rec(s) for s in mem["secs"]])


def sec_paths(secs, prefix=u""):
    """(absolute path, spec) of every named Section of a document spec"""
    out = []
    for s in secs:
        if s["name"] is None:
            continue
        path = prefix + u"/" + s["name"]
        out.append((path, s))
        out += sec_paths(s["secs"], path)
    return out


def finalize_safe(spec):
    """Document.finalize() (the RDF writer calls it too) does not come to an end, or only at the
    recursion limit, when a link leads to an ancestor of the linking Section or links form a cycle
    (the business of C12). Conservative test for 'nothing of the kind here': no include, at most
    one link, and its last path step names neither the linking Section nor one of its ancestors."""
    linked = []

    def rec(secs, above):
        for sec in secs:
            if sec.get("include"):
                linked.append(None)
            if sec.get("link") is not None:
                step = sec["link"].strip().rstrip(u"/").rsplit(u"/", 1)[-1]
                ok = step and u".." not in sec["link"] and step not in above + [sec["name"]]
                linked.append(sec if ok else None)
            rec(sec["secs"], above + [sec["name"]])
    rec(spec["secs"], [])
    return len(linked) <= 1 and None not in linked


def text_slots(d):
    """(dict, key) of every free text of a document spec"""
    out = [(d, k) for k in ("author", "version")]
    for s in walk_secs(d["secs"]):
        out += [(s, k) for k in ("name", "type", "definition", "reference")]
        for p in s["props"]:
            out += [(p, k) for k in ("name", "unit", "definition", "reference", "value_origin",
                                     "dependency_value")]
            out += [(v, "s") for v in p["values"] if "s" in v]
    return out


CHAIN_DEPTHS = [60, 200, 252, 253, 254, 255, 260]


def gen_chain(rng, depth):
    """`any tree shape`: a chain of Sections nested `depth` levels deep"""
    cur = None
    for i in range(depth):
        sec = {"id": gen_id(rng), "name": u"c", "type": u"t", "definition": None, "reference": None,
               "link": None, "repository": None, "include": None, "sec_card": None, "prop_card": None,
               "props": [], "secs": [] if cur is None else [cur]}
        if cur is None:
            sec["props"] = [gen_prop(rng, u"p")]
        cur = sec
    return cur


def gen_doc(rng, wild=True, tame=False, chain=False):
    """tame: a document the XML form can express (for the streams that are about something else);
    chain: now and then a very deep chain of Sections instead of a bushy tree"""
    if chain and rng.random() < 0.012:
        depth = rng.choice(CHAIN_DEPTHS)
        return {"id": gen_id(rng), "author": opt_text(rng), "version": None, "repository": None, "date": None,
                "secs": [gen_chain(rng, depth)], "chain": depth}
    if tame:
        for _ in range(8):
            d = gen_doc(rng, wild=False)
            if not shape_flags(d) & {"blank_name", "names_clash_after_trim", "tuple_item_separator"}:
                break
        return d
    d = {"id": gen_id(rng), "author": opt_text(rng), "version": opt_text(rng),
         "repository": rng.choice(REPOS),
         "date": str(datetime.date(rng.choice([5, 1999, 2024]), rng.randrange(1, 13), rng.randrange(1, 29)))
         if rng.random() < 0.4 else None}
    # round 4: the date as an object (date, an instance of a subclass, a datetime - which the
    # setter refuses -), as a text in another spelling; author / version that are no texts
    if rng.random() < 0.15:
        d["date_raw"] = rng.choice([gen_raw_date(rng), gen_raw_date(rng), gen_raw_datetime(rng),
                                    {"r": "s", "v": rng.choice([u"2020-1-2", u"0005-1-01", u" 2020-01-02", u"2020-01-02 "])},
                                    {"r": "i", "v": 20200102}])
    raw = gen_raw_attrs(rng, DOC_RAW_ATTRS, 0.05)
    if raw:
        d["raw_attrs"] = raw
    maxdepth = rng.choice([4, 5, 6, 7]) if rng.random() < 0.06 else 3
    d["secs"] = [gen_sec(rng, nm, 1, maxdepth) for nm in gen_names(rng, rng.choice([0, 1, 1, 2, 3]))]
    # round 3: links that name an existing Section (stored by the constructor, not followed),
    # absolute and relative; includes that look like real ones
    paths = sec_paths(d["secs"])
    if paths and rng.random() < 0.3:
        for _ in range(rng.choice([1, 1, 2])):
            _path, sec = rng.choice(paths)
            target, _t = rng.choice(paths)
            sec["include"] = None
            sec["link"] = rng.choice([target, target, u"../" + target.rsplit(u"/", 1)[-1],
                                      target.rsplit(u"/", 1)[-1], target + u"/"])
    elif paths and rng.random() < 0.05:
        _path, sec = rng.choice(paths)
        sec["link"] = None
        sec["include"] = rng.choice([u"file:///nonexistent/doc.xml#/a", u"doc.xml#a", u"#" + paths[0][0]])
    # round 3: a character XML 1.0 cannot carry somewhere in the document (the writer has to
    # refuse, every entry point alike, and leave the target file alone)
    if wild and rng.random() < 0.05:
        slots = [(o, k) for o, k in text_slots(d) if o.get(k)]
        if slots:
            o, k = rng.choice(slots)
            ch = rng.choice(CTRL + CTRL + SURROGATES)
            pos = rng.choice([0, len(o[k]) // 2, len(o[k]) // 2, len(o[k])])
            o[k] = o[k][:pos] + ch + o[k][pos:]
            if ch in SURROGATES:
                d["surrogate"] = True           # not expressible in a Lean String: oracle only
    return d


# ----------------------------------------------------------------------------- building / snapshot
def py_value(v):
    if "s" in v:
        return v["s"]
    if "i" in v:
        return v["i"]
    if "b" in v:
        return v["b"]
    if "t" in v:
        return u"(" + u";".join(v["t"]) + u")"
    kind = v["py"]
    if kind == "float":
        return float(v["k"])
    if kind == "date":
        return datetime.datetime.strptime(v["k"], "%Y-%m-%d").date()
    if kind == "time":
        return datetime.datetime.strptime(v["k"], "%H:%M:%S").time()
    return datetime.datetime.strptime(v["k"], "%Y-%m-%d %H:%M:%S")


def tup(c, shape="tuple"):
    """the cardinality argument of a spec: a tuple, (round 4) a list, or a single int = maximum"""
    if c is None:
        return None
    if shape == "list":
        return list(c)
    if shape == "int" and c[0] is None:
        return c[1]
    return tuple(c)


def build_doc(spec, route="ctor", finalize=False):
    """the document of a spec, built along one of several routes of the public API (round 3:
    'every document buildable through the public API' - not only by constructors):
      ctor     constructors with parent=
      setters  create_section / create_property, then one attribute setter after the other
      churn    constructors, then a history that ends where it began: children moved away and
               back (reorder), removed and inserted again, renamed and renamed back, values
               assigned twice
    finalize=True: Document.finalize() afterwards (resolvable links are followed and merged; a
    link that does not resolve raises and is left as it is).
    Round 4: Properties with a `vplan` get their values in non-canonical shapes through the whole
    value API (first_values / apply_vplan); `raw_attrs` / `date_raw` / `card_shape` hand over
    attributes as objects of other classes."""
    import odml
    date = raw_value(spec["date_raw"]) if "date_raw" in spec else spec.get("date")
    if route != "setters":
        kw = dict(author=attr_of(spec, "author"), version=attr_of(spec, "version"),
                  repository=spec.get("repository"), oid=spec["id"])
        try:
            doc = odml.Document(date=date, **kw)
        except Exception:
            if "date_raw" not in spec:
                raise
            doc = odml.Document(date=None, **kw)     # a date object the setter refuses: no date
    else:
        # (not the repository setter: it starts a background thread that fetches the URL - C18)
        doc = odml.Document(oid=spec["id"], repository=spec.get("repository"))
        try:
            doc.date = date
        except Exception:
            if "date_raw" not in spec:
                raise
        doc.version = attr_of(spec, "version")
        doc.author = attr_of(spec, "author")

    def mk_prop(p, sec):
        unc = p.get("uncertainty")
        plan = p.get("vplan")
        kw = dict(name=p["name"], parent=sec, unit=attr_of(p, "unit"), uncertainty=None if unc is None else unc["py"],
                  reference=attr_of(p, "reference"), definition=attr_of(p, "definition"),
                  dependency=p.get("dependency"), dependency_value=attr_of(p, "dependency_value"),
                  dtype=p.get("dtype"), value_origin=attr_of(p, "value_origin"), oid=p["id"],
                  val_cardinality=tup(p.get("val_card"), p.get("card_shape")))
        if plan is None:
            return odml.Property(values=first_values(p), **kw)
        prop = None
        if plan["first"] in ("ctor", "value_kw"):
            try:
                prop = odml.Property(**dict(kw, **{"values" if plan["first"] == "ctor" else "value": first_values(p)}))
            except Exception:
                prop = None          # values the constructor refuses: the Property without them
        first_done = prop is not None
        if prop is None:
            try:
                prop = odml.Property(values=None, **kw)
            except Exception:
                prop = odml.Property(values=None, **dict(kw, val_cardinality=None))
        apply_vplan(prop, p, first_done)
        return prop

    def set_prop(p, sec):
        unc = p.get("uncertainty")
        if unc is not None and not unc["num"]:
            return mk_prop(p, sec)        # the setter only takes numbers; texts go through the constructor
        first_done = True
        try:
            prop = sec.create_property(p["name"], values=first_values(p), dtype=p.get("dtype"), oid=p["id"])
        except Exception:
            if p.get("vplan") is None:
                raise
            prop = sec.create_property(p["name"], values=None, dtype=p.get("dtype"), oid=p["id"])
            first_done = False
        if p.get("vplan") is not None and p["vplan"]["first"] in ("setter", "value_setter") and first_done:
            # (create_property has taken the values already: assign them once more the other way)
            first_done = False
        apply_vplan(prop, p, first_done)
        try:
            prop.val_cardinality = tup(p.get("val_card"), p.get("card_shape"))
        except Exception:
            if p.get("vplan") is None:
                raise
        prop.value_origin = attr_of(p, "value_origin")
        prop.dependency_value = attr_of(p, "dependency_value")
        prop.dependency = p.get("dependency")
        prop.definition = attr_of(p, "definition")
        prop.reference = attr_of(p, "reference")
        if unc is not None:
            prop.uncertainty = unc["py"]
        prop.unit = attr_of(p, "unit")
        return prop

    def add_sec(s, parent):
        shape = s.get("card_shape")
        if route == "setters":
            sec = parent.create_section(name=s["name"], type=s["type"], oid=s["id"], link=s.get("link"),
                                        include=s.get("include"), repository=s.get("repository"))
            sec.reference = attr_of(s, "reference")
            sec.definition = attr_of(s, "definition")
            for c in s["secs"]:
                add_sec(c, sec)
            for p in s["props"]:
                set_prop(p, sec)
            sec.prop_cardinality = tup(s.get("prop_card"), shape)
            sec.sec_cardinality = tup(s.get("sec_card"), shape)
            return sec
        sec = odml.Section(name=s["name"], type=s["type"], parent=parent, definition=attr_of(s, "definition"),
                           reference=attr_of(s, "reference"), repository=s.get("repository"),
                           link=s.get("link"), include=s.get("include"), oid=s["id"],
                           sec_cardinality=tup(s.get("sec_card"), shape),
                           prop_cardinality=tup(s.get("prop_card"), shape))
        for p in s["props"]:
            mk_prop(p, sec)
        for c in s["secs"]:
            add_sec(c, sec)
        return sec

    for s in spec["secs"]:
        add_sec(s, doc)

    if route == "churn":
        def churn(parent):
            for kids in (list(parent.sections), list(getattr(parent, "properties", []))):
                if kids:
                    last = kids[-1]
                    old = last.reorder(0)
                    last.reorder(old)
                    first = kids[0]
                    parent.remove(first)
                    parent.insert(0, first)
                    name = first.name
                    if name != first.id:
                        first.name = u"renamed-in-between"
                        first.name = name
            for prop in getattr(parent, "properties", []):
                vals = list(prop.values)
                if vals:
                    prop.values = vals[:1]
                    prop.values = vals
            for sec in parent.sections:
                churn(sec)
        churn(doc)

    if finalize:
        try:
            doc.finalize()
        except Exception:
            pass
    return doc


def text_out(x):
    # (the text of an attribute that holds something else than a str is str() of it, which is what
    # every writer makes of it; for a str that is the str itself. Round 4: also for instances of
    # str subclasses - odml.DType members -, whose str() is the weaker reading of "the text")
    return None if x is None else str(x)


def card_out(c):
    if c is None:
        return None
    if isinstance(c, tuple) and len(c) == 2:
        # (round 4: a bound that is a bool stays one: bool is an int for format_cardinality, the
        # writer spells it True / False)
        return [None if x is None else (x if isinstance(x, bool) else int(x)) for x in c]
    return {"weird": repr(c)}


def val_out(v):
    if v is None:
        return None
    # (plain copies: on a changed tree a stored value may be an instance of a subclass of the
    # caller - an IntEnum member, a str subclass -, which the observation must not carry along)
    if isinstance(v, bool):
        return {"b": bool(v)}
    if isinstance(v, int):
        return {"i": int(v)}
    if isinstance(v, str):
        return {"s": str(v)}
    if isinstance(v, (list, tuple)):
        return {"t": [text_out(x) for x in v]}
    return {"k": str(v)}


def snap_prop(p):
    unc = p.uncertainty
    if unc is None:
        u = None
    elif isinstance(unc, (int, float)) and not isinstance(unc, bool):
        u = {"num": True, "text": str(unc)}
    else:
        u = {"num": False, "text": str(unc)}
    return {"id": p.id, "name": None if p.name == p.id else p.name,
            "values": [val_out(v) for v in p.values], "dtype": text_out(p.dtype),
            "unit": text_out(p.unit), "definition": text_out(p.definition),
            "dependency": text_out(p.dependency), "dependency_value": text_out(p.dependency_value),
            "uncertainty": u, "reference": text_out(p.reference),
            "value_origin": text_out(p.value_origin), "val_card": card_out(p.val_cardinality)}


def snap_sec(s):
    return {"id": s.id, "name": None if s.name == s.id else s.name, "type": text_out(s.type),
            "definition": text_out(s.definition), "reference": text_out(s.reference),
            "link": text_out(s.link), "repository": text_out(s.repository),
            "include": text_out(s.include),
            "secs": [snap_sec(c) for c in s.sections], "props": [snap_prop(p) for p in s.properties],
            "sec_card": card_out(s.sec_cardinality), "prop_card": card_out(s.prop_cardinality)}


def snap_doc(d):
    return {"id": d.id, "version": text_out(d.version), "author": text_out(d.author),
            "date": text_out(d.date), "repository": text_out(d.repository),
            "secs": [snap_sec(s) for s in d.sections]}


# ----------------------------------------------------------------------------- python-side trim (oracle)
def strip(s):
    return s.strip()          # Python's own str.strip: the reference for "trimming"


def norm_text(t):
    """after a save/load cycle an absent and an empty text are the same thing"""
    if t is None:
        return None
    t = strip(t)
    return t if t != u"" else None


def trim_val(v):
    if isinstance(v, dict) and "s" in v:
        return {"s": strip(v["s"])}
    return v


def trim_prop(p):
    q = dict(p)
    for k in ("dtype", "unit", "definition", "dependency", "dependency_value", "reference",
              "value_origin"):
        q[k] = norm_text(p[k])
    q["name"] = None if p["name"] is None else strip(p["name"])   # None: the name is the id
    q["values"] = [trim_val(v) for v in p["values"]]
    u = p["uncertainty"]
    q["uncertainty"] = None if u is None or norm_text(u["text"]) is None else \
        {"num": u["num"], "text": strip(u["text"])}
    return q


def trim_sec(s):
    q = dict(s)
    for k in ("type", "definition", "reference", "link", "repository", "include"):
        q[k] = norm_text(s[k])
    q["name"] = None if s["name"] is None else strip(s["name"])   # None: the name is the id
    q["secs"] = [trim_sec(c) for c in s["secs"]]
    q["props"] = [trim_prop(p) for p in s["props"]]
    return q


def trim_doc(d):
    q = dict(d)
    for k in ("version", "author", "repository"):
        q[k] = norm_text(d[k])
    q["secs"] = [trim_sec(s) for s in d["secs"]]
    return q


def unname(x):
    """the snapshot convention `name None: the object is named by its id` applied to a document of
    the model (which holds the id text as the name)"""
    if isinstance(x, list):
        return [unname(v) for v in x]
    if isinstance(x, dict):
        out = dict((k, unname(v)) for k, v in x.items())
        if "name" in out and "id" in out and out["name"] is not None and out["name"] == out["id"]:
            out["name"] = None
        return out
    return x


def diff(a, b, path=""):
    """paths at which two snapshots differ"""
    if isinstance(a, dict) and isinstance(b, dict) and set(a) == set(b):
        out = []
        for k in sorted(a):
            out += diff(a[k], b[k], path + "/" + k)
        return out
    if isinstance(a, list) and isinstance(b, list) and len(a) == len(b):
        out = []
        for i, (x, y) in enumerate(zip(a, b)):
            out += diff(x, y, path + "/%d" % i)
        return out
    if a == b and type(a) == type(b):
        return []
    return [(path, a, b)]


# ----------------------------------------------------------------------------- abstract trees
def tree_of(el, prune_foreign=False, vocab=None, root=True):
    """abstract tree of an lxml element; the inside of elements outside the vocabulary (the
    embedded stylesheet) is dropped, no reader looks at it"""
    kids = [c for c in el if isinstance(c.tag, str)]
    out = {"tag": el.tag, "attrs": [[k, v] for k, v in el.attrib.items()],
           "text": el.text if el.tag.lower() not in ("odml", "section", "property") else None,
           "kids": []}
    if prune_foreign and not root and vocab is not None and \
            el.tag.lower() not in set(v.lower() for v in vocab):
        out["text"] = None
        return out
    out["kids"] = [tree_of(c, prune_foreign, vocab, False) for c in kids]
    return out


def parse_text(text):
    from lxml import etree
    data = text.encode("utf-8") if isinstance(text, str) else text
    # (huge_tree: the harness' own look at what was written is not bound by libxml2's depth limit)
    return etree.fromstring(data, etree.XMLParser(remove_comments=True, huge_tree=True))


def vocabulary():
    import odml.format as ofmt
    voc = set()
    for f in (ofmt.Document, ofmt.Section, ofmt.Property):
        voc.add(f.name)
        voc.update(f.arguments_keys)
    return voc


def all_tags(tree):
    out = [tree["tag"]]
    for k in tree["kids"]:
        out += all_tags(k)
    return out


def exc_cat(exc):
    from odml.tools.parser_utils import ParserException, InvalidVersionException
    if isinstance(exc, InvalidVersionException):
        return "invalidVersion"
    if isinstance(exc, ParserException):
        return "parser"
    return "leak:" + fw.exc_name(exc)


def load_with(reader, text, path, data=None):
    """reader entry points; -> {"doc","warns"} or {"raised"}.
    text: decoded XML text, path: file, data: the encoded bytes (default: text as UTF-8)."""
    import odml
    from odml.tools.xmlparser import XMLReader
    from odml.tools.odmlparser import ODMLReader
    lenient = reader.startswith("lenient")
    try:
        if reader in ("strict_string", "lenient_string"):
            r = XMLReader(ignore_errors=lenient, show_warnings=False)
            d = r.from_string(text)
            return {"doc": snap_doc(d), "warns": len(r.warnings)}
        if reader in ("strict_file", "lenient_file"):
            r = XMLReader(ignore_errors=lenient, show_warnings=False)
            d = r.from_file(path)
            return {"doc": snap_doc(d), "warns": len(r.warnings)}
        if reader == "odmlreader_string":
            d = ODMLReader("XML", show_warnings=False).from_string(text)
            return {"doc": snap_doc(d), "warns": None}
        if reader == "odmlreader_file":
            r = ODMLReader("XML", show_warnings=False)
            d = r.from_file(path)
            return {"doc": snap_doc(d), "warns": len(r.warnings)}
        if reader == "odml_load":
            d = odml.load(path, "xml", show_warnings=False)
            return {"doc": snap_doc(d), "warns": None}
        # ---- round 3: the other shapes of the same entry points
        if reader in ("strict_bytes", "lenient_bytes"):           # from_string(bytes)
            r = XMLReader(ignore_errors=lenient, show_warnings=False)
            d = r.from_string(text.encode("utf-8") if data is None else data)
            return {"doc": snap_doc(d), "warns": len(r.warnings)}
        if reader in ("strict_stringio", "lenient_stringio"):     # from_file(text stream in memory)
            r = XMLReader(ignore_errors=lenient, show_warnings=False)
            d = r.from_file(io.StringIO(text))
            return {"doc": snap_doc(d), "warns": len(r.warnings)}
        if reader in ("strict_bytesio", "lenient_bytesio"):       # from_file(byte stream in memory)
            r = XMLReader(ignore_errors=lenient, show_warnings=False)
            d = r.from_file(io.BytesIO(text.encode("utf-8") if data is None else data))
            return {"doc": snap_doc(d), "warns": len(r.warnings)}
        if reader in ("strict_fileobj", "lenient_fileobj"):       # from_file(open(path, "rb"))
            r = XMLReader(ignore_errors=lenient, show_warnings=False)
            with io.open(path, "rb") as fh:
                d = r.from_file(fh)
            return {"doc": snap_doc(d), "warns": len(r.warnings)}
        if reader == "odmlreader_lower_file":                     # parser name in another case
            r = ODMLReader("xml", show_warnings=False)
            d = r.from_file(path)
            return {"doc": snap_doc(d), "warns": len(r.warnings)}
        if reader == "odml_load_default":                         # backend left to its default
            d = odml.load(path, show_warnings=False)
            return {"doc": snap_doc(d), "warns": None}
        if reader == "xmlparser_load":                            # module level shortcut
            import odml.tools.xmlparser as xp
            d = xp.load(path)
            return {"doc": snap_doc(d), "warns": None}
    except Exception as exc:
        return {"raised": exc_cat(exc)}
    raise ValueError(reader)


READERS = ["strict_string", "lenient_string", "strict_file", "lenient_file", "odmlreader_string",
           "odmlreader_file", "odml_load"]
# round 3: byte strings, in-memory streams, open files, defaults
READERS_MORE = ["strict_bytes", "lenient_bytes", "strict_stringio", "lenient_stringio", "strict_bytesio",
                "lenient_bytesio", "strict_fileobj", "lenient_fileobj", "odmlreader_lower_file",
                "odml_load_default", "xmlparser_load"]
STRICT = {"strict_string", "strict_file", "odmlreader_string", "strict_bytes", "strict_stringio",
          "strict_bytesio", "strict_fileobj", "xmlparser_load"}
PATH_READERS = {"strict_file", "lenient_file", "odmlreader_file", "odml_load", "strict_fileobj",
                "lenient_fileobj", "odmlreader_lower_file", "odml_load_default", "xmlparser_load"}


def squeeze(d):
    """equal results of several entry points are stored once (`{"same": key}` refers to the first):
    the observations of a thorough run would otherwise take several GB"""
    seen = {}
    for k in sorted(d):
        c = fw.canon(d[k])
        if c in seen:
            d[k] = {"same": seen[c]}
        else:
            seen[c] = k
    return d


def unsqueeze(obs):
    """-> the observation with every `same` reference resolved (shared objects, no copies)"""
    if not isinstance(obs, dict) or not any(k in obs for k in ("writes", "loads", "styled")):
        return obs
    out = dict(obs)
    for part in ("writes", "loads", "styled"):
        d = obs.get(part)
        if isinstance(d, dict):
            out[part] = dict((k, d[v["same"]] if isinstance(v, dict) and "same" in v else v)
                             for k, v in d.items())
    return out


def reader_of(key):
    """'reader' or 'reader@source' -> reader"""
    return key.split("@")[0]


PLAIN_WRITERS = ["xmlwriter_str", "odmlwriter_to_string", "write_file", "odml_save",
                 # round 3
                 "odmlwriter_write_file", "odml_save_default", "odmlwriter_lower_to_string"]
STYLED_WRITERS = ["write_file_local_style", "write_file_custom_template",
                  # round 3: every option through every file entry point, and both options at once
                  "xmlwriter_local_style", "odmlwriter_custom_template", "odml_save_local_style",
                  "odml_save_custom_template", "xmlwriter_both", "odml_save_both"]
WRITERS = PLAIN_WRITERS + STYLED_WRITERS
STYLED = set(STYLED_WRITERS)
LEGACY_STYLED = STYLED_WRITERS[:2]
# file names (round 3): blanks, non-ASCII, URL metacharacters, several dots, another extension
FILE_NAMES = [u"%s.xml", u"a b %s.xml", u"d\xe9j\xe0 %s.xml", u"50%% %s.xml", u"a%%20b%s.xml", u"a#%s.xml",
              u"%s.v1.1.odml", u"\u4e2d%s.xml", u"%s&x=1.xml", u"%s.XML"]
SENTINEL = u"<!-- an older file -->\n" + u"x" * 70000


def write_with(writer, doc, tmp, name_pat=u"%s.xml", template=TEMPLATE, precreate=False):
    """-> {"text"[, "path"]} or {"raised", "file"}: "file" says what is at the path after a refused
    save: "absent", "untouched" (the older file is still there) or "altered" """
    import odml
    from odml.tools.xmlparser import XMLWriter
    from odml.tools.odmlparser import ODMLWriter
    path = os.path.join(tmp, name_pat % writer)
    is_file = writer not in ("xmlwriter_str", "odmlwriter_to_string", "odmlwriter_lower_to_string")
    if is_file and precreate:
        with io.open(path, "w", encoding="utf-8") as fh:
            fh.write(SENTINEL)
    try:
        if writer == "xmlwriter_str":
            return {"text": str(XMLWriter(doc))}
        if writer == "odmlwriter_to_string":
            return {"text": ODMLWriter("XML").to_string(doc)}
        if writer == "odmlwriter_lower_to_string":
            return {"text": ODMLWriter("xml").to_string(doc)}
        if writer == "write_file":
            XMLWriter(doc).write_file(path)
        elif writer == "odmlwriter_write_file":
            ODMLWriter("XML").write_file(doc, path)
        elif writer == "write_file_local_style":
            ODMLWriter("XML").write_file(doc, path, local_style=True)
        elif writer == "write_file_custom_template":
            XMLWriter(doc).write_file(path, custom_template=template)
        elif writer == "xmlwriter_local_style":
            XMLWriter(doc).write_file(path, local_style=True)
        elif writer == "odmlwriter_custom_template":
            ODMLWriter("XML").write_file(doc, path, custom_template=template)
        elif writer == "odml_save_local_style":
            odml.save(doc, path, local_style=True)
        elif writer == "odml_save_custom_template":
            odml.save(doc, path, "XML", custom_template=template)
        elif writer == "xmlwriter_both":
            XMLWriter(doc).write_file(path, local_style=True, custom_template=template)
        elif writer == "odml_save_both":
            odml.save(doc, path, "xml", local_style=True, custom_template=template)
        elif writer == "odml_save":
            odml.save(doc, path, "xml")
        elif writer == "odml_save_default":
            odml.save(doc, path)
        else:
            raise ValueError(writer)
        with io.open(path, "rb") as fh:
            raw = fh.read()
        return {"text": raw.decode("utf-8"), "path": path}
    except Exception as exc:
        out = {"raised": fw.exc_name(exc)}
        if is_file:
            if not os.path.exists(path):
                out["file"] = "absent"
            else:
                with io.open(path, "rb") as fh:
                    raw = fh.read()
                out["file"] = "untouched" if precreate and raw == SENTINEL.encode("utf-8") else "altered"
        return out


def xml_plain_char(c):
    """certainly a character XML 1.0 can carry (the Char production without the discouraged ranges
    is not needed: lxml takes all of Char)"""
    n = ord(c)
    return c in u"\t\n\r" or 0x20 <= n <= 0xD7FF or 0xE000 <= n <= 0xFFFD or n >= 0x10000


def must_write(mem):
    """The property's 'a document that cannot be represented makes the writer raise', read from the
    other side and weakly: a valid document without any of the shapes the XML form cannot express
    (blank name, names equal after trimming, a separator inside an n-tuple item, a character outside
    XML 1.0) has to be written. Everything else: no claim (the writer may write or refuse; what it
    writes has to load to the document)."""
    if shape_flags(mem) & {"blank_name", "names_clash_after_trim", "tuple_item_separator"}:
        return False
    # round 4: a value list that holds None (what tuple_get makes of an empty / falsy value of an
    # n-tuple Property) has no XML spelling either: no claim (weaker reading; whether such a value
    # should be stored at all is the business of the value conversion, C05)
    if has_none_value(mem):
        return False
    return _all_plain(mem)


def _all_plain(x):
    todo = [x]                      # (iterative: documents can be nested hundreds of levels deep)
    while todo:
        y = todo.pop()
        if isinstance(y, str):
            if not all(xml_plain_char(c) for c in y):
                return False
        elif isinstance(y, dict):
            todo.extend(y.values())
        elif isinstance(y, (list, tuple)):
            todo.extend(y)
    return True


def strip_foreign(tree, vocab):
    """-> (tree without the first-level children outside the vocabulary, their number)"""
    keep = [k for k in tree["kids"] if k["tag"] in vocab]
    return dict(tree, kids=keep), len(tree["kids"]) - len(keep)


RUNAWAY_DEPTH = 40      # deeper than anything the generator nests on purpose, except the chains


def runaway(mem, spec):
    """Document.finalize() (also inside the RDF writer) on a link to an ancestor of the linking
    Section nests copies until RecursionError and leaves a document some 250 levels deep, the exact
    depth depending on the stack at that moment. That is the business of the link properties
    (C12); such accidents are not used here. Deep nesting as such is generated on purpose (chains)."""
    return depth_of(mem) > RUNAWAY_DEPTH and not spec.get("chain")


# ----------------------------------------------------------------------------- known-finding shapes
def walk_secs(secs):
    for s in secs:
        yield s
        for c in walk_secs(s["secs"]):
            yield c


def tuple_sep_props(mem):
    """diff-paths of the Properties holding an n-tuple item with `,` CR or LF"""
    out = []

    def rec(secs, prefix):
        for i, s in enumerate(secs):
            here = "%s/secs/%d" % (prefix, i)
            for j, p in enumerate(s["props"]):
                for v in p["values"]:
                    if isinstance(v, dict) and "t" in v and any(c in x for x in v["t"] for c in u",\n\r"):
                        out.append("%s/props/%d" % (here, j))
                        break
            rec(s["secs"], here)
    rec(mem["secs"], "")
    return out


def clash_lists(mem):
    """diff-paths of the child lists in which names collide after trimming -> number of
    children the lenient reader leaves out there"""
    out = {}

    def dropped(objs):
        seen, n = set(), 0
        for o in objs:
            if o["name"] is None:
                continue
            t = strip(o["name"])
            if t in seen:
                n += 1
            seen.add(t)
        return n

    def rec(secs, prefix):
        n = dropped(secs)
        if n:
            out[prefix + "/secs"] = n
        for i, s in enumerate(secs):
            here = "%s/secs/%d" % (prefix, i)
            n = dropped(s["props"])
            if n:
                out[here + "/props"] = n
            rec(s["secs"], here)
    rec(mem["secs"], "")
    return out


def shape_flags(mem):
    """which known-defect trigger shapes occur in the in-memory document"""
    flags = set()

    def names_clash(objs):
        names = [strip(o["name"]) for o in objs if o["name"] is not None]
        return len(set(names)) != len(names)

    groups = [mem["secs"]]
    for s in walk_secs(mem["secs"]):
        groups.append(s["secs"])
        groups.append(s["props"])
        if s["name"] is not None and strip(s["name"]) == u"":
            flags.add("blank_name")
        for p in s["props"]:
            if p["name"] is not None and strip(p["name"]) == u"":
                flags.add("blank_name")
            if p["uncertainty"] is not None and p["uncertainty"]["num"]:
                flags.add("uncertainty_number")
            for v in p["values"]:
                if isinstance(v, dict) and "t" in v and any(c in x for x in v["t"] for c in u",\n\r"):
                    flags.add("tuple_item_separator")
    if any(names_clash(g) for g in groups):
        flags.add("names_clash_after_trim")
    return flags


# ----------------------------------------------------------------------------- foreign mutations
BENIGN = ["shuffle_leaves", "pad_text", "upper_tags", "comment",
          "comment_in_leaf"]    # round 3: a comment in the middle of a text (the parser joins the parts)
DAMAGE = ["unknown_tag", "drop_element", "dup_leaf", "attribute", "version", "bad_id", "root_tag",
          "no_version", "bad_dtype", "bool_text", "bad_card", "empty_leaf", "nested_in_leaf"]


def mutate(root, ops, rng):
    from lxml import etree
    elems = [e for e in root.iter() if isinstance(e.tag, str)]
    cont = ("odml", "section", "property")
    containers = [e for e in elems if e.tag.lower() in cont]
    leaves = [e for e in elems if e.tag.lower() not in cont]
    for op in sorted(ops, key=lambda o: o == "comment_in_leaf"):      # (stable: that one goes last)
        leaves = [e for e in leaves if e.getparent() is not None]
        if op == "comment_in_leaf":
            for e in leaves:
                if e.text and len(e.text) >= 2 and not len(e) and rng.random() < 0.3:
                    cut = rng.randrange(1, len(e.text))
                    c = etree.Comment(rng.choice([u" note ", u"", u"<name>x</name>", u"\xe9"]))
                    c.tail = e.text[cut:]
                    e.text = e.text[:cut]
                    e.append(c)
        elif op == "shuffle_leaves":
            for c in containers:
                kids = list(c)
                kids = [k for k in kids if isinstance(k.tag, str)]
                lv = [k for k in kids if k.tag.lower() not in cont]
                ch = [k for k in kids if k.tag.lower() in cont]
                rng.shuffle(lv)
                cut = rng.randrange(len(lv) + 1)
                for k in kids:
                    c.remove(k)
                for k in lv[:cut] + ch + lv[cut:]:
                    k.tail = None
                    c.append(k)
        elif op == "pad_text":
            for e in leaves:
                # (the text of <value> is handed to from_csv unstripped: padding is not benign there)
                if e.text and e.tag.lower() != "value" and rng.random() < 0.5:
                    e.text = rng.choice([u" ", u"\n  ", u"\t"]) + e.text + rng.choice([u" ", u"\n", u""])
        elif op == "upper_tags":
            for e in elems:
                if e is not root and rng.random() < 0.4:
                    e.tag = rng.choice([e.tag.upper(), e.tag.capitalize()])
        elif op == "comment":
            rng.choice(containers).append(etree.Comment("written by another tool"))
        elif op == "unknown_tag":
            rng.choice(containers).append(etree.Element(rng.choice(["foo", "values", "odML", "Value2"])))
        elif op == "drop_element" and leaves:
            e = rng.choice(leaves)
            e.getparent().remove(e)
        elif op == "dup_leaf" and leaves:
            e = rng.choice(leaves)
            d = etree.SubElement(e.getparent(), e.tag)
            # (date / value texts stay canonical: float and date tokens are opaque to the model)
            d.text = rng.choice([e.text, None] + ([] if e.tag.lower() in ("date", "value") else [u"other"]))
        elif op == "attribute":
            rng.choice(elems).set(rng.choice(["version", "Version", "foo"]), "1.1")
        elif op == "version":
            root.set("version", rng.choice(["1.0", "1", "1.1 ", "2"]))
        elif op == "no_version":
            root.attrib.pop("version", None)
        elif op == "root_tag":
            root.tag = rng.choice(["odml", "section", "ODML"])
        elif op == "bad_id":
            ids = [e for e in leaves if e.tag == "id"]
            if ids:
                rng.choice(ids).text = rng.choice([u"xyz", u"", u"1234"])
        elif op == "bad_dtype":
            ts = [e for e in leaves if e.tag == "type" and e.getparent().tag == "property"]
            if ts:
                rng.choice(ts).text = rng.choice([u"bogus", u"Int", u"int", u"boolean", u"string", u"2-tuple"])
        elif op == "bool_text":
            def modelled(e):
                t = [k.text for k in e.getparent() if isinstance(k.tag, str) and k.tag.lower() == "type"]
                return not t or t[0] in ("string", "text", "url", "person", "boolean", "int") \
                    or (t[0] or "").endswith("-tuple")
            vs = [e for e in leaves if e.tag.lower() == "value" and modelled(e)]
            if vs:
                rng.choice(vs).text = rng.choice([u"T", u"[true,0]", u"maybe", u"[1,2", u"[]", u"[a\rb]",
                                                  u"[(1;2),(3)]", u"(1;2)", u"5", u"[-3,4]"])
        elif op == "bad_card":
            cs = [e for e in leaves if e.tag.endswith("_cardinality")]
            if cs:
                rng.choice(cs).text = rng.choice([u"(2, 1)", u"(a, 3)", u"(0, 0)", u" (1, 5) ", u"x", u"(3, None)"])
        elif op == "empty_leaf" and leaves:
            rng.choice(leaves).text = rng.choice([None, u" ", u""])
        elif op == "nested_in_leaf" and leaves:
            etree.SubElement(rng.choice(leaves), "b").text = u"x"


# ----------------------------------------------------------------------------- surface forms (round 3)
# "XML written to that vocabulary by another tool": the same element tree in the other legal
# spellings of an XML file - declared encodings, byte order marks, declaration styles, prolog and
# epilog, line ends, CDATA sections, character references, no white space between elements.
ENCODINGS = [  # (name in the XML declaration or None, Python codec that produces the bytes)
    ("UTF-8", "utf-8"), ("utf-8", "utf-8"), ("UTF-8", "utf-8-sig"), (None, "utf-8"), (None, "utf-8-sig"),
    ("ISO-8859-1", "latin-1"), ("iso-8859-1", "latin-1"), ("windows-1252", "cp1252"),
    ("ISO-8859-15", "iso8859-15"), ("UTF-16", "utf-16"), (None, "utf-16"), ("UTF-16LE", "utf-16-le"),
    ("UTF-16BE", "utf-16-be"), ("US-ASCII", "ascii")]
DECLS = [u'<?xml version="1.0" encoding="%s"?>', u"<?xml version='1.0' encoding='%s'?>",
         u'<?xml version="1.0" encoding="%s" standalone="yes"?>', u'<?xml version="1.0"  encoding="%s" ?>',
         u"<?xml version=\"1.0\" encoding=\"%s\" standalone='no'?>"]
DECLS_NOENC = [u"", u'<?xml version="1.0"?>', u'<?xml version="1.0" standalone="yes"?>']
BETWEEN = [u"\n", u"", u"\n<!-- written by another tool, d\xe9j\xe0 vu -->\n",
           u'\n<?xml-stylesheet type="text/xsl" href="odml.xsl"?>\n', u"\n<!DOCTYPE odML>\n",
           u"\n<!DOCTYPE odML [ <!ELEMENT odML ANY> <!ENTITY tool \"x\"> ]>\n", u"\n\n  \t"]
AFTER = [u"", u"\n", u"\n<!-- end -->\n", u"\n\n\n  ", u"\n<?end of file?>"]
EOLS = [u"\n", u"\n", u"\r\n", u"\r"]
ROOT_STYLES = [u'<odML version="%s">', u"<odML version='%s'>", u'<odML  version = "%s" >', u'<odML\n  version="%s"\n>']
SURFACE_READERS = ["strict_file", "lenient_file", "odmlreader_file", "odml_load", "strict_fileobj",
                   "strict_bytes", "lenient_bytes", "strict_bytesio", "strict_string", "lenient_string",
                   "odmlreader_string", "strict_stringio"]
# Not among them, on purpose: a text-mode file object (open(path, encoding=...)) - lxml encodes what
# it reads from it as UTF-8 and then believes the declaration, which is lxml's business; a str that
# still starts with U+FEFF; encodings libxml2 has no decoder for (UTF-32).


def surface_form(body_root, case, rnd):
    """-> (bytes of the file, decoded text a caller gets who reads and decodes the file himself)"""
    from lxml import etree
    declared, codec = ENCODINGS[case["enc"] % len(ENCODINGS)]
    cont = ("odml", "section", "property")
    if case.get("minify"):
        for e in body_root.iter():
            if isinstance(e.tag, str) and e.tag.lower() in cont:
                if e.text is not None and not e.text.strip(u" \t\n"):
                    e.text = None
            if e.tail is not None and not e.tail.strip(u" \t\n"):
                e.tail = None
    if case.get("cdata"):
        for e in body_root.iter():
            if not isinstance(e.tag, str) or e.tag.lower() in cont or not e.text or len(e):
                continue
            if u"\r" in e.text or u"]]>" in e.text or rnd.random() < 0.5:
                continue
            try:
                e.text.encode(codec)          # a character reference means nothing inside CDATA
            except UnicodeError:
                continue
            e.text = etree.CDATA(e.text)
    body = etree.tostring(body_root, encoding="unicode")
    m = re.match(u'<odML version="([^"<>\']*)"\\s*>', body)
    if m and case.get("root_style"):
        style = ROOT_STYLES[case["root_style"] % len(ROOT_STYLES)]
        body = style % m.group(1) + body[m.end():]
    if declared is None:
        decl = DECLS_NOENC[case["decl"] % len(DECLS_NOENC)]
    else:
        decl = DECLS[case["decl"] % len(DECLS)] % declared
    between = BETWEEN[case["between"] % len(BETWEEN)]
    if not decl:
        between = between.lstrip(u"\n \t")
    full = decl + between + body + AFTER[case["after"] % len(AFTER)]
    eol = EOLS[case["eol"] % len(EOLS)]
    if eol != u"\n":
        full = full.replace(u"\n", eol)
    data = full.encode(codec, "xmlcharrefreplace")
    return data, data.decode(codec)


# ----------------------------------------------------------------------------- sessions (round 3)
# Stateful reuse: one writer / reader object used several times, with an edit in between, after a
# refused or failed call; documents that were themselves loaded; other features of the library
# used in between. Oracle only (the model has no objects with a life time).
SESSION_KINDS = ["writer_reuse", "reader_reuse", "after_failure", "generations", "interleave"]
EDITS = ["rename_section", "more_values", "author", "drop_property", "new_section", "clear_definition",
         "shrink", "grow", "cardinality", "retype"]
BAD_TEXTS = ["truncated", "version", "unknown_tag", "empty", "not_xml", "no_root_close", "attribute"]


def apply_edit(doc, edit):
    """a small change through the public API; an edit that does not apply is skipped"""
    import odml
    try:
        secs = list(doc.itersections())
        props = list(doc.iterproperties())
        if edit == "rename_section" and secs:
            secs[0].name = u"renamed % {0} \xe9"
        elif edit == "more_values" and props:
            target = [q for q in props if q.dtype == "string"] or props
            target[0].values = list(target[0].values) + ([u"added, later", u"100%"]
                                                         if target[0].dtype == "string" else [])
        elif edit == "author":
            doc.author = u"someone else & co"
        elif edit == "drop_property" and props:
            props[-1].parent.remove(props[-1])
        elif edit == "new_section":
            sec = odml.Section(name=u"added later", type=u"t", parent=doc)
            odml.Property(name=u"q", values=[1, 2, 3], parent=sec)
        elif edit == "clear_definition" and secs:
            secs[0].definition = None
            secs[0].reference = u"ref"
        elif edit == "shrink":
            for sec in list(doc.sections)[1:]:
                doc.remove(sec)
            doc.author = None
        elif edit == "grow":
            for i in range(12):
                odml.Section(name=u"g%d" % i, type=u"t", parent=doc, definition=u"x" * 50)
        elif edit == "cardinality" and props:
            props[0].val_cardinality = (None, 10)
        elif edit == "retype" and props:
            target = [q for q in props if q.dtype == "int"]
            if target:
                target[0].dtype = "float"
    except Exception:
        pass


def make_bad(spec, how):
    """a copy of the document spec with one shape the XML form cannot express"""
    import copy
    d = copy.deepcopy(spec)
    if not d["secs"]:
        d["secs"].append({"id": str(uuid.UUID(int=7)), "name": u"s", "type": u"t", "definition": None,
                          "reference": None, "link": None, "repository": None, "include": None,
                          "sec_card": None, "prop_card": None, "props": [], "secs": []})
    sec = d["secs"][0]
    prop = {"id": str(uuid.UUID(int=8)), "name": u"bad", "unit": None, "definition": None, "dependency": None,
            "dependency_value": None, "reference": None, "value_origin": None, "val_card": None,
            "uncertainty": None, "dtype": "string", "values": [{"s": u"v"}]}
    if how == "tuple_item":
        prop["dtype"] = "2-tuple"
        prop["values"] = [{"t": [u"a,b", u"c"]}]
    elif how == "control_char":
        prop["definition"] = u"a\x01b"
    elif how == "control_value":
        prop["values"] = [{"s": u"a\x00b"}]
    elif how == "blank_name":
        prop["name"] = u" \t"
    elif how == "surrogate":
        prop["unit"] = u"\ud800"
    sec["props"] = [q for q in sec["props"] if q["name"] != u"bad"] + [prop]
    if how == "name_clash":
        twin = dict(prop, id=str(uuid.UUID(int=9)), name=u"bad ")
        sec["props"].append(twin)
    return d


def bad_text(text, how):
    if how == "truncated":
        return text[:max(1, len(text) // 2)]
    if how == "version":
        return text.replace(u'version="', u'version="0', 1)
    if how == "unknown_tag":
        return text.replace(u"</odML>", u"<bogus>x</bogus></odML>")
    if how == "empty":
        return u""
    if how == "not_xml":
        return u"{\"Document\": {}}"
    if how == "no_root_close":
        return text.replace(u"</odML>", u"")
    return text.replace(u"<odML ", u'<odML foo="1" ', 1)


# ----------------------------------------------------------------------------- the check
class C01(fw.Check):
    prop = "C01"
    lean_targets = ["OdmlModel.Props.C01"]
    obligations = ["C01." + t for t in ['csv_lib_roundtrip', 'csv_roundtrip', 'csv_empty_iff', 'csv_legacy_counterexample_comma', 'csv_legacy_counterexample_quote', 'csv_legacy_counterexample_newline', 'csv_legacy_counterexample_single_quote', 'csv_legacy_counterexample_single_bracket', 'csv_legacy_counterexample_empty', 'int_text_roundtrip', 'tuple_text_roundtrip', 'value_retyped', 'value_text_roundtrip', 'card_text_roundtrip', 'leaf_text_roundtrip', 'xml_vocab', 'xml_version', 'writer_keys_readable', 'xml_unrepresentable_chars', 'uncertainty_counterexample', 'blank_name_refused', 'tuple_item_refused', 'tuple_item_refused_raises', 'name_clash_refused', 'prop_xml_roundtrip', 'sec_xml_roundtrip', 'xml_roundtrip', 'xml_roundtrip_lenient', 'xml_save_load', 'dtype_case_counterexample', 'xml_denote', 'xml_strict_lenient_agree', 'xml_denote_sec', 'xml_denote_prop', 'xml_write_denotes', 'xml_roundtrip_or_refused', 'xml_refused_iff_not_repr', 'time_object_value_ok', 'datetime_object_value_ok', 'date_object_value_ok', 'aware_time_text_counterexample', 'subsecond_time_text_counterexample']]
    trusted_base = [
        "Lean 4.33.0 kernel; axioms propext, Classical.choice, Quot.sound only (audited per theorem)",
        "hand-written models lean/OdmlModel/Py/Csv.lean, Model/XmlCsv.lean, Model/Xml.lean, "
        "Model/XmlRepr.lean, Model/XmlTok.lean (with Py/Time.lean), tied to /repo by this correspondence run",
        "harness/extract_tables.py (format tables regenerated into Lean on every run)",
        "Driver/*.lean JSON glue; harness/framework.py, harness/c01.py",
        "lxml text<->tree (contract: parse(serialise(t)) = t on XML-compatible trees; ValueError on "
        "control characters), exercised end to end",
    ]
    assumptions = [
        "float / date / time / datetime values are opaque tokens: str(dtypes.get(text)) == text for "
        "the canonical text of a stored value (contract TokLib, exercised end to end)",
        "uuid.UUID is modelled on canonical lower-case ids only; int() on plain decimal literals only; "
        "str.lower on ASCII only; csv field size limit not modelled",
        "odml_tuple_import's one repair (a single value that is itself a bracketed tuple list) is not "
        "modelled: such inputs are reported `unmodelled` by the driver and skipped",
    ]
    _sep_props = []
    _clash = {}
    rule = ("csvlib/csv: random field lists and texts over the alphabet {a b x 1 , \" [ ] ( ) ; LF CR "
            "space NBSP < & e-acute CJK TAB ' > - .} plus a pool of known troublemakers; doc: random "
            "documents (depth <= 3, every dtype incl. 1..3-tuples, 0..4 values, every optional "
            "attribute, four cardinality shapes) x 6 writer entry points x 7 reader entry points; "
            "foreign: the written text re-ordered/padded/re-cased (benign) or damaged by 1-2 of 13 "
            "edits. Round 3: second alphabet (% { } $ backslash # / and other format, template, URL "
            "metacharacters, Latin-1/cp1252/Latin-9 letters, astral, combining, zero width, BOM, C1, "
            "non-ASCII white space; rarely a character XML cannot carry or a lone surrogate); documents "
            "built by constructors / setters / with an edit history / finalized links, unnamed objects, "
            "10+ siblings and values, depth up to 7, resolvable links; 7 plain + 8 styled writer entry "
            "points x 4 templates x 10 file name shapes x an older file in the way; 18 reader entry "
            "points; surface: 14 encodings x declaration / prolog / epilog / line end / CDATA / root tag "
            "styles x 12 reader entry points; session: 5 kinds of object reuse; proc: 6 environments. "
            "Round 4: 30 % of the Properties get their values as objects in non-canonical shapes (aware / "
            "sub-second / fold / subclass times and datetimes, texts in other spellings, numbers of "
            "neighbouring classes, anything for text dtypes, None) through constructor / value= / setter / "
            "append / extend / insert / item assignment / dtype change, in lists / tuples / iterators / "
            "scalars, with the dtype left to inference; attributes that are no texts; cardinalities as "
            "list / int / with a bool bound; the Document date as object; tokobj: single temporal "
            "objects vs the model. "
            "Non-trivial: a csv case with a special character, a doc case with at least one "
            "Property with values, a foreign / surface case that loads, a session with at least one "
            "load, a proc case that answered; distinct = distinct canonical JSON.")

    # -- generation ----------------------------------------------------------
    def generate(self, tier, rng):
        big = tier == "thorough"
        cases = []
        n_lib = 40000 if big else 5000
        for i in range(n_lib):
            row = [u"".join(rng.choice(ATOMS) for _ in range(rng.randrange(0, 6)))
                   for _ in range(rng.choice([0, 1, 1, 2, 2, 3, 5]))]
            cases.append({"stream": "csvlib", "row": row})
            text = u"".join(rng.choice(ATOMS[:14]) for _ in range(rng.randrange(0, 9)))
            cases.append({"stream": "csvlib", "text": text})
        n_csv = 40000 if big else 5000
        for i in range(n_csv):
            vals = [gen_text(rng) if rng.random() < 0.97 else rng.choice(POOL_CSV)
                    for _ in range(rng.choice([0, 1, 1, 1, 2, 2, 3, 4, 4, 11]))]
            cases.append({"stream": "csv", "vals": vals})
            cases.append({"stream": "csv", "text": gen_text(rng) if rng.random() < 0.5 else
                          u"[" + u"".join(rng.choice(ATOMS[:14]) for _ in range(rng.randrange(0, 8))) + u"]"})
        n_doc = 12000 if big else 1000
        for i in range(n_doc):
            cases.append(self.gen_doc_case(rng))
        n_for = 15000 if big else 1000
        for i in range(n_for):
            benign = rng.random() < 0.4
            ops = rng.sample(BENIGN, rng.randrange(1, 4)) if benign else \
                rng.sample(BENIGN, rng.randrange(0, 2)) + rng.sample(DAMAGE, rng.randrange(1, 3))
            cases.append({"stream": "foreign", "doc": gen_doc(rng, wild=False), "ops": ops, "benign": benign,
                          "mseed": rng.randrange(1 << 30)})
        # round 3 ---------------------------------------------------------------------------------
        n_surf = 8000 if big else 700
        for i in range(n_surf):
            cases.append({"stream": "surface", "doc": gen_doc(rng, tame=True),
                          "ops": rng.sample(BENIGN, rng.choice([0, 0, 1, 2])), "mseed": rng.randrange(1 << 30),
                          "enc": rng.randrange(len(ENCODINGS)), "decl": rng.randrange(5),
                          "between": rng.choice([0, 0] + list(range(len(BETWEEN)))),
                          "after": rng.choice([0, 1] + list(range(len(AFTER)))),
                          "eol": rng.randrange(len(EOLS)), "cdata": rng.random() < 0.3,
                          "minify": rng.random() < 0.2, "root_style": rng.choice([0, 0, 1, 2, 3]),
                          "fname": rng.choice([0, 0, 0] + list(range(len(FILE_NAMES))))})
        n_sess = 4000 if big else 400
        for i in range(n_sess):
            kind = rng.choice(SESSION_KINDS)
            tame = rng.random() < 0.7
            case = {"stream": "session", "kind": kind,
                    "docs": [gen_doc(rng, tame=tame), gen_doc(rng, tame=tame)],
                    "style": rng.random() < 0.4}
            if kind == "writer_reuse":
                case["edits"] = rng.sample(EDITS, rng.choice([1, 1, 2, 3]))
            elif kind == "after_failure":
                case["bad_text"] = rng.choice(BAD_TEXTS)
                case["docs"][1] = make_bad(case["docs"][1], rng.choice(
                    ["tuple_item", "control_char", "control_value", "blank_name", "name_clash", "surrogate"]))
            elif kind == "generations":
                case["docs"] = case["docs"][:1]
            elif kind == "interleave":
                feats = ["validate", "json", "yaml", "clone", "pprint", "iterate", "other_xml", "other_json",
                         "export_leaf"] + (["rdf", "finalize"] if finalize_safe(case["docs"][0]) else [])
                case["features"] = rng.sample(feats, rng.randrange(1, 5))
            cases.append(case)
        envs = [{"LC_ALL": "C", "LANG": "C", "PYTHONUTF8": "0", "PYTHONCOERCECLOCALE": "0", "PYTHONHASHSEED": "1"},
                {"LC_ALL": "POSIX", "PYTHONUTF8": "0", "PYTHONCOERCECLOCALE": "0", "PYTHONHASHSEED": "12345"},
                {"LC_ALL": "C.UTF-8", "PYTHONHASHSEED": "0"},
                {"PYTHONUTF8": "1", "PYTHONHASHSEED": "4294967295", "TZ": "Pacific/Kiritimati"},
                {"LC_ALL": "C", "PYTHONUTF8": "0", "PYTHONCOERCECLOCALE": "0", "PYTHONIOENCODING": "latin-1",
                 "PYTHONHASHSEED": "77"},
                {"LANG": "en_US.ISO-8859-1", "PYTHONUTF8": "0", "PYTHONCOERCECLOCALE": "0", "PYTHONHASHSEED": "random"}]
        # round 4 ---------------------------------------------------------------------------------
        n_tok = 6000 if big else 600
        for i in range(n_tok):
            obj, kind = rng.choice([("time", "time"), ("time", "time"), ("datetime", "datetime"),
                                    ("datetime", "datetime"), ("date", "date"), ("datetime", "date")])
            desc = {"time": gen_raw_time, "datetime": gen_raw_datetime, "date": gen_raw_date}[obj](rng)
            desc["sub"] = rng.choice([0, 0, 1])       # (an own __str__ is not in the model)
            cases.append({"stream": "tokobj", "kind": kind, "obj": desc,
                          "infer": rng.random() < 0.3, "via": rng.choice(["ctor", "append", "setitem", "extend"])})
        n_proc = 48 if big else 6
        for i in range(n_proc):
            # documents that are certain to hold text beyond ASCII and beyond Latin-1
            docs = [gen_doc(rng, tame=True) for _ in range(4 if big else 3)]
            for d in docs:
                d["author"] = rng.choice([u"J\xfcrgen \u4e2d \u20ac", u"\xb5 \U0001F600", u"Zo\xeb 100%"])
            cases.append({"stream": "proc", "docs": docs, "env": envs[i % len(envs)],
                          "flags": ["-OO"] if i % 4 == 3 else [], "template": rng.randrange(len(TEMPLATES))})
        return cases

    @staticmethod
    def gen_doc_case(rng):
        doc = gen_doc(rng, chain=True)
        case = {"stream": "doc", "doc": doc}
        if doc.get("chain"):
            case.update(more=False, fname=0, precreate=False, route="ctor", finalize=False)
            if rng.random() < 0.5:
                case["styled_writers"] = rng.sample(STYLED_WRITERS, 1)
            return case
        if rng.random() < 0.45:
            # writer options x entry points: a sample of the eight styled entry points per document
            case["styled_writers"] = rng.sample(STYLED_WRITERS, rng.choice([1, 2, 2, 3]))
            case["template"] = rng.randrange(len(TEMPLATES))
        case["more"] = rng.random() < 0.5             # the round 3 reader / writer entry points as well
        case["fname"] = rng.choice([0, 0, 0] + list(range(len(FILE_NAMES))))
        case["precreate"] = rng.random() < 0.3        # an older, longer file is in the way
        case["route"] = rng.choice(["ctor", "ctor", "setters", "churn"])
        # (links are followed in about a third of the documents where that is certain to end)
        case["finalize"] = finalize_safe(doc) and rng.random() < 0.35
        if rng.random() < 0.03:
            # round 4, argument shapes: a bool as a cardinality bound (True is the int 1 for
            # format_cardinality); oracle only, see has_bool_card
            slots = [(s, k) for s in walk_secs(doc["secs"]) for k in ("sec_card", "prop_card")]
            slots += [(p, "val_card") for s in walk_secs(doc["secs"]) for p in s["props"]]
            if slots:
                o, k = rng.choice(slots)
                o[k] = rng.choice([[True, rng.choice([1, 2, 5, 10])], [None, True], [True, None], [True, True]])
                o["card_shape"] = rng.choice(["tuple", "list"])
        return case

    # -- implementation ------------------------------------------------------
    def impl(self, case):
        st = case["stream"]
        if st == "csvlib":
            if "row" in case:
                s = io.StringIO()
                csv.writer(s, dialect="excel").writerow(case["row"])
                return {"written": s.getvalue()}
            try:
                return {"read": list(csv.reader(io.StringIO(case["text"]), dialect="excel"))[0]}
            except csv.Error:
                return {"raised": "csv"}
            except IndexError:
                return {"raised": "index"}
        if st == "csv":
            from odml.tools.xmlparser import to_csv, from_csv
            if "vals" in case:
                out = {"text": to_csv(case["vals"])}
                try:
                    out["back"] = from_csv(out["text"])
                except csv.Error:
                    out["back_raised"] = "csv"
                except IndexError:
                    out["back_raised"] = "index"
                return out
            try:
                return {"read": from_csv(case["text"])}
            except csv.Error:
                return {"raised": "csv"}
            except IndexError:
                return {"raised": "index"}
        if st == "doc":
            return self.impl_doc(case)
        if st == "foreign":
            return self.impl_foreign(case)
        if st == "surface":
            return self.impl_surface(case)
        if st == "session":
            return self.impl_session(case)
        if st == "proc":
            return self.impl_proc(case)
        if st == "tokobj":
            return self.impl_tokobj(case)
        raise ValueError(st)

    def impl_doc(self, case):
        import odml.info
        try:
            doc = build_doc(case["doc"], case.get("route", "ctor"), case.get("finalize", False))
        except Exception as exc:
            return {"unbuildable": fw.exc_name(exc)}
        mem = snap_doc(doc)
        if runaway(mem, case["doc"]):
            return {"unbuildable": "runaway link resolution"}
        voc = vocabulary()
        tmp = tempfile.mkdtemp(prefix="c01_")
        more = case.get("more", False)
        name_pat = FILE_NAMES[case.get("fname", 0) % len(FILE_NAMES)]
        template = TEMPLATES[case.get("template", 0) % len(TEMPLATES)]
        try:
            writes = {}
            plain_text = None
            plain_path = None
            styled_paths = []
            writers = [w for w in PLAIN_WRITERS[:4 if not more else len(PLAIN_WRITERS)]]
            writers += case.get("styled_writers") or (LEGACY_STYLED if case.get("styled") else [])
            for w in writers:
                res = write_with(w, doc, tmp, name_pat, template, case.get("precreate", False))
                if "raised" in res:
                    writes[w] = {"raised": res["raised"], "file": res.get("file")}
                    continue
                try:
                    tree = tree_of(parse_text(res["text"]), True, voc)
                except Exception as exc:
                    writes[w] = {"unparsable": fw.exc_name(exc)}
                    continue
                writes[w] = {"tree": tree}
                if w in STYLED:
                    styled_paths.append((w, res.get("path")))
                else:
                    plain_text = plain_text or res["text"]
                    plain_path = plain_path or res.get("path")
            loads = {}
            if plain_text is not None and plain_path is not None:
                for r in READERS + (READERS_MORE if more else []):
                    loads[r] = load_with(r, plain_text, plain_path)
                if more:
                    # the text of the written *file* (XML declaration, stylesheet instruction) handed
                    # to the string entry points, as a caller does who read the file himself
                    with io.open(plain_path, "rb") as fh:
                        ftext = fh.read().decode("utf-8")
                    for r in ("strict_string", "lenient_string", "odmlreader_string", "strict_stringio"):
                        loads[r + "@file"] = load_with(r, ftext, plain_path)
            styled = {}
            for i, (w, spath) in enumerate(styled_paths):
                with io.open(spath, "rb") as fh:
                    stext = fh.read().decode("utf-8")
                if "styled_writers" not in case:
                    for r in ("strict_file", "lenient_file", "odml_load"):
                        styled[r] = load_with(r, stext, spath)
                    break
                readers = ["lenient_file", "odml_load"]
                if i == 0:
                    readers += ["strict_file", "lenient_string", "lenient_bytesio", "odml_load_default",
                                "lenient_stringio"]
                for r in readers:
                    styled[r + "@" + w] = load_with(r, stext, spath)
            valid = None
            try:
                from odml.validation import Validation
                valid = not any(e.is_error for e in Validation(doc).errors)
            except Exception:
                pass
            return {"mem": mem, "writes": squeeze(writes), "loads": squeeze(loads), "styled": squeeze(styled),
                    "mem_after": snap_doc(doc), "format_version": odml.info.FORMAT_VERSION,
                    "vocab": sorted(voc), "valid": valid}
        finally:
            shutil.rmtree(tmp, ignore_errors=True)

    def impl_tokobj(self, case):
        import odml
        from odml import dtypes
        from odml.tools.xmlparser import XMLReader, XMLWriter
        kind = case["kind"]
        obj = raw_value(case["obj"])
        out = {"str": str(obj), "stored": None, "back": None, "own": None}
        try:
            out["stored"] = str(dtypes.get(obj, kind))
        except Exception:
            pass
        if out["stored"] is not None:
            try:
                out["back"] = str(dtypes.get(out["stored"], kind))
            except Exception:
                pass
        try:
            out["own"] = str(dtypes.get(str(obj), kind))
        except Exception:
            pass
        # the same through the public API: a Property that is given the object, saved and loaded
        doc = odml.Document()
        sec = odml.Section(name="s", type="t", parent=doc)
        dtype = None if case.get("infer") else kind
        first = raw_value(dict(case["obj"], tz=None, sub=0, fold=0))     # a plain object of the class
        try:
            via = case.get("via", "ctor")
            if via == "ctor":
                prop = odml.Property(name="p", values=[obj, first], dtype=dtype, parent=sec)
            else:
                prop = odml.Property(name="p", values=[first], dtype=dtype, parent=sec)
                if via == "append":
                    prop.append(obj)
                elif via == "extend":
                    prop.extend([obj, obj])
                else:
                    prop[0] = obj
        except Exception as exc:
            out["refused"] = fw.exc_name(exc)
            return out

        def snap(p):
            return {"dtype": p.dtype, "values": [[type(v).__name__, str(v)] for v in p.values]}

        out["saved"] = snap(prop)
        out["loads"] = {}
        tmp = tempfile.mkdtemp(prefix="c01_")
        try:
            path = os.path.join(tmp, "t.xml")
            for tag, fn in (("strict_string", lambda: XMLReader(show_warnings=False).from_string(str(XMLWriter(doc)))),
                            ("lenient_string", lambda: XMLReader(ignore_errors=True, show_warnings=False)
                             .from_string(str(XMLWriter(doc)))),
                            ("save_load", lambda: odml.save(doc, path) or odml.load(path, show_warnings=False))):
                try:
                    back = fn()
                    out["loads"][tag] = snap(back.sections[0].properties[0]) \
                        if len(back.sections) == 1 and len(back.sections[0].properties) == 1 else {"shape": "other"}
                except Exception as exc:
                    out["loads"][tag] = {"raised": fw.exc_name(exc)}
        finally:
            shutil.rmtree(tmp, ignore_errors=True)
        return out

    def impl_foreign(self, case):
        import random
        from lxml import etree
        from odml.tools.xmlparser import XMLWriter
        try:
            doc = build_doc(case["doc"])
            text = str(XMLWriter(doc))
        except Exception as exc:
            return {"unbuildable": fw.exc_name(exc)}
        mem = snap_doc(doc)
        root = etree.fromstring(text.encode("utf-8"))
        mutate(root, case["ops"], random.Random(case["mseed"]))
        mtext = etree.tostring(root, encoding="unicode")
        tree = tree_of(parse_text(mtext), True, vocabulary())
        out = {"mem": mem, "tree": tree, "loads": {}}
        for r in ("strict_string", "lenient_string"):
            out["loads"][r] = load_with(r, mtext, None)
        return out

    def impl_surface(self, case):
        import random
        from lxml import etree
        from odml.tools.xmlparser import XMLWriter
        try:
            doc = build_doc(case["doc"])
            text = str(XMLWriter(doc))
        except Exception as exc:
            return {"unbuildable": fw.exc_name(exc)}
        mem = snap_doc(doc)
        rnd = random.Random(case["mseed"])
        root = etree.fromstring(text.encode("utf-8"))
        mutate(root, case["ops"], rnd)
        data, decoded = surface_form(root, case, rnd)
        tree = tree_of(parse_text(data), True, vocabulary())
        tmp = tempfile.mkdtemp(prefix="c01_")
        try:
            path = os.path.join(tmp, FILE_NAMES[case.get("fname", 0) % len(FILE_NAMES)] % "foreign")
            with io.open(path, "wb") as fh:
                fh.write(data)
            out = {"mem": mem, "tree": tree, "loads": {}}
            for r in SURFACE_READERS:
                out["loads"][r] = load_with(r, decoded, path, data)
            squeeze(out["loads"])
            return out
        finally:
            shutil.rmtree(tmp, ignore_errors=True)

    def impl_session(self, case):
        import odml
        from odml.tools.xmlparser import XMLReader, XMLWriter
        from odml.tools.odmlparser import ODMLReader, ODMLWriter
        from odml.validation import Validation
        try:
            docs = [build_doc(d) for d in case["docs"]]
        except Exception as exc:
            return {"unbuildable": fw.exc_name(exc)}
        kind = case["kind"]
        mems, checks, refusals = [], [], []
        tmp = tempfile.mkdtemp(prefix="c01_")

        class Runaway(Exception):
            pass

        def snap(doc):
            mems.append(snap_doc(doc))
            if runaway(mems[-1], {}):
                raise Runaway()
            return len(mems) - 1

        def rd(tag, fn, idx, warns_of=None):
            """one load; the expected document is mems[idx] (None: nothing is expected)"""
            try:
                d = fn()
                res = {"doc": snap_doc(d), "warns": None if warns_of is None else len(warns_of.warnings)}
            except Exception as exc:
                res = {"raised": exc_cat(exc)}
                d = None
            if idx is not None:
                checks.append({"tag": tag, "load": res, "mem": idx})
            return d

        def wr(tag, fn, doc, idx):
            """one save; -> the result or None when it raised (recorded with the document's validity)"""
            try:
                return fn()
            except Exception as exc:
                try:
                    valid = not any(e.is_error for e in Validation(doc).errors)
                except Exception:
                    valid = None
                refusals.append({"tag": tag, "raised": fw.exc_name(exc), "mem": idx, "valid": valid})
                return None

        def path(name):
            return os.path.join(tmp, name)

        strict = lambda: XMLReader(show_warnings=False)
        try:
            if kind == "writer_reuse":
                a, b = docs[0], docs[1]
                w, ow = XMLWriter(a), ODMLWriter("XML")
                i1 = snap(a)
                t1 = wr("str#1", lambda: str(w), a, i1)
                ok1 = wr("write_file#1", lambda: w.write_file(path("p.xml")) or True, a, i1)
                t0 = wr("to_string(a)#1", lambda: ow.to_string(a), a, i1)
                if ok1:
                    rd("file after the first save", lambda: strict().from_file(path("p.xml")), i1)
                if t0 is not None:
                    rd("ODMLWriter.to_string(a) before the edit", lambda: strict().from_string(t0), i1)
                for edit in case["edits"]:
                    apply_edit(a, edit)
                i2 = snap(a)
                t2 = wr("str#2", lambda: str(w), a, i2)
                ok2 = wr("write_file#2", lambda: w.write_file(path("p.xml")) or True, a, i2)
                ta1 = wr("to_string(a)#2", lambda: ow.to_string(a), a, i2)
                if ta1 is not None:
                    rd("ODMLWriter.to_string(a) right after the edit, same ODMLWriter",
                       lambda: strict().from_string(ta1), i2)
                ib = snap(b)
                tb = wr("to_string(b)", lambda: ow.to_string(b), b, ib)
                ok3 = wr("ow.write_file(a)", lambda: ow.write_file(a, path("q.xml")) or True, a, i2)
                ta = wr("to_string(a)", lambda: ow.to_string(a), a, i2)
                ok4 = wr("ow.write_file(b)", lambda: ow.write_file(b, path("q.xml"),
                                                                   local_style=case.get("style", False)) or True, b, ib)
                if t1 is not None:
                    rd("text of the first save", lambda: strict().from_string(t1), i1)
                if t2 is not None:
                    rd("text after the edit, same XMLWriter", lambda: strict().from_string(t2), i2)
                if ok2:
                    rd("file saved twice by the same XMLWriter", lambda: strict().from_file(path("p.xml")), i2)
                elif ok1:
                    rd("file whose second save was refused", lambda: strict().from_file(path("p.xml")), i1)
                if tb is not None:
                    rd("ODMLWriter.to_string(b)", lambda: strict().from_string(tb), ib)
                if ta is not None:
                    rd("ODMLWriter.to_string(a) after b", lambda: strict().from_string(ta), i2)
                if ok4:
                    rd("file saved for a, then for b by the same ODMLWriter",
                       lambda: odml.load(path("q.xml"), show_warnings=False), ib)
                elif ok3:
                    rd("file saved for a, save of b refused", lambda: odml.load(path("q.xml"), show_warnings=False), i2)
            elif kind == "reader_reuse":
                a, b = docs[0], docs[1]
                ia, ib = snap(a), snap(b)
                ta = wr("str(a)", lambda: str(XMLWriter(a)), a, ia)
                tb = wr("str(b)", lambda: str(XMLWriter(b)), b, ib)
                if ta is not None and tb is not None \
                        and wr("write_file(a)", lambda: XMLWriter(a).write_file(path("a.xml")) or True, a, ia) \
                        and wr("odml.save(b)", lambda: odml.save(b, path("b.xml")) or True, b, ib):
                    for mode in (False, True):
                        name = "lenient" if mode else "strict"
                        r = XMLReader(ignore_errors=mode, show_warnings=False)
                        d1 = rd(name + " reader, 1st call from_string(a)", lambda: r.from_string(ta), ia)
                        rd(name + " reader, 2nd call from_file(b)", lambda: r.from_file(path("b.xml")), ib)
                        rd(name + " reader, 3rd call from_string(b)", lambda: r.from_string(tb), ib)
                        rd(name + " reader, 4th call from_file(a)", lambda: r.from_file(path("a.xml")), ia)
                        rd(name + " reader, 5th call from_file(StringIO a)",
                           lambda: r.from_file(io.StringIO(ta)), ia)
                        if d1 is not None:
                            rd(name + " reader, document of the 1st call after the later calls", lambda: d1, ia)
                    orr = ODMLReader("XML", show_warnings=False)
                    d1 = rd("ODMLReader, 1st call from_file(a)", lambda: orr.from_file(path("a.xml")), ia)
                    rd("ODMLReader, 2nd call from_string(b)", lambda: orr.from_string(tb), ib)
                    rd("ODMLReader, 3rd call from_file(b)", lambda: orr.from_file(path("b.xml")), ib)
                    rd("ODMLReader, 4th call from_file(a)", lambda: orr.from_file(path("a.xml")), ia)
                    if d1 is not None:
                        rd("ODMLReader, document of the 1st call after the later calls", lambda: d1, ia)
            elif kind == "after_failure":
                a, bad = docs[0], docs[1]
                ia, ibad = snap(a), snap(bad)
                ta = wr("str(a)", lambda: str(XMLWriter(a)), a, ia)
                ow = ODMLWriter("XML")
                if ta is not None and wr("ow.write_file(a)", lambda: ow.write_file(a, path("a.xml")) or True, a, ia):
                    damaged = bad_text(ta, case["bad_text"])
                    with io.open(path("damaged.xml"), "w", encoding="utf-8") as fh:
                        fh.write(damaged)
                    for mode in (False, True):
                        name = "lenient" if mode else "strict"
                        r = XMLReader(ignore_errors=mode, show_warnings=False)
                        rd(None, lambda: r.from_string(damaged), None)
                        rd(name + " reader after a damaged text, from_string", lambda: r.from_string(ta), ia)
                        rd(None, lambda: r.from_file(path("damaged.xml")), None)
                        rd(name + " reader after a damaged file, from_file", lambda: r.from_file(path("a.xml")), ia)
                    orr = ODMLReader("XML", show_warnings=False)
                    rd(None, lambda: orr.from_file(path("damaged.xml")), None)
                    rd(None, lambda: orr.from_file(path("missing.xml")), None)
                    rd("ODMLReader after a damaged and a missing file", lambda: orr.from_file(path("a.xml")), ia)
                    # a save that is refused must leave the older file as it is
                    for tag, save in (("ODMLWriter.write_file", lambda: ow.write_file(bad, path("a.xml")) or True),
                                      ("XMLWriter.write_file", lambda: XMLWriter(bad).write_file(path("a.xml")) or True),
                                      ("odml.save local_style", lambda: odml.save(bad, path("a.xml"), local_style=True) or True)):
                        done = wr(tag + "(unrepresentable)", save, bad, ibad)
                        rd("older file after %s of an unrepresentable document %s" % (tag, "was refused" if not done else "went through"),
                           lambda: odml.load(path("a.xml"), show_warnings=False), ibad if done else ia)
                        if done and not wr("ow.write_file(a) again", lambda: ow.write_file(a, path("a.xml")) or True, a, ia):
                            break
                    wr("str(unrepresentable)", lambda: str(XMLWriter(bad)), bad, ibad)
                    done = wr("same ODMLWriter after the refusal", lambda: ow.write_file(a, path("c.xml")) or True, a, ia)
                    if done:
                        rd("same ODMLWriter after the refusal", lambda: strict().from_file(path("c.xml")), ia)
                    t2 = wr("to_string after the refusal", lambda: ow.to_string(a), a, ia)
                    if t2 is not None:
                        rd("to_string after the refusal", lambda: strict().from_string(t2), ia)
            elif kind == "generations":
                a = docs[0]
                ia = snap(a)
                t1 = wr("str(a)", lambda: str(XMLWriter(a)), a, ia)
                if t1 is not None:
                    l1 = rd("1st generation (string)", lambda: strict().from_string(t1), ia)
                    if l1 is not None:
                        t2 = wr("str(loaded)", lambda: str(XMLWriter(l1)), l1, ia)
                        if t2 is not None:
                            l2 = rd("2nd generation (string)", lambda: strict().from_string(t2), ia)
                            if l2 is not None:
                                rd("3rd generation (string)",
                                   lambda: XMLReader(ignore_errors=True, show_warnings=False).from_string(ODMLWriter("XML").to_string(l2)), ia)
                    kw = {"local_style": True} if case.get("style") else {}
                    if wr("odml.save(a)", lambda: odml.save(a, path("g1.xml"), **kw) or True, a, ia):
                        f1 = rd("1st generation (file)", lambda: odml.load(path("g1.xml"), show_warnings=False), ia)
                        if f1 is not None and wr("odml.save(loaded)", lambda: odml.save(f1, path("g2.xml")) or True, f1, ia):
                            f2 = rd("2nd generation (file, strict reader)", lambda: strict().from_file(path("g2.xml")), ia)
                            # a loaded document saved over the file it came from
                            if f2 is not None and wr("odml.save over the source file",
                                                     lambda: odml.save(f2, path("g1.xml")) or True, f2, ia):
                                rd("3rd generation (saved over its source file)",
                                   lambda: strict().from_file(path("g1.xml")), ia)
            elif kind == "interleave":
                a, b = docs[0], docs[1]
                for feat in case["features"]:
                    try:
                        if feat == "validate":
                            Validation(a).report()
                        elif feat == "json":
                            ODMLWriter("JSON").to_string(a)
                        elif feat == "yaml":
                            ODMLWriter("YAML").to_string(a)
                        elif feat == "rdf":
                            ODMLWriter("RDF").to_string(a)
                        elif feat == "finalize":
                            a.finalize()
                        elif feat == "clone":
                            a.clone()
                        elif feat == "pprint":
                            a.pprint()
                            repr(a)
                        elif feat == "iterate":
                            [q.get_path() for q in a.iterproperties()]
                            [q.get_path() for q in a.itersections()]
                        elif feat == "other_xml":
                            XMLReader(ignore_errors=True, show_warnings=False).from_string(
                                bad_text(str(XMLWriter(b)), "unknown_tag"))
                        elif feat == "other_json":
                            ODMLReader("JSON", show_warnings=False).from_string(ODMLWriter("JSON").to_string(b))
                        elif feat == "export_leaf":
                            for q in list(a.iterproperties())[:2]:
                                q.export_leaf()
                    except Exception:
                        pass
                ia = snap(a)
                t = wr("str(a) after other features", lambda: str(XMLWriter(a)), a, ia)
                done = wr("odml.save(a) after other features", lambda: odml.save(a, path("i.xml")) or True, a, ia)
                try:
                    ODMLReader("JSON", show_warnings=False).from_string(ODMLWriter("JSON").to_string(b))
                    ODMLWriter("YAML").to_string(b)
                except Exception:
                    pass
                if t is not None:
                    rd("text written after other features", lambda: strict().from_string(t), ia)
                if done:
                    rd("file written after other features", lambda: odml.load(path("i.xml"), show_warnings=False), ia)
                try:
                    c = a.clone(keep_id=True)
                except Exception:
                    c = None
                if c is not None:
                    ic = snap(c)
                    tc = wr("str(clone)", lambda: str(XMLWriter(c)), c, ic)
                    if tc is not None:
                        rd("clone(keep_id=True) of the document", lambda: strict().from_string(tc), ic)
                        # the clone keeps every id: it is the same document
                        rd("clone(keep_id=True) against the original", lambda: strict().from_string(tc), ia)
            return {"mems": mems, "checks": checks, "refusals": refusals}
        except Runaway:
            return {"unbuildable": "runaway link resolution"}
        finally:
            shutil.rmtree(tmp, ignore_errors=True)

    def impl_proc(self, case):
        """the round trip in a fresh interpreter with another locale / hash seed / optimisation level"""
        import json
        import subprocess
        env = dict(os.environ)
        for k in ("LC_ALL", "LC_CTYPE", "LANG", "LANGUAGE", "PYTHONUTF8", "PYTHONIOENCODING",
                  "PYTHONCOERCECLOCALE", "PYTHONHASHSEED", "PYTHONOPTIMIZE"):
            env.pop(k, None)
        env.update(case["env"])
        here = os.path.dirname(os.path.abspath(__file__))
        env["PYTHONPATH"] = here + os.pathsep + env.get("PYTHONPATH", "")
        env["PYTHONDONTWRITEBYTECODE"] = "1"
        cmd = [sys.executable] + list(case.get("flags", [])) + [os.path.abspath(__file__), "--child"]
        payload = json.dumps({"docs": case["docs"], "template": TEMPLATES[case.get("template", 0) % len(TEMPLATES)]},
                             ensure_ascii=True).encode("ascii")
        try:
            proc = subprocess.run(cmd, input=payload, stdout=subprocess.PIPE, stderr=subprocess.PIPE, env=env,
                                  timeout=600)
        except subprocess.TimeoutExpired:
            return {"child_failed": "timeout"}
        if proc.returncode != 0:
            return {"child_failed": proc.returncode, "stderr": proc.stderr.decode("utf-8", "replace")[-800:]}
        lines = [ln for ln in proc.stdout.decode("ascii", "replace").split("\n") if ln.startswith("{")]
        if not lines:
            return {"child_failed": "no answer", "stderr": proc.stderr.decode("utf-8", "replace")[-800:]}
        return json.loads(lines[-1])

    # -- model ---------------------------------------------------------------
    def model_requests(self, case, obs):
        obs = unsqueeze(obs)
        st = case["stream"]
        P = {"p": "C01"}
        if st == "csvlib":
            if "row" in case:
                return [dict(P, op="csv_write", row=case["row"])]
            return [dict(P, op="csv_read", s=case["text"])]
        if st == "csv":
            if "vals" in case:
                return [dict(P, op="to_csv", vals=case["vals"]), dict(P, op="from_csv", s=obs["text"])]
            return [dict(P, op="from_csv", s=case["text"])]
        if st == "doc":
            if "unbuildable" in obs or case["doc"].get("surrogate") or case["doc"].get("chain"):
                return []       # (a lone surrogate cannot be put into a Lean String, a chain of 250
                                #  Sections is too deep for the driver's JSON reader: oracle only)
            # (the compiled writer model re-evaluates the Sub-Sections once per format key: its
            # running time grows tenfold per nesting level; from depth 5 on the written tree is
            # judged by the oracle and by the reader model only)
            reqs = [dict(P, op="write", doc=obs["mem"])] if writer_modelled(obs["mem"]) else []
            plain = self.first_tree(obs, styled=False)
            if plain is not None:
                reqs.append(dict(P, op="read", mode="strict", x=plain))
                reqs.append(dict(P, op="read", mode="lenient", x=plain))
            st_tree = self.first_tree(obs, styled=True)
            if st_tree is not None:
                reqs.append(dict(P, op="read", mode="strict", x=st_tree))
                reqs.append(dict(P, op="read", mode="lenient", x=st_tree))
            return reqs
        if st in ("foreign", "surface"):
            if "unbuildable" in obs:
                return []
            return [dict(P, op="read", mode="strict", x=obs["tree"]),
                    dict(P, op="read", mode="lenient", x=obs["tree"])]
        if st == "tokobj":
            d = case["obj"]
            tz = d.get("tz")
            off = None
            if tz is not None and tz.get("sec", 0) is not None:
                sec = 0 if tz["k"] == "utc" else tz["sec"]
                off = [sec < 0, abs(sec)]
            return [dict(P, op="tokobj", obj=d["r"], kind=case["kind"], a=d["a"], off=off,
                         fold=bool(d.get("fold")))]
        return []           # session, proc: oracle only

    @staticmethod
    def first_tree(obs, styled):
        for w in WRITERS:
            if (w in STYLED) == styled and "tree" in obs["writes"].get(w, {}):
                return obs["writes"][w]["tree"]
        return None

    @staticmethod
    def cmp_read(tag, answer, load):
        """model `read` answer vs implementation load result -> disagreement strings"""
        out = []
        if "raised" in answer:
            if answer["raised"] == "unmodelled":
                return out
            if "raised" not in load:
                out.append("%s: model raises %s, implementation loaded a document" % (tag, answer["raised"]))
            else:
                cat = load["raised"].split(":")[0]
                if cat != answer["raised"]:
                    out.append("%s: model raises %s, implementation raises %s" % (tag, answer["raised"], load["raised"]))
            return out
        if "raised" in load:
            out.append("%s: model loads a document, implementation raises %s" % (tag, load["raised"]))
            return out
        md, im = unname(answer["ok"]), load["doc"]
        for path, a, b in diff(md, im):
            leafname = path.rsplit("/", 1)[-1]
            if a is None and leafname == "id":
                continue          # fresh uuid on both sides
            out.append("%s: at %s model has %r, implementation %r" % (tag, path, a, b))
            if len(out) > 4:
                break
        if load["warns"] is not None and load["warns"] != answer["warns"]:
            out.append("%s: model counts %d warnings, implementation %d" % (tag, answer["warns"], load["warns"]))
        return out

    def compare(self, case, obs, answers):
        obs = unsqueeze(obs)
        st = case["stream"]
        out = []
        if st == "csvlib":
            a = answers[0]
            if "row" in case:
                if a != obs["written"]:
                    out.append("csv.writer wrote %r, model %r" % (obs["written"], a))
            else:
                want = {"ok": obs["read"]} if "read" in obs else {"raised": obs["raised"]}
                if a != want:
                    out.append("csv.reader gives %r, model %r" % (want, a))
        elif st == "csv":
            if "vals" in case:
                if answers[0] != obs["text"]:
                    out.append("to_csv gives %r, model %r" % (obs["text"], answers[0]))
                want = {"ok": obs["back"]} if "back" in obs else {"raised": obs["back_raised"]}
                if answers[1] != want:
                    out.append("from_csv(%r) gives %r, model %r" % (obs["text"], want, answers[1]))
            else:
                want = {"ok": obs["read"]} if "read" in obs else {"raised": obs["raised"]}
                if answers[0] != want:
                    out.append("from_csv gives %r, model %r" % (want, answers[0]))
        elif st == "doc" and answers:
            deep = not writer_modelled(obs["mem"])
            w = {} if deep else answers[0]
            voc = set(obs["vocab"])
            for name in WRITERS:
                res = obs["writes"].get(name)
                if res is None or deep:
                    continue
                if "raised" in res:
                    if "raised" not in w:
                        out.append("%s raised %s, model writes a tree" % (name, res["raised"]))
                    continue
                if "tree" not in res:
                    out.append("%s wrote text lxml cannot parse (%s)" % (name, res.get("unparsable")))
                    continue
                if "raised" in w:
                    out.append("%s wrote a file, model raises %s" % (name, w["raised"]))
                    continue
                tree, nforeign = strip_foreign(res["tree"], voc)
                if nforeign != (1 if name in STYLED else 0):
                    out.append("%s: %d foreign elements under the root" % (name, nforeign))
                d = diff(w["ok"], tree)
                if d:
                    out.append("%s: written tree differs from the model at %s: model %r, implementation %r"
                               % (name, d[0][0], d[0][1], d[0][2]))
            idx = 0 if deep else 1
            if self.first_tree(obs, styled=False) is not None:
                strict, lenient = answers[idx], answers[idx + 1]
                idx += 2
                for r, load in sorted(obs["loads"].items()):
                    out += self.cmp_read(r, strict if reader_of(r) in STRICT else lenient, load)
            if self.first_tree(obs, styled=True) is not None:
                strict, lenient = answers[idx], answers[idx + 1]
                for r, load in sorted(obs["styled"].items()):
                    out += self.cmp_read("styled/" + r, strict if reader_of(r) in STRICT else lenient, load)
            # inside the proved hypotheses the model itself must return the trimmed document
            if not deep and w.get("wf") and w.get("repr") and "ok" in w and len(answers) > 1:
                a = answers[1]
                if "ok" not in a or diff(a["ok"], w["trim"]) or a["warns"] != 0:
                    out.append("model: readXml(strict, writeXml d) is not (trimDoc d, 0 warnings) although "
                               "wfDoc and xmlRepr hold (theorem xml_roundtrip would be false)")
        elif st == "foreign" and answers:
            out += self.cmp_read("strict_string", answers[0], obs["loads"]["strict_string"])
            out += self.cmp_read("lenient_string", answers[1], obs["loads"]["lenient_string"])
        elif st == "surface" and answers:
            for r, load in sorted(obs["loads"].items()):
                out += self.cmp_read(r, answers[0] if reader_of(r) in STRICT else answers[1], load)
        elif st == "tokobj" and answers:
            for k, what in (("str", "str(obj)"), ("stored", "the text of the stored value"),
                            ("back", "the stored text read back"), ("own", "the object's own text read back")):
                if answers[0].get(k) != obs.get(k):
                    out.append("tokobj %s: implementation %r, model %r" % (what, obs.get(k), answers[0].get(k)))
        return out[:6]

    # -- oracle (the round-trip law over the public API; independent of the model) ------------
    def oracle(self, case, obs):
        if "harness_exception" in obs or "unbuildable" in obs:
            return []
        obs = unsqueeze(obs)
        st = case["stream"]
        out = []
        if st == "csv" and "vals" in case:
            want = [strip(v) for v in case["vals"]]
            if "back" not in obs:
                out.append("from_csv(to_csv(%r)) raised %s" % (case["vals"], obs["back_raised"]))
            elif obs["back"] != want:
                out.append("from_csv(to_csv(%r)) = %r, expected %r (text %r)"
                           % (case["vals"], obs["back"], want, obs["text"]))
        elif st == "doc":
            out += self.oracle_doc(obs)
        elif st == "session":
            out += self.oracle_session(obs)
        elif st == "proc":
            out += self.oracle_proc(obs)
        elif st == "tokobj":
            # the property over the public API: the Property that was given the object holds typed
            # values; the XML form written for it loads to the same dtype and the same typed values
            if "saved" in obs:
                for tag, load in sorted(obs["loads"].items()):
                    if load != obs["saved"]:
                        out.append("TOKOBJ %s: a %s Property given %s holds %r, loaded %r"
                                   % (tag, case["kind"], obs["str"], obs["saved"], load))
        elif st == "surface" or (st == "foreign" and case["benign"]):
            want = trim_doc(obs["mem"])
            flags = shape_flags(obs["mem"])
            self._sep_props = tuple_sep_props(obs["mem"])
            self._clash = clash_lists(obs["mem"])
            for r, load in sorted(obs["loads"].items()):
                out += self.judge_load(st + "/" + r, load, want, flags, count_warnings=True)
        return out

    def judge_load(self, tag, load, want, flags, count_warnings):
        out = []
        if "raised" in load:
            out.append("LOAD %s raised %s [shapes:%s]" % (tag, load["raised"], ",".join(sorted(flags))))
            return out
        for path, a, b in diff(want, trim_doc(load["doc"])):
            leafname = path.rsplit("/", 1)[-1]
            kind = "field"
            if leafname == "uncertainty" or "/uncertainty/" in path + "/":
                if isinstance(a, dict) and isinstance(b, dict) and a.get("num") and not b.get("num") \
                        and a.get("text") == b.get("text"):
                    kind = "uncertainty_number"
                elif path.endswith("/uncertainty/num") and a is True and b is False:
                    kind = "uncertainty_number"
            elif leafname == "name" and a == u"" and b is None:
                kind = "blank_name"          # trimmed name is empty; the loaded object is named by its id
            elif leafname in ("val_card", "sec_card", "prop_card") and b is None and isinstance(a, list) \
                    and any(isinstance(x, bool) for x in a):
                kind = "bool_cardinality"    # the saved cardinality has a bool bound, the loaded object none
            if any(path == pp or path.startswith(pp + "/") for pp in self._sep_props):
                kind = "tuple_item_separator"
            if path in self._clash and isinstance(a, list) and isinstance(b, list) \
                    and len(a) - len(b) == self._clash[path]:
                kind = "names_clash"
            out.append("DIFF[%s] %s at %s: saved %r, loaded %r" % (kind, tag, path, a, b))
            if len(out) > 6:
                break
        if count_warnings and load.get("warns"):
            allowed = len(self._sep_props) + sum(self._clash.values())
            kind = "warnings"
            if allowed and load["warns"] <= allowed:
                kind = "names_clash" if self._clash else "tuple_item_separator"
            out.append("WARN[%s] %s: %d reader warnings on a written document" % (kind, tag, load["warns"]))
        return out

    def oracle_doc(self, obs):
        out = []
        mem = obs["mem"]
        if obs["mem_after"] != mem:
            out.append("saving changed the in-memory document")
        want = trim_doc(mem)
        flags = shape_flags(mem)
        self._sep_props = tuple_sep_props(mem)
        self._clash = clash_lists(mem)
        voc = set(obs["vocab"])
        trees = []
        raised = [w for w, r in obs["writes"].items() if "raised" in r]
        for w, res in sorted(obs["writes"].items()):
            if "unparsable" in res:
                out.append("%s wrote text that is not well-formed XML (%s)" % (w, res["unparsable"]))
            if "tree" not in res:
                continue
            tree, nforeign = strip_foreign(res["tree"], voc)
            bad = sorted(set(t for t in all_tags(tree) if t not in voc))
            if bad:
                out.append("%s wrote elements outside the odML 1.1 vocabulary: %s" % (w, bad))
            if dict(tree["attrs"]).get("version") != obs["format_version"]:
                out.append("%s: root does not carry version=%s" % (w, obs["format_version"]))
            if nforeign != (1 if w in STYLED else 0):
                out.append("%s: %d foreign elements under the root" % (w, nforeign))
            trees.append((w, tree))
        for w, tree in trees[1:]:
            if tree != trees[0][1]:
                out.append("%s and %s wrote different documents" % (trees[0][0], w))
        if raised and trees:
            out.append("writers disagree: %s raised, %s wrote" % (sorted(raised), [w for w, _ in trees]))
        # round 3: "it is never written in altered form" - a refused save neither creates the file
        # nor touches an older file at that place
        for w in sorted(raised):
            if obs["writes"][w].get("file") == "altered":
                out.append("REFUSED-SAVE %s raised %s and left a new or altered file behind"
                           % (w, obs["writes"][w]["raised"]))
        # round 3: a valid document with none of the shapes XML cannot express has to be written
        if raised and obs.get("valid") and must_write(mem):
            out.append("REFUSED %s raised %s on a valid document that XML can represent"
                       % (sorted(raised), sorted(set(obs["writes"][w]["raised"] for w in raised))))
        for r, load in sorted(obs["loads"].items()):
            out += self.judge_load(r, load, want, flags, count_warnings=True)
        for r, load in sorted(obs["styled"].items()):
            if reader_of(r) in STRICT:
                continue                  # the property promises the styled file to odml.load only
            out += self.judge_load("styled/" + r, load, want, flags, count_warnings=False)
        return out

    def judge(self, tag, load, mem, count_warnings=False):
        self._sep_props = tuple_sep_props(mem)
        self._clash = clash_lists(mem)
        return self.judge_load(tag, load, trim_doc(mem), shape_flags(mem), count_warnings)

    def oracle_session(self, obs):
        out = []
        for ref in obs["refusals"]:
            mem = obs["mems"][ref["mem"]]
            if ref["valid"] and must_write(mem):
                out.append("REFUSED session/%s raised %s on a valid document that XML can represent"
                           % (ref["tag"], ref["raised"]))
        for chk in obs["checks"]:
            mem = obs["mems"][chk["mem"]]
            if not must_write(mem) and "raised" in chk["load"]:
                continue      # nothing was promised for the text of such a document
            out += self.judge("session/" + chk["tag"], chk["load"], mem)
            if len(out) > 8:
                break
        return out

    def oracle_proc(self, obs):
        out = []
        if "child_failed" in obs:
            return ["PROC the round trip could not be run in a fresh interpreter: %s %s"
                    % (obs["child_failed"], obs.get("stderr", "")[-300:])]
        for i, res in enumerate(obs["results"]):
            if "unbuildable" in res:
                continue
            mem = res["mem"]
            for w, r in sorted(res["writes"].items()):
                if "raised" in r and res.get("valid") and must_write(mem):
                    out.append("REFUSED proc[%s]/%s raised %s on a valid document that XML can represent"
                               % (obs.get("encoding"), w, r["raised"]))
            for r, load in sorted(res["loads"].items()):
                if not must_write(mem) and "raised" in load:
                    continue
                out += self.judge("proc[%s]/%d/%s" % (obs.get("encoding"), i, r), load, mem)
            if len(out) > 8:
                break
        return out

    def finding_key(self, case, obs, failure):
        obs = unsqueeze(obs)
        if failure.startswith("DIFF[uncertainty_number]"):
            return "uncertainty_number_loaded_as_str"
        # (round 4's bool_cardinality_bound_lost is fixed by f84846d: a DIFF[bool_cardinality] is a violation)
        # round 3: the readers cannot load what the writer wrote for Sections nested 255 or more
        # levels deep (libxml2's depth limit): only a refused LOAD of a plainly written chain that deep
        if failure.startswith("LOAD ") and " raised parser " in failure and case.get("stream") == "doc" \
                and isinstance(obs.get("mem"), dict) and xml_depth(obs["mem"]) > 256 \
                and not any("raised" in w for w in obs["writes"].values()):
            return "deep_nesting_written_not_loadable"
        return None

    def tag(self, case, obs):
        obs = unsqueeze(obs)
        st = case["stream"]
        if st == "csvlib":
            src = u"".join(case.get("row", [])) + case.get("text", u"")
            return ("csvlib:" + ("write" if "row" in case else "read" if "read" in obs else "error"),
                    any(c in src for c in u',"\r\n'))
        if st == "csv":
            src = u"".join(case.get("vals", [])) + case.get("text", u"")
            return ("csv:" + ("roundtrip" if "vals" in case else "read"), any(c in src for c in u',"\r\n[]'))
        if "unbuildable" in obs or "harness_exception" in obs:
            return (st + ":unbuildable", False)
        if st == "session":
            return ("session:" + case["kind"], len(obs["checks"]) > 0)
        if st == "proc":
            return ("proc", "results" in obs)
        if st == "tokobj":
            return ("tokobj:%s->%s:%s" % (case["obj"]["r"], case["kind"], "refused" if "refused" in obs else "stored"),
                    "saved" in obs)
        if st == "surface":
            enc = ENCODINGS[case["enc"] % len(ENCODINGS)]
            return ("surface:%s" % (enc[0] or "undeclared-" + enc[1]), "raised" not in obs["loads"]["strict_file"])
        if st == "doc":
            if any("raised" in r for r in obs["writes"].values()):
                return ("doc:writer-raises", True)
            if case["doc"].get("chain"):
                return ("doc:chain", True)
            nvals = sum(len(p["values"]) for s in walk_secs(obs["mem"]["secs"]) for p in s["props"])
            return ("doc:" + ("styled" if case.get("styled") or case.get("styled_writers") else "plain")
                    + ":" + case.get("route", "ctor") + (":finalized" if case.get("finalize") else ""), nvals > 0)
        loads = obs["loads"]["lenient_string"]
        return ("foreign:" + ("benign" if case["benign"] else "damaged") + (":raised" if "raised" in loads else ":loaded"),
                "raised" not in loads)


def child_main():
    """runs in a fresh interpreter (stream `proc`): documents on stdin, one JSON line on stdout"""
    import json
    import locale
    spec = json.loads(sys.stdin.buffer.read().decode("utf-8"))
    out = {"results": [], "encoding": locale.getpreferredencoding(False),
           "hashseed": os.environ.get("PYTHONHASHSEED"), "optimize": sys.flags.optimize}
    with fw.quiet():
        from odml.validation import Validation
        for d in spec["docs"]:
            try:
                doc = build_doc(d)
            except Exception as exc:
                out["results"].append({"unbuildable": fw.exc_name(exc)})
                continue
            res = {"mem": snap_doc(doc), "writes": {}, "loads": {}}
            try:
                res["valid"] = not any(e.is_error for e in Validation(doc).errors)
            except Exception:
                res["valid"] = None
            tmp = tempfile.mkdtemp(prefix="c01_")
            try:
                text = None
                for w in ("xmlwriter_str", "odml_save_default", "write_file", "odml_save_local_style",
                          "write_file_custom_template"):
                    r = write_with(w, doc, tmp, u"%s.xml", spec["template"])
                    if "raised" in r:
                        res["writes"][w] = {"raised": r["raised"]}
                        continue
                    res["writes"][w] = {}
                    if "path" not in r:
                        text = r["text"]
                        res["loads"]["strict_string"] = load_with("strict_string", text, None)
                        continue
                    for rd in (("lenient_file", "odml_load") if w in STYLED else
                               ("strict_file", "odml_load_default", "strict_fileobj")):
                        res["loads"][rd + "@" + w] = load_with(rd, r["text"], r["path"])
            finally:
                shutil.rmtree(tmp, ignore_errors=True)
            out["results"].append(res)
    sys.stdout.write(json.dumps(out, ensure_ascii=True, default=repr) + "\n")
    return 0


if __name__ == "__main__":
    if sys.argv[1:2] == ["--child"]:
        sys.exit(child_main())
    sys.exit(fw.main(C01(), sys.argv[1:]))
