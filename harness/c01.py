# -*- coding: utf-8 -*-
"""
C01 - XML save/load is lossless and conforms to odML format 1.1.

Tie between lean/OdmlModel/{Py/Csv, Model/XmlCsv, Model/Xml, Model/XmlRepr}.lean and /repo.

Streams
  csvlib   the Lean model of csv.writer / csv.reader (excel dialect) against the real `csv` module
  csv      to_csv / from_csv against the model; oracle: from_csv(to_csv(vs)) == [v.strip() for v in vs]
  doc      generated documents x every writer entry point x every reader entry point:
           tree written (bare lxml) vs writeXml, loaded snapshot + warning count vs readXml,
           oracle: the round-trip law over the public API, vocabulary, version attribute
  foreign  XML "written by another tool": the written text re-ordered / padded / re-cased
           (benign: must load to the same document) or damaged (correspondence with the
           strict and lenient reader model only)
"""
import csv
import datetime
import io
import os
import shutil
import sys
import tempfile
import uuid
import warnings

import framework as fw

warnings.simplefilter("ignore")

ATOMS = [u"a", u"b", u"x", u"1", u",", u'"', u"[", u"]", u"(", u")", u";", u"\n", u"\r", u" ",
         u"\xa0", u"<", u"&", u"\xe9", u"中", u"\t", u"'", u">", u"-", u"."]
POOL = [u"a", u"b", u"a,b", u'x"', u'"x', u'a"b', u"[a]", u"[]", u"[", u"]", u"", u" ", u" a ",
        u"a\nb", u"a\r\nb", u"a\rb", u"<&>", u"\xe9中", u"None", u"(1;2)", u"a;b", u"\xa0a",
        u"a, b", u'""', u'"', u"[a,b]", u"1", u"True", u"x y", u"\ta\t", u"a]", u"[a",
        # line boundaries of str.splitlines() that are no line ends for csv / XML 1.0
        u"a\u2028b", u"a\x85b", u"a\u2029b,c"]
REPOS = [None, None, None, u"file:///nonexistent/terms.xml"]
TEMPLATE = u'<xsl:template match="odML"><b>custom</b></xsl:template>'


def gen_text(rng, allow_empty=True):
    r = rng.random()
    if r < 0.45:
        t = rng.choice(POOL)
    else:
        t = u"".join(rng.choice(ATOMS) for _ in range(rng.randrange(0, 7)))
    if not allow_empty and not t.strip():
        t = u"w" + t
    return t


def gen_id(rng):
    return str(uuid.UUID(int=rng.getrandbits(128)))


def gen_card(rng):
    r = rng.random()
    if r < 0.5:
        return None
    # bounds of one and of several digits (texts compare differently from numbers: "10" < "2"),
    # an explicit minimum of 0, very large bounds
    nums = [1, 2, 3, 4, 1, 2, 3, 4, 9, 10, 11, 12, 25, 99, 100, 1000, 10 ** 12]
    a, b = rng.choice(nums), rng.choice(nums)
    shape = rng.randrange(5)
    if shape == 0:
        return [None, b]
    if shape == 1:
        return [a, None]
    if shape == 2:
        return [min(a, b), max(a, b) + (1 if a == b else 0)]
    if shape == 3:
        return [0, b]
    return [a, a]


def opt_text(rng, p=0.35):
    return gen_text(rng) if rng.random() < p else None


def gen_values(rng, kind, n):
    out = []
    for _ in range(n):
        if kind in ("string", "text", "url", "person"):
            out.append({"s": gen_text(rng)})
        elif kind == "int":
            out.append({"i": rng.choice([0, 1, -1, 7, -12, rng.randrange(-10 ** 6, 10 ** 6),
                                         rng.randrange(-10 ** 25, 10 ** 25)])})
        elif kind == "boolean":
            out.append({"b": rng.random() < 0.5})
        elif kind == "float":
            f = rng.choice([0.5, -1.25, 1e22, 0.1 + 0.2, 3.0, 1e-7, float("inf"),
                            rng.uniform(-1000, 1000), rng.random()])
            out.append({"k": str(f), "py": "float"})
        elif kind == "date":
            d = datetime.date(rng.choice([5, 999, 1000, 1999, 2024, 9999]), rng.randrange(1, 13),
                              rng.randrange(1, 29))
            out.append({"k": str(d), "py": "date"})
        elif kind == "time":
            out.append({"k": str(datetime.time(rng.randrange(24), rng.randrange(60), rng.randrange(60))),
                        "py": "time"})
        elif kind == "datetime":
            d = datetime.datetime(rng.choice([1000, 1999, 2024, 9999]), rng.randrange(1, 13),
                                  rng.randrange(1, 29), rng.randrange(24), rng.randrange(60),
                                  rng.randrange(60))
            out.append({"k": str(d), "py": "datetime"})
    return out


def gen_item(rng):
    if rng.random() < 0.06:
        return rng.choice([u"a,b", u"a\nb", u",", u"a\rb"])
    t = u"".join(rng.choice([u"a", u"1", u"(", u")", u'"', u"[", u"]", u" ", u"\xe9", u"<", u"x"])
                 for _ in range(rng.randrange(0, 4)))
    return t.strip()


def gen_prop(rng, name):
    kind = rng.choice(["string", "string", "text", "url", "person", "int", "float", "boolean",
                       "date", "time", "datetime", "tuple", "tuple", "none"])
    n = rng.choice([0, 1, 1, 1, 2, 2, 3, 4])
    p = {"id": gen_id(rng), "name": name, "unit": opt_text(rng), "definition": opt_text(rng),
         "dependency": None, "dependency_value": opt_text(rng),
         "reference": opt_text(rng), "value_origin": opt_text(rng), "val_card": gen_card(rng)}
    if rng.random() < 0.35:
        # never the name of a sibling (validation's dependency rule is C08's business)
        p["dependency"] = u"dep:" + gen_text(rng)
    r = rng.random()
    if r < 0.6:
        p["uncertainty"] = None
    elif r < 0.75:
        p["uncertainty"] = {"num": True, "py": rng.choice([0.5, 0, 3, 12.25])}
    else:
        p["uncertainty"] = {"num": False, "py": rng.choice([u"+-12", u"0.5", u" 3 ", u"a,b", gen_text(rng)])}
    if kind == "none":
        p["dtype"] = None
        p["values"] = []
    elif kind == "tuple":
        k = rng.randrange(1, 4)
        p["dtype"] = "%d-tuple" % k
        p["values"] = [{"t": [gen_item(rng) for _ in range(k)]} for _ in range(n)]
    else:
        p["dtype"] = kind
        p["values"] = gen_values(rng, kind, n)
    return p


def gen_names(rng, n):
    base = [u"a", u"b", u"ab", u"c", u"\xe9", u"a,b", u"a b", u"<n>", u"N", u"x\ny"]
    rng.shuffle(base)
    names = base[:n]
    r = rng.random()
    if n and r < 0.04:
        names[0] = u" " + names[0] + u"\t"        # trimmed on load
    if n >= 2 and r > 0.975:
        names[1] = names[0] + u" "                # clash after trimming (known finding)
    if n and 0.04 <= r < 0.05:
        names[0] = u" "                           # blank name (known finding)
    return names


def gen_sec(rng, name, depth):
    s = {"id": gen_id(rng), "name": name, "type": gen_text(rng, allow_empty=False),
         "definition": opt_text(rng), "reference": opt_text(rng), "link": opt_text(rng, 0.1),
         "repository": rng.choice(REPOS), "include": None,
         "sec_card": gen_card(rng), "prop_card": gen_card(rng)}
    if s["link"] is None and rng.random() < 0.1:
        s["include"] = gen_text(rng)
    np_ = rng.choice([0, 1, 1, 2, 3])
    s["props"] = [gen_prop(rng, nm) for nm in gen_names(rng, np_)]
    ns = 0 if depth >= 3 else rng.choice([0, 0, 1, 1, 2])
    s["secs"] = [gen_sec(rng, nm, depth + 1) for nm in gen_names(rng, ns)]
    return s


def gen_doc(rng):
    d = {"id": gen_id(rng), "author": opt_text(rng), "version": opt_text(rng),
         "repository": rng.choice(REPOS),
         "date": str(datetime.date(rng.choice([5, 1999, 2024]), rng.randrange(1, 13), rng.randrange(1, 29)))
         if rng.random() < 0.4 else None}
    d["secs"] = [gen_sec(rng, nm, 1) for nm in gen_names(rng, rng.choice([0, 1, 1, 2, 3]))]
    return d


# ----------------------------------------------------------------------------- building / snapshot
def py_value(v):
    if "s" in v:
        return v["s"]
    if "i" in v:
        return v["i"]
    if "b" in v:
        return v["b"]
    if "t" in v:
        return u"(" + u";".join(v["t"]) + u")"
    kind = v["py"]
    if kind == "float":
        return float(v["k"])
    if kind == "date":
        return datetime.datetime.strptime(v["k"], "%Y-%m-%d").date()
    if kind == "time":
        return datetime.datetime.strptime(v["k"], "%H:%M:%S").time()
    return datetime.datetime.strptime(v["k"], "%Y-%m-%d %H:%M:%S")


def tup(c):
    return None if c is None else tuple(c)


def build_doc(spec):
    import odml
    doc = odml.Document(author=spec.get("author"), date=spec.get("date"), version=spec.get("version"),
                        repository=spec.get("repository"), oid=spec["id"])

    def add_sec(s, parent):
        sec = odml.Section(name=s["name"], type=s["type"], parent=parent, definition=s.get("definition"),
                           reference=s.get("reference"), repository=s.get("repository"),
                           link=s.get("link"), include=s.get("include"), oid=s["id"],
                           sec_cardinality=tup(s.get("sec_card")), prop_cardinality=tup(s.get("prop_card")))
        for p in s["props"]:
            unc = p.get("uncertainty")
            odml.Property(name=p["name"], values=[py_value(v) for v in p["values"]] or None,
                          parent=sec, unit=p.get("unit"), uncertainty=None if unc is None else unc["py"],
                          reference=p.get("reference"), definition=p.get("definition"),
                          dependency=p.get("dependency"), dependency_value=p.get("dependency_value"),
                          dtype=p.get("dtype"), value_origin=p.get("value_origin"), oid=p["id"],
                          val_cardinality=tup(p.get("val_card")))
        for c in s["secs"]:
            add_sec(c, sec)

    for s in spec["secs"]:
        add_sec(s, doc)
    return doc


def text_out(x):
    return None if x is None else (x if isinstance(x, str) else str(x))


def card_out(c):
    if c is None:
        return None
    if isinstance(c, tuple) and len(c) == 2:
        return [None if x is None else int(x) for x in c]
    return {"weird": repr(c)}


def val_out(v):
    if v is None:
        return None
    if isinstance(v, bool):
        return {"b": v}
    if isinstance(v, int):
        return {"i": v}
    if isinstance(v, str):
        return {"s": v}
    if isinstance(v, (list, tuple)):
        return {"t": [text_out(x) for x in v]}
    return {"k": str(v)}


def snap_prop(p):
    unc = p.uncertainty
    if unc is None:
        u = None
    elif isinstance(unc, (int, float)) and not isinstance(unc, bool):
        u = {"num": True, "text": str(unc)}
    else:
        u = {"num": False, "text": str(unc)}
    return {"id": p.id, "name": None if p.name == p.id else p.name,
            "values": [val_out(v) for v in p.values], "dtype": text_out(p.dtype),
            "unit": text_out(p.unit), "definition": text_out(p.definition),
            "dependency": text_out(p.dependency), "dependency_value": text_out(p.dependency_value),
            "uncertainty": u, "reference": text_out(p.reference),
            "value_origin": text_out(p.value_origin), "val_card": card_out(p.val_cardinality)}


def snap_sec(s):
    return {"id": s.id, "name": None if s.name == s.id else s.name, "type": text_out(s.type),
            "definition": text_out(s.definition), "reference": text_out(s.reference),
            "link": text_out(s.link), "repository": text_out(s.repository),
            "include": text_out(s.include),
            "secs": [snap_sec(c) for c in s.sections], "props": [snap_prop(p) for p in s.properties],
            "sec_card": card_out(s.sec_cardinality), "prop_card": card_out(s.prop_cardinality)}


def snap_doc(d):
    return {"id": d.id, "version": text_out(d.version), "author": text_out(d.author),
            "date": text_out(d.date), "repository": text_out(d.repository),
            "secs": [snap_sec(s) for s in d.sections]}


# ----------------------------------------------------------------------------- python-side trim (oracle)
def strip(s):
    return s.strip()          # Python's own str.strip: the reference for "trimming"


def norm_text(t):
    """after a save/load cycle an absent and an empty text are the same thing"""
    if t is None:
        return None
    t = strip(t)
    return t if t != u"" else None


def trim_val(v):
    if isinstance(v, dict) and "s" in v:
        return {"s": strip(v["s"])}
    return v


def trim_prop(p):
    q = dict(p)
    for k in ("dtype", "unit", "definition", "dependency", "dependency_value", "reference",
              "value_origin"):
        q[k] = norm_text(p[k])
    q["name"] = None if p["name"] is None else strip(p["name"])   # None: the name is the id
    q["values"] = [trim_val(v) for v in p["values"]]
    u = p["uncertainty"]
    q["uncertainty"] = None if u is None or norm_text(u["text"]) is None else \
        {"num": u["num"], "text": strip(u["text"])}
    return q


def trim_sec(s):
    q = dict(s)
    for k in ("type", "definition", "reference", "link", "repository", "include"):
        q[k] = norm_text(s[k])
    q["name"] = None if s["name"] is None else strip(s["name"])   # None: the name is the id
    q["secs"] = [trim_sec(c) for c in s["secs"]]
    q["props"] = [trim_prop(p) for p in s["props"]]
    return q


def trim_doc(d):
    q = dict(d)
    for k in ("version", "author", "repository"):
        q[k] = norm_text(d[k])
    q["secs"] = [trim_sec(s) for s in d["secs"]]
    return q


def diff(a, b, path=""):
    """paths at which two snapshots differ"""
    if isinstance(a, dict) and isinstance(b, dict) and set(a) == set(b):
        out = []
        for k in sorted(a):
            out += diff(a[k], b[k], path + "/" + k)
        return out
    if isinstance(a, list) and isinstance(b, list) and len(a) == len(b):
        out = []
        for i, (x, y) in enumerate(zip(a, b)):
            out += diff(x, y, path + "/%d" % i)
        return out
    if a == b and type(a) == type(b):
        return []
    return [(path, a, b)]


# ----------------------------------------------------------------------------- abstract trees
def tree_of(el, prune_foreign=False, vocab=None, root=True):
    """abstract tree of an lxml element; the inside of elements outside the vocabulary (the
    embedded stylesheet) is dropped, no reader looks at it"""
    kids = [c for c in el if isinstance(c.tag, str)]
    out = {"tag": el.tag, "attrs": [[k, v] for k, v in el.attrib.items()],
           "text": el.text if el.tag.lower() not in ("odml", "section", "property") else None,
           "kids": []}
    if prune_foreign and not root and vocab is not None and \
            el.tag.lower() not in set(v.lower() for v in vocab):
        out["text"] = None
        return out
    out["kids"] = [tree_of(c, prune_foreign, vocab, False) for c in kids]
    return out


def parse_text(text):
    from lxml import etree
    data = text.encode("utf-8") if isinstance(text, str) else text
    return etree.fromstring(data, etree.XMLParser(remove_comments=True))


def vocabulary():
    import odml.format as ofmt
    voc = set()
    for f in (ofmt.Document, ofmt.Section, ofmt.Property):
        voc.add(f.name)
        voc.update(f.arguments_keys)
    return voc


def all_tags(tree):
    out = [tree["tag"]]
    for k in tree["kids"]:
        out += all_tags(k)
    return out


def exc_cat(exc):
    from odml.tools.parser_utils import ParserException, InvalidVersionException
    if isinstance(exc, InvalidVersionException):
        return "invalidVersion"
    if isinstance(exc, ParserException):
        return "parser"
    return "leak:" + fw.exc_name(exc)


def load_with(reader, text, path):
    """reader entry points; -> {"doc","warns"} or {"raised"}"""
    import odml
    from odml.tools.xmlparser import XMLReader
    from odml.tools.odmlparser import ODMLReader
    try:
        if reader in ("strict_string", "lenient_string"):
            r = XMLReader(ignore_errors=reader.startswith("lenient"), show_warnings=False)
            d = r.from_string(text)
            return {"doc": snap_doc(d), "warns": len(r.warnings)}
        if reader in ("strict_file", "lenient_file"):
            r = XMLReader(ignore_errors=reader.startswith("lenient"), show_warnings=False)
            d = r.from_file(path)
            return {"doc": snap_doc(d), "warns": len(r.warnings)}
        if reader == "odmlreader_string":
            d = ODMLReader("XML", show_warnings=False).from_string(text)
            return {"doc": snap_doc(d), "warns": None}
        if reader == "odmlreader_file":
            r = ODMLReader("XML", show_warnings=False)
            d = r.from_file(path)
            return {"doc": snap_doc(d), "warns": len(r.warnings)}
        if reader == "odml_load":
            d = odml.load(path, "xml", show_warnings=False)
            return {"doc": snap_doc(d), "warns": None}
    except Exception as exc:
        return {"raised": exc_cat(exc)}
    raise ValueError(reader)


READERS = ["strict_string", "lenient_string", "strict_file", "lenient_file", "odmlreader_string",
           "odmlreader_file", "odml_load"]
STRICT = {"strict_string", "strict_file", "odmlreader_string"}
WRITERS = ["xmlwriter_str", "odmlwriter_to_string", "write_file", "write_file_local_style",
           "write_file_custom_template", "odml_save"]
STYLED = {"write_file_local_style", "write_file_custom_template"}


def write_with(writer, doc, tmp):
    import odml
    from odml.tools.xmlparser import XMLWriter
    from odml.tools.odmlparser import ODMLWriter
    path = os.path.join(tmp, writer + ".xml")
    try:
        if writer == "xmlwriter_str":
            return {"text": str(XMLWriter(doc))}
        if writer == "odmlwriter_to_string":
            return {"text": ODMLWriter("XML").to_string(doc)}
        if writer == "write_file":
            XMLWriter(doc).write_file(path)
        elif writer == "write_file_local_style":
            ODMLWriter("XML").write_file(doc, path, local_style=True)
        elif writer == "write_file_custom_template":
            XMLWriter(doc).write_file(path, custom_template=TEMPLATE)
        elif writer == "odml_save":
            odml.save(doc, path, "xml")
        with io.open(path, "rb") as fh:
            return {"text": fh.read().decode("utf-8"), "path": path}
    except Exception as exc:
        return {"raised": fw.exc_name(exc)}


def strip_foreign(tree, vocab):
    """-> (tree without the first-level children outside the vocabulary, their number)"""
    keep = [k for k in tree["kids"] if k["tag"] in vocab]
    return dict(tree, kids=keep), len(tree["kids"]) - len(keep)


# ----------------------------------------------------------------------------- known-finding shapes
def walk_secs(secs):
    for s in secs:
        yield s
        for c in walk_secs(s["secs"]):
            yield c


def tuple_sep_props(mem):
    """diff-paths of the Properties holding an n-tuple item with `,` CR or LF"""
    out = []

    def rec(secs, prefix):
        for i, s in enumerate(secs):
            here = "%s/secs/%d" % (prefix, i)
            for j, p in enumerate(s["props"]):
                for v in p["values"]:
                    if isinstance(v, dict) and "t" in v and any(c in x for x in v["t"] for c in u",\n\r"):
                        out.append("%s/props/%d" % (here, j))
                        break
            rec(s["secs"], here)
    rec(mem["secs"], "")
    return out


def clash_lists(mem):
    """diff-paths of the child lists in which names collide after trimming -> number of
    children the lenient reader leaves out there"""
    out = {}

    def dropped(objs):
        seen, n = set(), 0
        for o in objs:
            if o["name"] is None:
                continue
            t = strip(o["name"])
            if t in seen:
                n += 1
            seen.add(t)
        return n

    def rec(secs, prefix):
        n = dropped(secs)
        if n:
            out[prefix + "/secs"] = n
        for i, s in enumerate(secs):
            here = "%s/secs/%d" % (prefix, i)
            n = dropped(s["props"])
            if n:
                out[here + "/props"] = n
            rec(s["secs"], here)
    rec(mem["secs"], "")
    return out


def shape_flags(mem):
    """which known-defect trigger shapes occur in the in-memory document"""
    flags = set()

    def names_clash(objs):
        names = [strip(o["name"]) for o in objs if o["name"] is not None]
        return len(set(names)) != len(names)

    groups = [mem["secs"]]
    for s in walk_secs(mem["secs"]):
        groups.append(s["secs"])
        groups.append(s["props"])
        if s["name"] is not None and strip(s["name"]) == u"":
            flags.add("blank_name")
        for p in s["props"]:
            if p["name"] is not None and strip(p["name"]) == u"":
                flags.add("blank_name")
            if p["uncertainty"] is not None and p["uncertainty"]["num"]:
                flags.add("uncertainty_number")
            for v in p["values"]:
                if isinstance(v, dict) and "t" in v and any(c in x for x in v["t"] for c in u",\n\r"):
                    flags.add("tuple_item_separator")
    if any(names_clash(g) for g in groups):
        flags.add("names_clash_after_trim")
    return flags


# ----------------------------------------------------------------------------- foreign mutations
BENIGN = ["shuffle_leaves", "pad_text", "upper_tags", "comment"]
DAMAGE = ["unknown_tag", "drop_element", "dup_leaf", "attribute", "version", "bad_id", "root_tag",
          "no_version", "bad_dtype", "bool_text", "bad_card", "empty_leaf", "nested_in_leaf"]


def mutate(root, ops, rng):
    from lxml import etree
    elems = [e for e in root.iter() if isinstance(e.tag, str)]
    cont = ("odml", "section", "property")
    containers = [e for e in elems if e.tag.lower() in cont]
    leaves = [e for e in elems if e.tag.lower() not in cont]
    for op in ops:
        leaves = [e for e in leaves if e.getparent() is not None]
        if op == "shuffle_leaves":
            for c in containers:
                kids = list(c)
                kids = [k for k in kids if isinstance(k.tag, str)]
                lv = [k for k in kids if k.tag.lower() not in cont]
                ch = [k for k in kids if k.tag.lower() in cont]
                rng.shuffle(lv)
                cut = rng.randrange(len(lv) + 1)
                for k in kids:
                    c.remove(k)
                for k in lv[:cut] + ch + lv[cut:]:
                    k.tail = None
                    c.append(k)
        elif op == "pad_text":
            for e in leaves:
                # (the text of <value> is handed to from_csv unstripped: padding is not benign there)
                if e.text and e.tag.lower() != "value" and rng.random() < 0.5:
                    e.text = rng.choice([u" ", u"\n  ", u"\t"]) + e.text + rng.choice([u" ", u"\n", u""])
        elif op == "upper_tags":
            for e in elems:
                if e is not root and rng.random() < 0.4:
                    e.tag = rng.choice([e.tag.upper(), e.tag.capitalize()])
        elif op == "comment":
            rng.choice(containers).append(etree.Comment("written by another tool"))
        elif op == "unknown_tag":
            rng.choice(containers).append(etree.Element(rng.choice(["foo", "values", "odML", "Value2"])))
        elif op == "drop_element" and leaves:
            e = rng.choice(leaves)
            e.getparent().remove(e)
        elif op == "dup_leaf" and leaves:
            e = rng.choice(leaves)
            d = etree.SubElement(e.getparent(), e.tag)
            # (date / value texts stay canonical: float and date tokens are opaque to the model)
            d.text = rng.choice([e.text, None] + ([] if e.tag.lower() in ("date", "value") else [u"other"]))
        elif op == "attribute":
            rng.choice(elems).set(rng.choice(["version", "Version", "foo"]), "1.1")
        elif op == "version":
            root.set("version", rng.choice(["1.0", "1", "1.1 ", "2"]))
        elif op == "no_version":
            root.attrib.pop("version", None)
        elif op == "root_tag":
            root.tag = rng.choice(["odml", "section", "ODML"])
        elif op == "bad_id":
            ids = [e for e in leaves if e.tag == "id"]
            if ids:
                rng.choice(ids).text = rng.choice([u"xyz", u"", u"1234"])
        elif op == "bad_dtype":
            ts = [e for e in leaves if e.tag == "type" and e.getparent().tag == "property"]
            if ts:
                rng.choice(ts).text = rng.choice([u"bogus", u"Int", u"int", u"boolean", u"string", u"2-tuple"])
        elif op == "bool_text":
            def modelled(e):
                t = [k.text for k in e.getparent() if isinstance(k.tag, str) and k.tag.lower() == "type"]
                return not t or t[0] in ("string", "text", "url", "person", "boolean", "int") \
                    or (t[0] or "").endswith("-tuple")
            vs = [e for e in leaves if e.tag.lower() == "value" and modelled(e)]
            if vs:
                rng.choice(vs).text = rng.choice([u"T", u"[true,0]", u"maybe", u"[1,2", u"[]", u"[a\rb]",
                                                  u"[(1;2),(3)]", u"(1;2)", u"5", u"[-3,4]"])
        elif op == "bad_card":
            cs = [e for e in leaves if e.tag.endswith("_cardinality")]
            if cs:
                rng.choice(cs).text = rng.choice([u"(2, 1)", u"(a, 3)", u"(0, 0)", u" (1, 5) ", u"x", u"(3, None)"])
        elif op == "empty_leaf" and leaves:
            rng.choice(leaves).text = rng.choice([None, u" ", u""])
        elif op == "nested_in_leaf" and leaves:
            etree.SubElement(rng.choice(leaves), "b").text = u"x"


# ----------------------------------------------------------------------------- the check
class C01(fw.Check):
    prop = "C01"
    lean_targets = ["OdmlModel.Props.C01"]
    obligations = ["C01." + t for t in ['csv_lib_roundtrip', 'csv_roundtrip', 'csv_empty_iff', 'csv_legacy_counterexample_comma', 'csv_legacy_counterexample_quote', 'csv_legacy_counterexample_newline', 'csv_legacy_counterexample_single_quote', 'csv_legacy_counterexample_single_bracket', 'csv_legacy_counterexample_empty', 'int_text_roundtrip', 'tuple_text_roundtrip', 'value_retyped', 'value_text_roundtrip', 'card_text_roundtrip', 'leaf_text_roundtrip', 'xml_vocab', 'xml_version', 'writer_keys_readable', 'xml_unrepresentable_chars', 'uncertainty_counterexample', 'blank_name_refused', 'tuple_item_refused', 'tuple_item_refused_raises', 'name_clash_refused', 'prop_xml_roundtrip', 'sec_xml_roundtrip', 'xml_roundtrip', 'xml_roundtrip_lenient', 'xml_save_load', 'dtype_case_counterexample', 'xml_denote', 'xml_strict_lenient_agree', 'xml_denote_sec', 'xml_denote_prop', 'xml_write_denotes', 'xml_roundtrip_or_refused', 'xml_refused_iff_not_repr']]
    trusted_base = [
        "Lean 4.33.0 kernel; axioms propext, Classical.choice, Quot.sound only (audited per theorem)",
        "hand-written models lean/OdmlModel/Py/Csv.lean, Model/XmlCsv.lean, Model/Xml.lean, "
        "Model/XmlRepr.lean, tied to /repo by this correspondence run",
        "harness/extract_tables.py (format tables regenerated into Lean on every run)",
        "Driver/*.lean JSON glue; harness/framework.py, harness/c01.py",
        "lxml text<->tree (contract: parse(serialise(t)) = t on XML-compatible trees; ValueError on "
        "control characters), exercised end to end",
    ]
    assumptions = [
        "float / date / time / datetime values are opaque tokens: str(dtypes.get(text)) == text for "
        "the canonical text of a stored value (contract TokLib, exercised end to end)",
        "uuid.UUID is modelled on canonical lower-case ids only; int() on plain decimal literals only; "
        "str.lower on ASCII only; csv field size limit not modelled",
        "odml_tuple_import's one repair (a single value that is itself a bracketed tuple list) is not "
        "modelled: such inputs are reported `unmodelled` by the driver and skipped",
    ]
    _sep_props = []
    _clash = {}
    rule = ("csvlib/csv: random field lists and texts over the alphabet {a b x 1 , \" [ ] ( ) ; LF CR "
            "space NBSP < & e-acute CJK TAB ' > - .} plus a pool of known troublemakers; doc: random "
            "documents (depth <= 3, every dtype incl. 1..3-tuples, 0..4 values, every optional "
            "attribute, four cardinality shapes) x 6 writer entry points x 7 reader entry points; "
            "foreign: the written text re-ordered/padded/re-cased (benign) or damaged by 1-2 of 13 "
            "edits. Non-trivial: a csv case with a special character, a doc case with at least one "
            "Property with values, a foreign case that loads; distinct = distinct canonical JSON.")

    # -- generation ----------------------------------------------------------
    def generate(self, tier, rng):
        big = tier == "thorough"
        cases = []
        n_lib = 40000 if big else 5000
        for i in range(n_lib):
            row = [u"".join(rng.choice(ATOMS) for _ in range(rng.randrange(0, 6)))
                   for _ in range(rng.choice([0, 1, 1, 2, 2, 3, 5]))]
            cases.append({"stream": "csvlib", "row": row})
            text = u"".join(rng.choice(ATOMS[:14]) for _ in range(rng.randrange(0, 9)))
            cases.append({"stream": "csvlib", "text": text})
        n_csv = 40000 if big else 5000
        for i in range(n_csv):
            vals = [gen_text(rng) for _ in range(rng.choice([0, 1, 1, 1, 2, 2, 3, 4]))]
            cases.append({"stream": "csv", "vals": vals})
            cases.append({"stream": "csv", "text": gen_text(rng) if rng.random() < 0.5 else
                          u"[" + u"".join(rng.choice(ATOMS[:14]) for _ in range(rng.randrange(0, 8))) + u"]"})
        n_doc = 12000 if big else 900
        for i in range(n_doc):
            cases.append({"stream": "doc", "doc": gen_doc(rng), "styled": rng.random() < 0.3})
        n_for = 15000 if big else 1100
        for i in range(n_for):
            benign = rng.random() < 0.4
            ops = rng.sample(BENIGN, rng.randrange(1, 4)) if benign else \
                rng.sample(BENIGN, rng.randrange(0, 2)) + rng.sample(DAMAGE, rng.randrange(1, 3))
            cases.append({"stream": "foreign", "doc": gen_doc(rng), "ops": ops, "benign": benign,
                          "mseed": rng.randrange(1 << 30)})
        return cases

    # -- implementation ------------------------------------------------------
    def impl(self, case):
        st = case["stream"]
        if st == "csvlib":
            if "row" in case:
                s = io.StringIO()
                csv.writer(s, dialect="excel").writerow(case["row"])
                return {"written": s.getvalue()}
            try:
                return {"read": list(csv.reader(io.StringIO(case["text"]), dialect="excel"))[0]}
            except csv.Error:
                return {"raised": "csv"}
            except IndexError:
                return {"raised": "index"}
        if st == "csv":
            from odml.tools.xmlparser import to_csv, from_csv
            if "vals" in case:
                out = {"text": to_csv(case["vals"])}
                try:
                    out["back"] = from_csv(out["text"])
                except csv.Error:
                    out["back_raised"] = "csv"
                except IndexError:
                    out["back_raised"] = "index"
                return out
            try:
                return {"read": from_csv(case["text"])}
            except csv.Error:
                return {"raised": "csv"}
            except IndexError:
                return {"raised": "index"}
        if st == "doc":
            return self.impl_doc(case)
        if st == "foreign":
            return self.impl_foreign(case)
        raise ValueError(st)

    def impl_doc(self, case):
        import odml.info
        try:
            doc = build_doc(case["doc"])
        except Exception as exc:
            return {"unbuildable": fw.exc_name(exc)}
        mem = snap_doc(doc)
        voc = vocabulary()
        tmp = tempfile.mkdtemp(prefix="c01_")
        try:
            writes = {}
            plain_text = None
            plain_path = None
            styled_path = None
            writers = [w for w in WRITERS if case.get("styled") or w not in STYLED]
            for w in writers:
                res = write_with(w, doc, tmp)
                if "raised" in res:
                    writes[w] = {"raised": res["raised"]}
                    continue
                try:
                    tree = tree_of(parse_text(res["text"]), True, voc)
                except Exception as exc:
                    writes[w] = {"unparsable": fw.exc_name(exc)}
                    continue
                writes[w] = {"tree": tree}
                if w in STYLED:
                    styled_path = styled_path or res.get("path")
                else:
                    plain_text = plain_text or res["text"]
                    plain_path = plain_path or res.get("path")
            loads = {}
            if plain_text is not None and plain_path is not None:
                for r in READERS:
                    loads[r] = load_with(r, plain_text, plain_path)
            styled = {}
            if styled_path is not None:
                with io.open(styled_path, encoding="utf-8") as fh:
                    stext = fh.read()
                for r in ("strict_file", "lenient_file", "odml_load"):
                    styled[r] = load_with(r, stext, styled_path)
            return {"mem": mem, "writes": writes, "loads": loads, "styled": styled,
                    "mem_after": snap_doc(doc), "format_version": odml.info.FORMAT_VERSION,
                    "vocab": sorted(voc)}
        finally:
            shutil.rmtree(tmp, ignore_errors=True)

    def impl_foreign(self, case):
        import random
        from lxml import etree
        from odml.tools.xmlparser import XMLWriter
        try:
            doc = build_doc(case["doc"])
            text = str(XMLWriter(doc))
        except Exception as exc:
            return {"unbuildable": fw.exc_name(exc)}
        mem = snap_doc(doc)
        root = etree.fromstring(text.encode("utf-8"))
        mutate(root, case["ops"], random.Random(case["mseed"]))
        mtext = etree.tostring(root, encoding="unicode")
        tree = tree_of(parse_text(mtext), True, vocabulary())
        out = {"mem": mem, "tree": tree, "loads": {}}
        for r in ("strict_string", "lenient_string"):
            out["loads"][r] = load_with(r, mtext, None)
        return out

    # -- model ---------------------------------------------------------------
    def model_requests(self, case, obs):
        st = case["stream"]
        P = {"p": "C01"}
        if st == "csvlib":
            if "row" in case:
                return [dict(P, op="csv_write", row=case["row"])]
            return [dict(P, op="csv_read", s=case["text"])]
        if st == "csv":
            if "vals" in case:
                return [dict(P, op="to_csv", vals=case["vals"]), dict(P, op="from_csv", s=obs["text"])]
            return [dict(P, op="from_csv", s=case["text"])]
        if st == "doc":
            if "unbuildable" in obs:
                return []
            reqs = [dict(P, op="write", doc=obs["mem"])]
            plain = self.first_tree(obs, styled=False)
            if plain is not None:
                reqs.append(dict(P, op="read", mode="strict", x=plain))
                reqs.append(dict(P, op="read", mode="lenient", x=plain))
            st_tree = self.first_tree(obs, styled=True)
            if st_tree is not None:
                reqs.append(dict(P, op="read", mode="strict", x=st_tree))
                reqs.append(dict(P, op="read", mode="lenient", x=st_tree))
            return reqs
        if st == "foreign":
            if "unbuildable" in obs:
                return []
            return [dict(P, op="read", mode="strict", x=obs["tree"]),
                    dict(P, op="read", mode="lenient", x=obs["tree"])]
        return []

    @staticmethod
    def first_tree(obs, styled):
        for w in WRITERS:
            if (w in STYLED) == styled and "tree" in obs["writes"].get(w, {}):
                return obs["writes"][w]["tree"]
        return None

    @staticmethod
    def cmp_read(tag, answer, load):
        """model `read` answer vs implementation load result -> disagreement strings"""
        out = []
        if "raised" in answer:
            if answer["raised"] == "unmodelled":
                return out
            if "raised" not in load:
                out.append("%s: model raises %s, implementation loaded a document" % (tag, answer["raised"]))
            else:
                cat = load["raised"].split(":")[0]
                if cat != answer["raised"]:
                    out.append("%s: model raises %s, implementation raises %s" % (tag, answer["raised"], load["raised"]))
            return out
        if "raised" in load:
            out.append("%s: model loads a document, implementation raises %s" % (tag, load["raised"]))
            return out
        md, im = answer["ok"], load["doc"]
        for path, a, b in diff(md, im):
            leafname = path.rsplit("/", 1)[-1]
            if a is None and leafname == "id":
                continue          # fresh uuid on both sides
            out.append("%s: at %s model has %r, implementation %r" % (tag, path, a, b))
            if len(out) > 4:
                break
        if load["warns"] is not None and load["warns"] != answer["warns"]:
            out.append("%s: model counts %d warnings, implementation %d" % (tag, answer["warns"], load["warns"]))
        return out

    def compare(self, case, obs, answers):
        st = case["stream"]
        out = []
        if st == "csvlib":
            a = answers[0]
            if "row" in case:
                if a != obs["written"]:
                    out.append("csv.writer wrote %r, model %r" % (obs["written"], a))
            else:
                want = {"ok": obs["read"]} if "read" in obs else {"raised": obs["raised"]}
                if a != want:
                    out.append("csv.reader gives %r, model %r" % (want, a))
        elif st == "csv":
            if "vals" in case:
                if answers[0] != obs["text"]:
                    out.append("to_csv gives %r, model %r" % (obs["text"], answers[0]))
                want = {"ok": obs["back"]} if "back" in obs else {"raised": obs["back_raised"]}
                if answers[1] != want:
                    out.append("from_csv(%r) gives %r, model %r" % (obs["text"], want, answers[1]))
            else:
                want = {"ok": obs["read"]} if "read" in obs else {"raised": obs["raised"]}
                if answers[0] != want:
                    out.append("from_csv gives %r, model %r" % (want, answers[0]))
        elif st == "doc" and answers:
            w = answers[0]
            voc = set(obs["vocab"])
            for name in WRITERS:
                res = obs["writes"].get(name)
                if res is None:
                    continue
                if "raised" in res:
                    if "raised" not in w:
                        out.append("%s raised %s, model writes a tree" % (name, res["raised"]))
                    continue
                if "tree" not in res:
                    out.append("%s wrote text lxml cannot parse (%s)" % (name, res.get("unparsable")))
                    continue
                if "raised" in w:
                    out.append("%s wrote a file, model raises %s" % (name, w["raised"]))
                    continue
                tree, nforeign = strip_foreign(res["tree"], voc)
                if nforeign != (1 if name in STYLED else 0):
                    out.append("%s: %d foreign elements under the root" % (name, nforeign))
                d = diff(w["ok"], tree)
                if d:
                    out.append("%s: written tree differs from the model at %s: model %r, implementation %r"
                               % (name, d[0][0], d[0][1], d[0][2]))
            idx = 1
            if self.first_tree(obs, styled=False) is not None:
                strict, lenient = answers[idx], answers[idx + 1]
                idx += 2
                for r, load in sorted(obs["loads"].items()):
                    out += self.cmp_read(r, strict if r in STRICT else lenient, load)
            if self.first_tree(obs, styled=True) is not None:
                strict, lenient = answers[idx], answers[idx + 1]
                for r, load in sorted(obs["styled"].items()):
                    out += self.cmp_read("styled/" + r, strict if r in STRICT else lenient, load)
            # inside the proved hypotheses the model itself must return the trimmed document
            if w.get("wf") and w.get("repr") and "ok" in w and len(answers) > 1:
                a = answers[1]
                if "ok" not in a or diff(a["ok"], w["trim"]) or a["warns"] != 0:
                    out.append("model: readXml(strict, writeXml d) is not (trimDoc d, 0 warnings) although "
                               "wfDoc and xmlRepr hold (theorem xml_roundtrip would be false)")
        elif st == "foreign" and answers:
            out += self.cmp_read("strict_string", answers[0], obs["loads"]["strict_string"])
            out += self.cmp_read("lenient_string", answers[1], obs["loads"]["lenient_string"])
        return out[:6]

    # -- oracle (the round-trip law over the public API; independent of the model) ------------
    def oracle(self, case, obs):
        if "harness_exception" in obs or "unbuildable" in obs:
            return []
        st = case["stream"]
        out = []
        if st == "csv" and "vals" in case:
            want = [strip(v) for v in case["vals"]]
            if "back" not in obs:
                out.append("from_csv(to_csv(%r)) raised %s" % (case["vals"], obs["back_raised"]))
            elif obs["back"] != want:
                out.append("from_csv(to_csv(%r)) = %r, expected %r (text %r)"
                           % (case["vals"], obs["back"], want, obs["text"]))
        elif st == "doc":
            out += self.oracle_doc(obs)
        elif st == "foreign" and case["benign"]:
            want = trim_doc(obs["mem"])
            flags = shape_flags(obs["mem"])
            self._sep_props = tuple_sep_props(obs["mem"])
            self._clash = clash_lists(obs["mem"])
            for r, load in sorted(obs["loads"].items()):
                out += self.judge_load("foreign/" + r, load, want, flags, count_warnings=True)
        return out

    def judge_load(self, tag, load, want, flags, count_warnings):
        out = []
        if "raised" in load:
            out.append("LOAD %s raised %s [shapes:%s]" % (tag, load["raised"], ",".join(sorted(flags))))
            return out
        for path, a, b in diff(want, trim_doc(load["doc"])):
            leafname = path.rsplit("/", 1)[-1]
            kind = "field"
            if leafname == "uncertainty" or "/uncertainty/" in path + "/":
                if isinstance(a, dict) and isinstance(b, dict) and a.get("num") and not b.get("num") \
                        and a.get("text") == b.get("text"):
                    kind = "uncertainty_number"
                elif path.endswith("/uncertainty/num") and a is True and b is False:
                    kind = "uncertainty_number"
            elif leafname == "name" and a == u"" and b is None:
                kind = "blank_name"          # trimmed name is empty; the loaded object is named by its id
            if any(path == pp or path.startswith(pp + "/") for pp in self._sep_props):
                kind = "tuple_item_separator"
            if path in self._clash and isinstance(a, list) and isinstance(b, list) \
                    and len(a) - len(b) == self._clash[path]:
                kind = "names_clash"
            out.append("DIFF[%s] %s at %s: saved %r, loaded %r" % (kind, tag, path, a, b))
            if len(out) > 6:
                break
        if count_warnings and load.get("warns"):
            allowed = len(self._sep_props) + sum(self._clash.values())
            kind = "warnings"
            if allowed and load["warns"] <= allowed:
                kind = "names_clash" if self._clash else "tuple_item_separator"
            out.append("WARN[%s] %s: %d reader warnings on a written document" % (kind, tag, load["warns"]))
        return out

    def oracle_doc(self, obs):
        out = []
        mem = obs["mem"]
        if obs["mem_after"] != mem:
            out.append("saving changed the in-memory document")
        want = trim_doc(mem)
        flags = shape_flags(mem)
        self._sep_props = tuple_sep_props(mem)
        self._clash = clash_lists(mem)
        voc = set(obs["vocab"])
        trees = []
        raised = [w for w, r in obs["writes"].items() if "raised" in r]
        for w, res in sorted(obs["writes"].items()):
            if "unparsable" in res:
                out.append("%s wrote text that is not well-formed XML (%s)" % (w, res["unparsable"]))
            if "tree" not in res:
                continue
            tree, nforeign = strip_foreign(res["tree"], voc)
            bad = sorted(set(t for t in all_tags(tree) if t not in voc))
            if bad:
                out.append("%s wrote elements outside the odML 1.1 vocabulary: %s" % (w, bad))
            if dict(tree["attrs"]).get("version") != obs["format_version"]:
                out.append("%s: root does not carry version=%s" % (w, obs["format_version"]))
            if nforeign != (1 if w in STYLED else 0):
                out.append("%s: %d foreign elements under the root" % (w, nforeign))
            trees.append((w, tree))
        for w, tree in trees[1:]:
            if tree != trees[0][1]:
                out.append("%s and %s wrote different documents" % (trees[0][0], w))
        if raised and trees:
            out.append("writers disagree: %s raised, %s wrote" % (raised, [w for w, _ in trees]))
        for r, load in sorted(obs["loads"].items()):
            out += self.judge_load(r, load, want, flags, count_warnings=True)
        for r, load in sorted(obs["styled"].items()):
            if r in STRICT:
                continue                  # the property promises the styled file to odml.load only
            out += self.judge_load("styled/" + r, load, want, flags, count_warnings=False)
        return out

    def finding_key(self, case, obs, failure):
        if failure.startswith("DIFF[uncertainty_number]"):
            return "uncertainty_number_loaded_as_str"
        return None

    def tag(self, case, obs):
        st = case["stream"]
        if st == "csvlib":
            src = u"".join(case.get("row", [])) + case.get("text", u"")
            return ("csvlib:" + ("write" if "row" in case else "read" if "read" in obs else "error"),
                    any(c in src for c in u',"\r\n'))
        if st == "csv":
            src = u"".join(case.get("vals", [])) + case.get("text", u"")
            return ("csv:" + ("roundtrip" if "vals" in case else "read"), any(c in src for c in u',"\r\n[]'))
        if "unbuildable" in obs or "harness_exception" in obs:
            return (st + ":unbuildable", False)
        if st == "doc":
            if any("raised" in r for r in obs["writes"].values()):
                return ("doc:writer-raises", True)
            nvals = sum(len(p["values"]) for s in walk_secs(obs["mem"]["secs"]) for p in s["props"])
            return ("doc:" + ("styled" if case.get("styled") else "plain"), nvals > 0)
        loads = obs["loads"]["lenient_string"]
        return ("foreign:" + ("benign" if case["benign"] else "damaged") + (":raised" if "raised" in loads else ":loaded"),
                "raised" not in loads)


if __name__ == "__main__":
    sys.exit(fw.main(C01(), sys.argv[1:]))
