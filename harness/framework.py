# -*- coding: utf-8 -*-
"""
Shared machinery of the checks (see DESIGN.md sections 3-5).

A check of property Cxx does, in this order:
  1. regenerate the Lean tables from /repo (harness/extract_tables.py) - translator tie
  2. build the Lean library, the property's theorem file and the driver   (lake, under flock)
  3. audit: `lake env lean OdmlModel/Audit/Cxx.lean` -> every listed theorem exists and
     depends only on propext / Classical.choice / Quot.sound; grep for forbidden tokens
  4. corpus + generated cases: run the implementation (in-process), run the model (driver),
     compare observations (correspondence), evaluate the implementation-level oracle
  5. on any break: search for a failing input of the property on the implementation
  6. write evidence, print VIOLATION / KNOWN-FINDING lines, exit 0 / 1 (2 = infrastructure)
"""
from __future__ import print_function

import contextlib
import fcntl
import hashlib
import io
import json
import multiprocessing
import os
import random
import re
import subprocess
import sys
import time
import traceback

VERIF = os.path.dirname(os.path.dirname(os.path.abspath(__file__)))
REPO = os.environ.get("ODML_REPO", "/repo")
LEAN = os.path.join(VERIF, "lean")
BIN = os.path.join(LEAN, ".lake", "build", "bin")
# VERIF_EVIDENCE_DIR / VERIF_REPLAY_DIR redirect the outputs of a run that is not meant to be kept
# (runs against seeded mutants in a scratch worktree, see tools/seed_eval.py)
EVIDENCE = os.environ.get("VERIF_EVIDENCE_DIR") or os.path.join(VERIF, "evidence")
REPLAYS = os.environ.get("VERIF_REPLAY_DIR") or os.path.join(VERIF, "out", "replays")
ALLOWED_AXIOMS = {"propext", "Classical.choice", "Quot.sound"}
FORBIDDEN = re.compile(r"sorry|\badmit\b|^axiom |native_decide|bv_decide|implemented_by|"
                       r"unsafe |maxHeartbeats 0", re.M)

if REPO not in sys.path:
    sys.path.insert(0, REPO)


class Infra(Exception):
    """The machinery itself could not run (exit 2, never a violation)."""


# --------------------------------------------------------------------------- lean side

def _strip_comments(text):
    text = re.sub(r"/-.*?-/", "", text, flags=re.S)
    return re.sub(r"--.*", "", text)


def lean_sources(roots=None):
    """All Lean sources, or (roots given) the import closure of those modules inside lean/."""
    if roots is None:
        out = []
        for root, _dirs, files in os.walk(LEAN):
            if ".lake" in root:
                continue
            for f in files:
                if f.endswith(".lean"):
                    out.append(os.path.join(root, f))
        return sorted(out)
    seen = {}
    todo = list(roots)
    while todo:
        mod = todo.pop()
        if mod in seen:
            continue
        path = os.path.join(LEAN, *mod.split(".")) + ".lean"
        if not os.path.exists(path):
            continue
        seen[mod] = path
        with io.open(path, encoding="utf-8") as fh:
            for m in re.finditer(r"^import\s+((?:OdmlModel|Driver)[\w.]*)", fh.read(), re.M):
                todo.append(m.group(1))
    return sorted(seen.values())


def forbidden_tokens(roots=None):
    hits = []
    for path in lean_sources(roots):
        with io.open(path, encoding="utf-8") as fh:
            body = _strip_comments(fh.read())
        for m in FORBIDDEN.finditer(body):
            hits.append("%s: %s" % (os.path.relpath(path, VERIF), m.group(0).strip()))
    return hits


@contextlib.contextmanager
def build_lock():
    path = os.path.join(LEAN, ".build.lock")
    with open(path, "w") as fh:
        fcntl.flock(fh, fcntl.LOCK_EX)
        try:
            yield
        finally:
            fcntl.flock(fh, fcntl.LOCK_UN)


def run(cmd, cwd=None, timeout=1800, inp=None):
    proc = subprocess.run(cmd, cwd=cwd, input=inp, stdout=subprocess.PIPE,
                          stderr=subprocess.STDOUT, timeout=timeout)
    return proc.returncode, proc.stdout.decode("utf-8", "replace")


def lake_build(targets):
    """Build the given lake targets. Returns (ok, log)."""
    with build_lock():
        code, out = run(["lake", "build"] + list(targets), cwd=LEAN, timeout=3000)
    return code == 0, out


def audit(prop, obligations):
    """
    Runs the audit file of the property. Returns (discharged, problems):
    the listed theorems that exist with allowed axioms only, and a list of problem strings.
    """
    path = os.path.join("OdmlModel", "Audit", "%s.lean" % prop)
    code, out = run(["lake", "env", "lean", path], cwd=LEAN, timeout=1800)
    found = {}
    for m in re.finditer(r"'([^']+)' depends on axioms: \[([^\]]*)\]", out):
        found[m.group(1)] = set(a.strip() for a in m.group(2).split(",") if a.strip())
    for m in re.finditer(r"'([^']+)' does not depend on any axioms", out):
        found[m.group(1)] = set()
    problems = []
    discharged = []
    for thm in obligations:
        if thm not in found:
            problems.append("theorem %s missing from audit output" % thm)
        elif not found[thm] <= ALLOWED_AXIOMS:
            problems.append("theorem %s depends on %s" % (thm, sorted(found[thm] - ALLOWED_AXIOMS)))
        else:
            discharged.append(thm)
    if code != 0:
        problems.append("audit file does not check: " + out.strip()[-800:])
    return discharged, problems


class Model(object):
    """Batch access to the compiled Lean driver."""

    def __init__(self, name):
        self.exe = os.path.join(BIN, name)
        if not os.path.exists(self.exe):
            raise Infra("driver not built: %s" % self.exe)

    def ask(self, requests):
        if not requests:
            return []
        return next(self.ask_stream(iter([requests])))

    def ask_stream(self, groups, timeout=3000):
        """
        `groups` yields lists of requests (one list per case); yields the list of answers of each
        group, in order.  One driver process serves the whole stream; requests are written and answers
        read as they come, so neither the request text nor the answer text of a whole run is ever held
        in memory (a thorough tier has millions of lines).
        """
        import queue
        import threading
        proc = subprocess.Popen([self.exe], stdin=subprocess.PIPE, stdout=subprocess.PIPE,
                                stderr=subprocess.PIPE)
        pending = queue.Queue()      # group sizes only; unbounded, so the feeder never waits for the reader
        feed_error = []
        stderr_tail = []

        def feed():
            try:
                for reqs in groups:
                    pending.put(len(reqs))
                    if reqs:
                        proc.stdin.write(("\n".join(json.dumps(r, ensure_ascii=True) for r in reqs)
                                          + "\n").encode("utf-8"))
            except BrokenPipeError:
                pass
            except BaseException as exc:          # noqa: an error of the generator is re-raised below
                feed_error.append(exc)
            finally:
                try:
                    proc.stdin.close()
                except Exception:
                    pass
                pending.put(None)

        def drain():
            for line in proc.stderr:
                stderr_tail.append(line)
                del stderr_tail[:-20]

        killer = threading.Timer(timeout, proc.kill)
        killer.daemon = True
        killer.start()
        feeder = threading.Thread(target=feed, daemon=True)
        drainer = threading.Thread(target=drain, daemon=True)
        feeder.start()
        drainer.start()
        nline = 0
        try:
            while True:
                count = pending.get()
                if count is None:
                    break
                answers = []
                for _ in range(count):
                    line = proc.stdout.readline()
                    if not line:
                        proc.wait()
                        raise Infra("driver ended early (exit %s): %s"
                                    % (proc.returncode, b"".join(stderr_tail)[-500:]))
                    nline += 1
                    ans = json.loads(line.decode("utf-8"))
                    if "err" in ans:
                        raise Infra("driver protocol error %r on request line %d" % (ans["err"], nline))
                    answers.append(ans["r"])
                yield answers
            if feed_error:
                raise feed_error[0]
            extra = proc.stdout.read()
            proc.wait()
            if proc.returncode != 0:
                raise Infra("driver exited %s: %s" % (proc.returncode, b"".join(stderr_tail)[-500:]))
            if extra.strip():
                raise Infra("driver answered more lines than requests")
        finally:
            killer.cancel()
            if proc.poll() is None:
                proc.kill()
            proc.wait()


# --------------------------------------------------------------------------- impl side

def exc_name(exc):
    return type(exc).__name__


@contextlib.contextmanager
def quiet():
    """The library prints warnings to stdout; keep the check's stdout for verdict lines."""
    old_out, old_err = sys.stdout, sys.stderr
    sys.stdout = io.StringIO()
    sys.stderr = io.StringIO()
    try:
        yield
    finally:
        sys.stdout, sys.stderr = old_out, old_err


def canon(obj):
    return json.dumps(obj, sort_keys=True, ensure_ascii=True, default=repr)


# --------------------------------------------------------------------------- check base

class Check(object):
    """
    One property. Subclasses provide the generator, the implementation executor, the model
    requests, the comparison and the implementation-level oracle.
    """
    prop = None
    driver_name = None        # lake exe target of the model driver (default drv_<prop>)

    def driver(self):
        return self.driver_name or ("drv_" + self.prop.lower())

    obligations = []          # Lean theorem names that must be discharged
    lean_targets = []         # lake targets besides the driver
    trusted_base = []
    assumptions = []
    rule = ""
    quick_n = 1000
    thorough_n = 20000
    case_timeout = 20         # seconds per case on the implementation; exceeding it = "did not terminate"

    # -- to override ---------------------------------------------------------
    def corpus(self):
        """Cases that always run first (minimised past failures, known-finding witnesses)."""
        path = os.path.join(VERIF, "corpus", self.prop)
        out = []
        if os.path.isdir(path):
            for name in sorted(os.listdir(path)):
                if name.endswith(".json"):
                    with io.open(os.path.join(path, name), encoding="utf-8") as fh:
                        out.append(json.load(fh))
        return out

    def generate(self, tier, rng):
        """-> list of JSON-serialisable cases."""
        raise NotImplementedError

    def impl(self, case):
        """Run the real library on the case -> JSON-serialisable observation."""
        raise NotImplementedError

    def model_requests(self, case, obs):
        """-> list of driver requests for this case (may use the implementation's observation)."""
        return []

    def compare(self, case, obs, answers):
        """-> list of disagreement strings (model vs implementation)."""
        return []

    def oracle(self, case, obs):
        """The property restated over the public API -> list of failure strings."""
        return []

    def tag(self, case, obs):
        """-> (distribution tag, nontrivial?)"""
        return ("case", True)

    def finding_key(self, case, obs, failure):
        """Classify an oracle failure into the key of a known finding (or None)."""
        return None

    def extra_exhaustive(self, tier):
        return False

    # -- machinery -----------------------------------------------------------
    def safe_impl(self, case):
        import signal

        def on_alarm(_sig, _frm):
            raise CaseTimeout()
        # two clocks: CPU time of this process (a loop that does not terminate burns it, a loaded
        # machine does not) and, much more generous, wall time (for a case that blocks)
        old = signal.signal(signal.SIGALRM, on_alarm)
        oldv = signal.signal(signal.SIGVTALRM, on_alarm)
        signal.setitimer(signal.ITIMER_REAL, self.case_timeout * 6)
        signal.setitimer(signal.ITIMER_VIRTUAL, self.case_timeout)
        try:
            with quiet():
                return self.impl(case)
        except CaseTimeout:
            return {"timeout": True}
        except Exception as exc:      # the executor itself must not die on a mutant
            return {"harness_exception": exc_name(exc), "trace": traceback.format_exc()[-1500:]}
        finally:
            signal.setitimer(signal.ITIMER_VIRTUAL, 0)
            signal.setitimer(signal.ITIMER_REAL, 0)
            signal.signal(signal.SIGALRM, old)
            signal.signal(signal.SIGVTALRM, oldv)


class CaseTimeout(BaseException):
    """Raised inside a case that runs longer than Check.case_timeout."""


_CHECK = None


def _worker_init(check):
    global _CHECK
    _CHECK = check
    random.seed(0)


def _worker_run(case):
    obs = _CHECK.safe_impl(case)
    if obs.get("timeout") if isinstance(obs, dict) else False:
        return obs, ["the implementation did not terminate within %ds on this case" % _CHECK.case_timeout]
    try:
        with quiet():
            fails = _CHECK.oracle(case, obs)
    except Exception as exc:
        fails = ["oracle crashed: %s %s" % (exc_name(exc), traceback.format_exc()[-800:])]
    return obs, fails


def _pool_map(pool, cases, check, chunksize=None):
    """pool.map with a deadline: a worker process that dies (interpreter crash) loses its task and
    a plain map would wait for ever. Exceeding the deadline is infrastructure trouble (exit 2)."""
    if not cases:
        return []
    if chunksize is None:
        chunksize = max(1, len(cases) // 64)
    deadline = 300 + len(cases) * max(1.0, check.case_timeout) / 8.0
    try:
        return pool.map_async(_worker_run, cases, chunksize=chunksize).get(timeout=deadline)
    except multiprocessing.TimeoutError:
        pool.terminate()
        raise Infra("the case pool did not finish within %ds (a worker process died or hangs)" % deadline)


def load_known_findings(prop):
    """Open findings of the property from known_findings.json and known_findings.d/*.json."""
    paths = [os.path.join(VERIF, "known_findings.json")]
    extra = os.path.join(VERIF, "known_findings.d")
    if os.path.isdir(extra):
        paths += [os.path.join(extra, n) for n in sorted(os.listdir(extra)) if n.endswith(".json")]
    out = []
    for path in paths:
        if not os.path.exists(path):
            continue
        with io.open(path, encoding="utf-8") as fh:
            data = json.load(fh)
        out += [f for f in data.get("findings", []) if f.get("property") == prop
                and f.get("status") == "open"]
    return out


def write_replay(prop, name, payload):
    if not os.path.isdir(REPLAYS):
        os.makedirs(REPLAYS)
    path = os.path.join(REPLAYS, "%s_%s.json" % (prop, name))
    with io.open(path, "w", encoding="utf-8") as fh:
        fh.write(json.dumps(payload, indent=1, sort_keys=True, ensure_ascii=True, default=repr))
    return os.path.relpath(path, VERIF)


def _main(check, argv):
    t0 = time.time()
    prop = check.prop
    if len(argv) >= 2 and argv[0] == "--replay":
        return replay(check, argv[1])
    tier = argv[0] if argv else os.environ.get("VERIF_TIER", "quick")
    if tier not in ("quick", "thorough"):
        print("usage: check %s quick|thorough|--replay <file>" % prop)
        return 2
    seed = int(os.environ.get("VERIF_SEED", "0") or 0)
    rng = random.Random(seed * 1000003 + int(hashlib.sha1(prop.encode()).hexdigest()[:6], 16))
    violations = []            # (replay path, suffix)
    notes = []

    # 1. tables
    try:
        import extract_tables
        table_info = extract_tables.regenerate()
    except Exception as exc:
        table_info = {"error": "%s: %s" % (exc_name(exc), exc)}
        notes.append("table extraction failed: %s" % table_info["error"])

    # 2./3. build + audit
    ok, log = lake_build(list(check.lean_targets) + [check.driver()])
    proof_problems = []
    discharged = []
    if not ok:
        proof_problems.append("lake build failed: " + log.strip()[-1500:])
    else:
        discharged, proof_problems = audit(prop, check.obligations)
    recheck = None
    if ok and tier == "thorough" and check.lean_targets:
        # independent re-check of the compiled modules of the property theorems (leanchecker
        # replays every declaration of the .olean files through the kernel)
        t_rc = time.time()
        with build_lock():
            code, out = run(["lake", "env", "leanchecker"] + list(check.lean_targets), cwd=LEAN, timeout=3000)
        recheck = {"cmd": "lake env leanchecker " + " ".join(check.lean_targets), "exit": code,
                   "wall_s": round(time.time() - t_rc, 1)}
        if code != 0:
            proof_problems.append("leanchecker rejects the compiled modules: " + out.strip()[-800:])
    hits = forbidden_tokens(list(check.lean_targets) + ["OdmlModel.Audit.%s" % prop, "Driver.%s" % check.driver()[4:].upper()])
    if hits:
        proof_problems.append("forbidden tokens in Lean sources: %s" % hits[:5])
    if "error" in table_info:
        proof_problems.append("tables could not be regenerated from /repo: %s" % table_info["error"])

    # 4. cases
    cases = []
    seen = set()
    for c in check.corpus() + check.generate(tier, rng):
        k = canon(c)
        if k not in seen:
            seen.add(k)
            cases.append(c)
    nproc = 1 if tier == "quick" and len(cases) < 3000 else min(16, os.cpu_count() or 1)
    if nproc == 1:
        _worker_init(check)
        results = [_worker_run(c) for c in cases]
    else:
        ctx = multiprocessing.get_context("fork")
        pool = ctx.Pool(nproc, initializer=_worker_init, initargs=(check,))
        try:
            results = _pool_map(pool, cases, check, chunksize=max(1, len(cases) // (nproc * 8)))
            pool.close()
            pool.join()
        finally:
            pool.terminate()

    # a case that ran into the time limit in a worker is run once more here, alone: only a case
    # that does not finish twice counts as "did not terminate"
    if nproc != 1:
        _worker_init(check)
    results = list(results)
    for i, (obs, _f) in enumerate(results):
        if isinstance(obs, dict) and obs.get("timeout"):
            results[i] = _worker_run(cases[i])

    model_ok = ok
    disagreements = []
    validated = 0
    if model_ok:
        try:
            model = Model(check.driver())

            def request_groups():
                for case, (obs, _f) in zip(cases, results):
                    yield check.model_requests(case, obs) \
                        if "harness_exception" not in obs and "timeout" not in obs else []

            # one driver process; requests are produced, answered and compared case by case
            for idx, answers in enumerate(model.ask_stream(request_groups())):
                case, (obs, _f) = cases[idx], results[idx]
                if "harness_exception" in obs:
                    disagreements.append((idx, ["implementation executor failed: %s %s"
                                                % (obs["harness_exception"], obs.get("trace", "")[-600:])]))
                    continue
                if "timeout" in obs:
                    continue
                d = check.compare(case, obs, answers)
                if d:
                    disagreements.append((idx, d))
                else:
                    validated += 1
        except Infra as exc:
            print("INFRA: %s" % exc)
            return 2

    known = load_known_findings(prop)
    known_keys = dict((f["key"], f) for f in known)
    known_hit = {}
    oracle_fail = []           # (idx, failures) not covered by a known finding
    dist = {}
    nontrivial = set()
    for idx, (case, (obs, fails)) in enumerate(zip(cases, results)):
        try:
            tagname, nt = check.tag(case, obs)
        except Exception:
            tagname, nt = ("untagged", False)
        dist[tagname] = dist.get(tagname, 0) + 1
        if nt:
            nontrivial.add(canon(case))
        new = []
        for f in fails:
            key = check.finding_key(case, obs, f)
            if key is not None and key in known_keys:
                known_hit.setdefault(key, []).append(idx)
            else:
                new.append(f)
        if new:
            oracle_fail.append((idx, new))

    # 5. verdicts
    for key in sorted(known_hit):
        print("KNOWN-FINDING: property=%s %s" % (prop, known_keys[key]["what"]))
    for key, f in sorted(known_keys.items()):
        if key not in known_hit:
            notes.append("known finding %s did not reproduce on this run" % key)

    if oracle_fail:
        idx, fails = oracle_fail[0]
        path = write_replay(prop, "oracle_seed%d_case%d" % (seed, idx), {
            "property": prop, "kind": "oracle", "seed": seed, "tier": tier, "case_index": idx,
            "case": cases[idx], "observation": results[idx][0], "failures": fails,
            "others": len(oracle_fail) - 1})
        violations.append((path, ""))
    elif disagreements or proof_problems:
        # a tie is broken but no failing input of the property was found on the implementation
        what = {}
        if proof_problems:
            what["proof_obligations"] = proof_problems
        if disagreements:
            idx, d = disagreements[0]
            what["correspondence"] = {"case_index": idx, "case": cases[idx],
                                      "implementation": results[idx][0], "disagreement": d,
                                      "others": len(disagreements) - 1}
        # search harder on the implementation before giving up (bounded by time)
        found = None
        if tier == "quick":
            extra = check.generate("thorough", random.Random(seed + 7919))[:20000]
            ctx = multiprocessing.get_context("fork")
            t_search = time.time()
            budget = float(os.environ.get("VERIF_SEARCH_S", "90"))
            # batches that run to completion: Pool.terminate() with tasks still queued can
            # dead-lock (the task handler thread and terminate() wait for the same queue lock)
            pool = ctx.Pool(min(16, os.cpu_count() or 1), initializer=_worker_init, initargs=(check,))
            try:
                for lo in range(0, len(extra), 256):
                    batch = extra[lo:lo + 256]
                    res = _pool_map(pool, batch, check)
                    for c, (obs, fails) in zip(batch, res):
                        if isinstance(obs, dict) and obs.get("timeout"):
                            obs, fails = _worker_run(c)       # confirm alone, see above
                        fails = [f for f in fails if check.finding_key(c, obs, f) not in known_keys]
                        if fails:
                            found = (c, obs, fails)
                            break
                    if found or time.time() - t_search > budget:
                        break
                pool.close()
                pool.join()
            finally:
                pool.terminate()
        if found:
            path = write_replay(prop, "oracle_search_seed%d" % seed, {
                "property": prop, "kind": "oracle", "seed": seed, "tier": tier,
                "case": found[0], "observation": found[1], "failures": found[2],
                "broken_tie": what})
            violations.append((path, ""))
        else:
            path = write_replay(prop, "tie_seed%d" % seed, {
                "property": prop, "kind": "tie", "seed": seed, "tier": tier, "broken": what,
                "note": "the model/proof no longer matches the implementation and no failing "
                        "input of the property was found on the implementation"})
            violations.append((path, " no-failing-input-found"))

    wall = time.time() - t0
    samples = [{"case": cases[i], "implementation": results[i][0]}
               for i in sorted(rng.sample(range(len(cases)), min(3, len(cases))))] if cases else []
    evidence = {
        "property_id": prop, "tier": tier, "seed": seed, "level": "proof",
        "coverage": {
            "obligations": len(check.obligations),
            "discharged": len(discharged),
            "checker_cmd": "cd lean && lake build %s && lake env lean OdmlModel/Audit/%s.lean"
                           % (" ".join(check.lean_targets), prop),
            "trusted_base": check.trusted_base,
            "theorems": check.obligations,
            "proof_problems": proof_problems,
            "kernel_recheck": recheck,
            "evaluations": len(cases),
            "distinct_nontrivial": len(nontrivial),
            "rule": check.rule,
            "samples": samples,
            "traces_validated_against_impl": validated,
            "disagreements": len(disagreements),
            "oracle_failures_new": len(oracle_fail),
            "known_findings_reproduced": sorted(known_hit),
            "distribution": dist,
            "exhaustive": bool(check.extra_exhaustive(tier)),
            "tables": table_info,
            "notes": notes,
        },
        "assumptions": check.assumptions,
        "wall_s": round(wall, 2),
        "violations": len(violations),
    }
    if not os.path.isdir(EVIDENCE):
        os.makedirs(EVIDENCE)
    with io.open(os.path.join(EVIDENCE, "%s.json" % prop), "w", encoding="utf-8") as fh:
        fh.write(json.dumps(evidence, indent=1, sort_keys=True, ensure_ascii=True, default=repr))
    for path, suffix in violations:
        print("VIOLATION property=%s replay=%s%s" % (prop, path, suffix))
    print("%s %s: %d cases, %d validated against the model, %d/%d theorems, %d violation(s), %.1fs"
          % (prop, tier, len(cases), validated, len(discharged), len(check.obligations),
             len(violations), wall))
    return 1 if violations else 0


def main(check, argv):
    """exit 0 = held, 1 = VIOLATION printed, 2 = the machinery itself could not run."""
    try:
        return _main(check, argv)
    except Infra as exc:
        print("INFRA: %s" % exc)
        return 2
    except subprocess.TimeoutExpired as exc:
        print("INFRA: timeout: %s" % exc)
        return 2


def replay(check, path):
    if not os.path.isabs(path):
        path = os.path.join(VERIF, path)
    with io.open(path, encoding="utf-8") as fh:
        data = json.load(fh)
    if "case" not in data:
        case = (data.get("broken", {}).get("correspondence") or {}).get("case")
        if case is None:
            print("replay names broken proof obligations, no input: %s"
                  % json.dumps(data.get("broken"), indent=1)[:3000])
            return 1
    else:
        case = data["case"]
    _worker_init(check)
    obs, fails = _worker_run(case)
    print("case: %s" % json.dumps(case)[:2000])
    print("implementation: %s" % json.dumps(obs, default=repr)[:2000])
    dis = []
    try:
        lake_build(list(check.lean_targets) + [check.driver()])
        answers = Model(check.driver()).ask(check.model_requests(case, obs))
        dis = check.compare(case, obs, answers)
        print("model: %s" % json.dumps(answers)[:2000])
    except Exception as exc:
        print("model side unavailable: %s" % exc)
    for f in fails:
        print("ORACLE FAILURE: %s" % f)
    for d in dis:
        print("DISAGREEMENT: %s" % d)
    if fails or dis:
        print("VIOLATION property=%s replay=%s" % (check.prop, os.path.relpath(path, VERIF)))
        return 1
    print("replay passes")
    return 0
