# -*- coding: utf-8 -*-
"""
C05 - Property values always conform to the Property's dtype, in normal form.

Tie between lean/OdmlModel/Model/DTypes.lean (+ Val, Py/Num, Py/Time) and /repo:
  * dtypes.valid_type / infer_dtype / get / set tabulated over the dtype-name pool x value pool
  * random histories  Property(...) ; values= / dtype= / append / extend / insert / [i]= /
    remove / merge / clone, strict on and off, observed after every call
plus the property restated over the public API (oracle), independent of the model.
"""
import datetime as dt
import enum
import re
import sys

import framework as fw

CANON = ["string", "text", "int", "float", "url", "datetime", "date", "time", "boolean", "person"]
STR_CLASS = ("string", "text", "url", "person")
TUPLE_RE = re.compile(r"[1-9][0-9]*-tuple")


# ----------------------------------------------------------------------------- encodings
def enc(v):
    """Python value -> JSON encoding shared with the Lean driver."""
    if v is None or isinstance(v, (bool, str)):
        return v
    if isinstance(v, enum.Enum):
        return enc(v.value)
    if isinstance(v, int):
        return v
    if isinstance(v, float):
        return {"f": repr(v)}
    if isinstance(v, dt.datetime):
        return {"dt": [v.year, v.month, v.day, v.hour, v.minute, v.second, v.microsecond]}
    if isinstance(v, dt.date):
        return {"d": [v.year, v.month, v.day]}
    if isinstance(v, dt.time):
        return {"t": [v.hour, v.minute, v.second, v.microsecond]}
    if isinstance(v, dict):
        return {"o": str(v)}
    if isinstance(v, tuple):
        return {"tu": [enc(x) for x in v]}
    if isinstance(v, list):
        return {"l": [enc(x) for x in v]}
    return {"weird": repr(v)}


def dec(e):
    """JSON encoding -> a fresh Python value (never shares objects between calls)."""
    if e is None or isinstance(e, (bool, int, str)):
        return e
    if "f" in e:
        return float(e["f"])
    if "dt" in e:
        return dt.datetime(*e["dt"])
    if "d" in e:
        return dt.date(*e["d"])
    if "t" in e:
        return dt.time(*e["t"])
    if "o" in e:
        return {} if e["o"] == "{}" else {"k": 1}
    if "tu" in e:
        return tuple(dec(x) for x in e["tu"])
    if "l" in e:
        return [dec(x) for x in e["l"]]
    raise ValueError(e)


def dec_dtype(d):
    """dtype argument: None, a str, {"member": name} (DType member), {"other": 1} (non-str)."""
    if d is None or isinstance(d, str):
        return d
    if "member" in d:
        from odml.dtypes import DType
        return DType[d["member"]]
    return 5


def model_dtype(d):
    if isinstance(d, dict) and "member" in d:
        return d["member"]
    if isinstance(d, dict):
        return {"other": True}
    return d


def enc_dtype(d):
    if isinstance(d, enum.Enum):
        return d.value
    if d is None or isinstance(d, str):
        return d
    return {"weird": repr(d)}


def out_class(name):
    return name if name in ("ok", "ValueError") else "other"


def now_fields(n):
    return [n.year, n.month, n.day, n.hour, n.minute, n.second]


# ----------------------------------------------------------------------------- pools
DTYPES_VALID = CANON + ["str", "bool", "1-tuple", "2-tuple", "3-tuple"]
DTYPES_VARIANT = ["Int", "STRING", "Boolean", "DATE", "Float", "2-TUPLE", "Str", "BOOL", "DateTime"]
DTYPES_BAD = ["join", "upper", "integer", "", "tuple", "0-tuple", "02-tuple", "x-tuple", "2-tuple\n",
              "2-tuples", "name", "value", "-2-tuple", "strip", "__class__", "mro", "in t", "list"]
MEMBERS = [{"member": m} for m in CANON]

STRS = ["", "a", "abc", "1", "0", "-7", " 12 ", "1_000", "007", "1.5", "1e3", "2.7", "-0.5", "inf",
        "nan", "1e", "--1", ".5", "5.", "true", "True", "TRUE", "t", "F", "false", "yes", "T ",
        "2020-01-05", "2020-1-5", "2020-02-30", "2020-02-29", "2021-02-29", "2020-13-01",
        "0005-01-02", "2020-01- 5", "2020-01-05 ", "20-01-05",
        "12:30:45", "1:2:3", "24:00:00", "23:59:60", "12:30", "12:30:45.5",
        "2020-01-05 12:30:45", "2020-01-05  1:2:3", "2020-01-05T12:30:45", "0005-01-02 03:04:05",
        "2020-01-05\t12:30:45", "2020-01- 5 12:30:45", "2020-01-05 12:30:45 ",
        "(a;b)", "(a; b)", " ( a ; b ) ", "(a;b;c)", "(a)", "()", "(a;b", "a;b", "(;)", "(a;(b))",
        "[a, b]", "[1,2,3]", "[]", "[", "]", "[(a;b)]", "[(a;b),(c;d)]", "[ 1 , 2 ]", "[2020-01-05]",
        "a\nb", "x,y", "é", "a'b", "a\"b", "tab\there", " ", "None", " x ", "back\\slash"]
ATOMS = [None, True, False, 0, 1, -1, 2, 42, 10 ** 20, -10 ** 12,
         {"f": "0.0"}, {"f": "-0.0"}, {"f": "1.0"}, {"f": "1.5"}, {"f": "-2.25"}, {"f": "1000.0"},
         {"f": "0.001"}, {"f": "inf"}, {"f": "-inf"}, {"f": "nan"}, {"f": "1e+16"}, {"f": "1e-05"},
         {"f": "123456.789"}, {"f": "2.0"},
         {"d": [2020, 1, 5]}, {"d": [5, 1, 2]}, {"d": [2020, 2, 29]}, {"d": [9999, 12, 31]},
         {"t": [12, 30, 45, 0]}, {"t": [1, 2, 3, 4]}, {"t": [0, 0, 0, 0]}, {"t": [23, 59, 59, 999999]},
         {"dt": [2020, 1, 5, 12, 30, 45, 0]}, {"dt": [2020, 1, 5, 12, 30, 45, 123456]},
         {"dt": [5, 1, 2, 3, 4, 5, 0]}, {"dt": [2020, 1, 5, 0, 0, 0, 0]},
         {"o": "{}"}, {"o": "{'k': 1}"}] + STRS
SEQS = [{"l": []}, {"tu": []}, {"l": [1, 2]}, {"l": ["a", "b"]}, {"tu": ["a", "b"]}, {"l": ["a", "b", "c"]},
        {"l": [1, "a"]}, {"tu": [1]}, {"l": [None]}, {"l": [""]}, {"l": ["", "x"]}, {"l": [" a ", "b;c"]},
        {"l": [{"f": "1.5"}, 2]}, {"l": [{"d": [2020, 1, 5]}, "x"]}, {"l": [True, False]},
        {"l": ["a'b", "c\"d", "e\nf"]}, {"tu": [{"t": [1, 2, 3, 0]}, {"dt": [2020, 1, 5, 0, 0, 0, 0]}]}]
ELEMS = ATOMS + SEQS
NESTED = [{"l": [{"l": ["a", "b"]}, {"l": ["c", "d"]}]}, {"l": [{"l": ["a", "b"]}, {"l": ["c"]}]},
          {"l": [{"tu": ["a", "b"]}]}, {"l": [{"l": [1, 2]}]}, {"l": ["(a;b)", {"l": ["c", "d"]}]},
          {"l": ["(a;b)", 5]}, {"l": [5]}, {"l": [0]}, {"l": ["(a;b)", ""]}, {"l": ["(a;b)", None]},
          {"tu": ["(a;b)", "(c; d)"]}, {"l": ["[(a;b)]"]}, {"l": ["[(a;b),(c;d)]"]},
          {"l": [{"l": ["a", "b", "c"]}, {"l": [1, 2, 3]}]}, {"l": ["(1;2)", "(3;4)", "(5)"]}]

NATURAL = {
    "int": [0, 1, -1, 42, 7, "3", " 12 ", "-7", "1.5", "1e3", True, {"f": "2.0"}, {"f": "-2.25"}, None, ""],
    "float": [{"f": "1.5"}, {"f": "0.0"}, {"f": "-2.25"}, 3, "2.7", "1e3", ".5", True, None, "", {"f": "nan"}],
    "boolean": [True, False, "true", "False", "T", "f", "1", "0", 1, 0, {"f": "1.0"}, None, ""],
    "str": ["a", "abc", "x,y", "a\nb", "1", "", " ", "é", "[a, b]", 5, {"f": "1.5"}, True, None,
            {"d": [2020, 1, 5]}, {"l": [1, "a"]}, {"o": "{'k': 1}"}],
    "date": [{"d": [2020, 1, 5]}, {"d": [5, 1, 2]}, "2020-01-05", "2020-1-5", "0005-01-02", "2020-02-29", None,
             "", {"dt": [2020, 1, 5, 0, 0, 0, 0]}],
    "time": [{"t": [12, 30, 45, 0]}, {"t": [1, 2, 3, 4]}, "12:30:45", "1:2:3", "00:00:00", None, ""],
    "datetime": [{"dt": [2020, 1, 5, 12, 30, 45, 0]}, {"dt": [2020, 1, 5, 12, 30, 45, 123456]},
                 {"dt": [5, 1, 2, 3, 4, 5, 0]}, "2020-01-05 12:30:45", "2020-01-05  1:2:3",
                 "0005-01-02 03:04:05", None, ""],
    "tuple": ["(a;b)", "(a; b)", " ( c ; d ) ", "(1;2)", "(x;y;z)", "(a)", {"l": ["a", "b"]}, {"tu": ["c", "d"]},
              {"l": [1, 2]}, {"l": ["x", "y", "z"]}, "", None, "(a;b", 5],
}


def dclass(d):
    """dtype (encoded) -> key of NATURAL"""
    if isinstance(d, dict):
        d = d.get("member")
    if not isinstance(d, str):
        return "str"
    n = d.lower()
    n = {"str": "string", "bool": "boolean"}.get(n, n)
    if n.endswith("-tuple"):
        return "tuple"
    if n in ("int", "float", "boolean", "date", "time", "datetime"):
        return n
    return "str"


def modelled_value(e):
    """Inside the universe the Lean model is exact for? (see DTypes.lean / Num.lean headers)"""
    if isinstance(e, str):
        return all(ord(c) < 0x250 for c in e) and not any(c.isdigit() and not c.isascii() for c in e)
    if isinstance(e, bool) or e is None:
        return True
    if isinstance(e, int):
        return abs(e) < 10 ** 15 or e in (10 ** 20, -10 ** 12)
    if isinstance(e, dict):
        if "f" in e:
            x = float(e["f"])
            if x != x or x in (float("inf"), float("-inf")):
                return True
            digits = repr(x).replace("-", "").replace(".", "").split("e")[0].strip("0")
            return len(digits) <= 15 and (x == 0 or 1e-200 < abs(x) < 1e200)
        for k in ("l", "tu"):
            if k in e:
                return all(modelled_value(x) for x in e[k])
    return True


# ----------------------------------------------------------------------------- oracle helpers
def norm_name(d):
    n = d.lower()
    return {"str": "string", "bool": "boolean"}.get(n, n)


def dtype_ok(d):
    """Is the (encoded) stored dtype a valid odML type? (names of the ten types, the documented
    shorthands str/bool, any case; n-tuple)"""
    if d is None:
        return True
    if not isinstance(d, str):
        return False
    n = norm_name(d)
    return n in CANON or TUPLE_RE.fullmatch(n) is not None


def value_conforms(v, d):
    """v: real Python value, d: encoded dtype. -> None or a complaint."""
    if d is None:
        return "a value is stored but the dtype is None"
    n = norm_name(d)
    if n == "int":
        ok = type(v) is int
    elif n == "float":
        ok = type(v) is float
    elif n == "boolean":
        ok = type(v) is bool
    elif n in STR_CLASS:
        ok = type(v) is str
    elif n == "date":
        ok = type(v) is dt.date
    elif n == "time":
        ok = type(v) is dt.time and v.microsecond == 0
    elif n == "datetime":
        ok = type(v) is dt.datetime and v.microsecond == 0
    elif TUPLE_RE.fullmatch(n):
        cnt = int(n[:-6])
        if v is None:
            return "tuple-none: value None stored in a %s Property" % n
        ok = type(v) is list and len(v) == cnt and all(type(x) is str for x in v)
    else:
        return None        # invalid dtype is reported separately
    return None if ok else "value %r is not of the type of dtype %r" % (v, d)


class C05(fw.Check):
    prop = "C05"
    lean_targets = ["OdmlModel.Props.C05"]
    obligations = ["C05." + t for t in [
        "get_conforms", "conforms_step", "conforms_run", "conforms_ctor", "values_imply_dtype",
        "refused_unchanged", "refused_valueerror", "dtype_all_or_nothing", "normal_form_get",
        "normal_form_assign", "clone_same", "normal_form_assign_tuple", "normal_form_reachable",
        "text_roundtrip", "str_roundtrip_nonfloat",
        "tuple_none_only_from_falsy", "conforms_strict_partial", "tuple_none_counterexample",
        "valid_type_exact", "method_names_invalid"]]
    trusted_base = [
        "Lean 4.33.0 kernel; axioms propext, Classical.choice, Quot.sound only (audited per theorem)",
        "hand-written model lean/OdmlModel/Model/{DTypes,Val}.lean, Py/{Num,Time,Str}.lean, tied to "
        "/repo by this correspondence run",
        "harness/extract_tables.py (DType members, _dtype_map, special_dtypes regenerated every run)",
        "Driver/*.lean JSON glue; harness/framework.py, harness/c05.py",
    ]
    assumptions = [
        "floats are modelled as decimals: exact for <= 15 significant digits inside the double range; "
        "other floats only go through the implementation-level oracle",
        "repr(float) -> float() is the identity (CPython contract), used by text_roundtrip for floats",
        "only ASCII digits / ASCII case mapping are modelled; str() of nested containers is modelled "
        "for two levels; time zones are not modelled",
        "datetime.now() is read before and after each implementation run and passed to the model",
    ]
    rule = ("tabulation of dtypes.valid_type/infer_dtype/get/set over the dtype-name pool (canonical, "
            "shorthands, case variants, DType members, str method names, near misses) x value pool "
            "(native values, text forms, near misses, None/empty, lists, tuples, dicts, bracketed "
            "strings, tuple syntax); random histories of <= 15 calls (constructor, values=, dtype=, "
            "append, extend, insert, item assignment, remove, merge, clone; strict on/off), 70% of "
            "the inputs natural for the current dtype. A history is non-trivial when at least one "
            "call after the constructor was accepted with values stored and at least one was "
            "refused or changed the dtype; distinct = distinct canonical JSON of the case.")

    # -- generation ----------------------------------------------------------
    def all_dtypes(self):
        return [None] + DTYPES_VALID + DTYPES_VARIANT + DTYPES_BAD + MEMBERS + [{"other": 1}]

    def pick_value(self, rng, cls, level):
        """level 0: an element (atom or flat list) ; 1: a caller input (may be a list of elements)"""
        r = rng.random()
        if r < 0.6:
            v = rng.choice(NATURAL[cls])
        elif r < 0.8:
            v = rng.choice(ELEMS)
        else:
            v = rng.choice(NATURAL[rng.choice(sorted(NATURAL))])
        if level == 0:
            return v
        r = rng.random()
        if r < 0.45:
            return v
        if r < 0.55 and cls == "tuple":
            return rng.choice(NESTED)
        if r < 0.6:
            return rng.choice(NESTED + SEQS)
        k = rng.choice([0, 1, 2, 2, 3, 4])
        items = [self.pick_value(rng, cls, 0) if rng.random() < 0.85 else rng.choice(ELEMS) for _ in range(k)]
        return {rng.choice(["l", "l", "l", "tu"]): items}

    def pick_dtype(self, rng):
        r = rng.random()
        if r < 0.7:
            return rng.choice(DTYPES_VALID + [None, None])
        if r < 0.8:
            return rng.choice(MEMBERS)
        if r < 0.9:
            return rng.choice(DTYPES_VARIANT)
        return rng.choice(DTYPES_BAD + [{"other": 1}])

    def gen_history(self, rng, maxops):
        d = self.pick_dtype(rng)
        cls = dclass(d)
        if d is None:
            cls = rng.choice(sorted(NATURAL))
        ctor = {"d": d, "values": self.pick_value(rng, cls, 1) if rng.random() < 0.85 else None,
                "value": self.pick_value(rng, cls, 1) if rng.random() < 0.1 else None}
        ops = []
        for _ in range(rng.randrange(0, maxops + 1)):
            k = rng.choice(["values", "values", "dtype", "dtype", "append", "append", "extend", "extend",
                            "insert", "setitem", "setitem", "remove", "merge", "clone", "extend_prop"])
            strict = rng.random() < 0.5
            if k == "dtype":
                nd = self.pick_dtype(rng)
                ops.append({"k": k, "d": nd})
                if rng.random() < 0.5 and isinstance(nd, (str, dict)):
                    cls = dclass(nd)
            elif k in ("values", "extend"):
                op = {"k": k, "v": self.pick_value(rng, cls, 1)}
                if k == "extend":
                    op["strict"] = strict
                ops.append(op)
            elif k == "append":
                v = self.pick_value(rng, cls, 1 if rng.random() < 0.3 else 0)
                ops.append({"k": k, "v": v, "strict": strict})
            elif k == "insert":
                v = self.pick_value(rng, cls, 1 if rng.random() < 0.3 else 0)
                ops.append({"k": k, "i": rng.choice([-7, -2, -1, 0, 0, 1, 2, 3, 9]), "v": v, "strict": strict})
            elif k == "setitem":
                ops.append({"k": k, "i": rng.choice([-1, 0, 0, 0, 1, 1, 2, 3, 8]), "v": self.pick_value(rng, cls, 0)})
            elif k == "remove":
                ops.append({"k": k, "v": self.pick_value(rng, cls, 0), "stored": rng.random() < 0.6,
                            "pos": rng.randrange(0, 4)})
            elif k == "merge":
                ocls = cls if rng.random() < 0.7 else rng.choice(sorted(NATURAL))
                od = rng.choice([None] + [x for x in DTYPES_VALID if dclass(x) == ocls])
                ops.append({"k": k, "od": od, "ov": self.pick_value(rng, ocls, 1), "strict": strict})
            elif k == "extend_prop":
                od = rng.choice([x for x in DTYPES_VALID if dclass(x) == cls] or [None])
                ops.append({"k": k, "od": od, "ov": self.pick_value(rng, cls, 1),
                            "same_unit": rng.random() < 0.85})
            else:
                ops.append({"k": "clone"})
        return {"stream": "history", "ctor": ctor, "ops": ops}

    def generate(self, tier, rng):
        cases = []
        # 1. valid_type over names
        names = [d for d in self.all_dtypes()]
        names += sorted(set(n for n in dir(str) if not n.startswith("__")))[::3] + ["__len__", "__doc__"]
        names += [c.upper() for c in CANON] + [c.capitalize() for c in CANON] + ["%d-tuple" % k for k in (1, 9, 10, 293939)]
        for n in names:
            cases.append({"stream": "valid_type", "d": n})
        # 2. infer over values
        for v in ELEMS:
            cases.append({"stream": "infer", "v": v})
        # 3. get / set over dtype pool x value pool
        dts = [None] + DTYPES_VALID + DTYPES_VARIANT + ["", "tuple", "join", "x-tuple", "-2-tuple", "2-tuples"] + MEMBERS[2:4]
        vals = ELEMS if tier == "thorough" else None
        for d in dts:
            pool = vals if vals is not None else NATURAL[dclass(d)] + rng.sample(ELEMS, 25)
            for v in pool:
                cases.append({"stream": "get", "d": d, "v": v})
                cases.append({"stream": "set", "d": d, "v": v})
        # 4. single-call grid: constructor and values= / dtype= from a fresh Property
        for d in DTYPES_VALID + DTYPES_VARIANT[:3] + [None, "join"]:
            pool = NATURAL[dclass(d)] + (rng.sample(ELEMS + NESTED, 12) if tier == "quick" else ELEMS + NESTED)
            for v in pool:
                cases.append({"stream": "history", "ctor": {"d": d, "values": v, "value": None}, "ops": [
                    {"k": "values", "v": {"l": []}}, {"k": "values", "v": v}]})
        for d in DTYPES_VALID:
            for nd in DTYPES_VALID + ["Int", "join", None]:
                v = rng.choice(NATURAL[dclass(d)])
                cases.append({"stream": "history", "ctor": {"d": d, "values": {"l": [v, rng.choice(NATURAL[dclass(d)])]},
                                                            "value": None}, "ops": [{"k": "dtype", "d": nd}]})
        # 5. random histories
        n = 10000 if tier == "quick" else 500000
        for _ in range(n):
            cases.append(self.gen_history(rng, 15 if rng.random() < 0.5 else 6))
        # 6. implementation-only stream: floats / ints outside the modelled universe
        m = 150 if tier == "quick" else 5000
        for _ in range(m):
            x = rng.choice([rng.uniform(-1e6, 1e6), rng.random() * 10 ** rng.randrange(-30, 30), 0.1 + 0.2,
                            float(rng.randrange(10 ** 17, 10 ** 19)), 1e308, 5e-324])
            big = rng.randrange(10 ** 16, 10 ** 40)
            d = rng.choice(["float", "int", "string", None, "boolean"])
            cases.append({"stream": "history", "modelled": False,
                          "ctor": {"d": d, "values": {"l": [{"f": repr(x)}, rng.choice([big, repr(x), str(big)])]},
                                   "value": None},
                          "ops": [{"k": "dtype", "d": rng.choice(["string", "float", "int"])},
                                  {"k": "append", "v": {"f": repr(x)}, "strict": False},
                                  {"k": "dtype", "d": rng.choice(["string", "float", "int"])}]})
        return cases

    # -- implementation ------------------------------------------------------
    def impl(self, case):
        for _ in range(5):
            n0 = dt.datetime.now().replace(microsecond=0)
            obs = self.impl_once(case)
            n1 = dt.datetime.now().replace(microsecond=0)
            if n0 == n1:
                break
        obs["now"] = now_fields(n0)
        return obs

    @staticmethod
    def snap(p):
        return {"values": [enc(v) for v in p.values], "dtype": enc_dtype(p.dtype)}

    def check_object(self, p, where, fails):
        """clause 1 of the property on the current state of p"""
        d = enc_dtype(p.dtype)
        if not dtype_ok(d):
            fails.append("%s: dtype %r is not a valid odML type" % (where, d))
        vals = p.values
        if len(p) != len(vals):
            fails.append("%s: len(p) differs from len(p.values)" % where)
        for i, v in enumerate(vals):
            msg = value_conforms(v, d) if dtype_ok(d) else None
            if msg:
                fails.append("%s: %s" % (where, msg))
            if enc(p[i]) != enc(v):
                fails.append("%s: p[%d] differs from p.values[%d]" % (where, i, i))

    def impl_once(self, case):
        import odml
        from odml import dtypes
        st = case["stream"]
        if st == "valid_type":
            return {"r": bool(dtypes.valid_type(dec_dtype(case["d"])))}
        if st == "infer":
            return {"r": dtypes.infer_dtype(dec(case["v"]))}
        if st in ("get", "set"):
            fn = dtypes.get if st == "get" else dtypes.set
            try:
                return {"ok": enc(fn(dec(case["v"]), dec_dtype(case["d"])))}
            except Exception as exc:
                return {"raised": fw.exc_name(exc)}
        # history
        fails = []
        c = case["ctor"]
        kw = {"name": "p", "dtype": dec_dtype(c["d"])}
        if c["values"] is not None:
            kw["values"] = dec(c["values"])
        if c.get("value") is not None:
            kw["value"] = dec(c["value"])
        try:
            p = odml.Property(**kw)
        except Exception as exc:
            name = fw.exc_name(exc)
            if name != "ValueError":
                fails.append("constructor: unconvertible input raised %s, not ValueError" % name)
            return {"ctor": name, "trace": [], "fails": fails, "ops_model": []}
        trace = [dict(self.snap(p), outcome="ok")]
        self.check_object(p, "after the constructor", fails)
        ops_model = []
        for idx, op in enumerate(case["ops"]):
            before = self.snap(p)
            k = op["k"]
            where = "call %d (%s)" % (idx, k)
            mop = dict((a, b) for a, b in op.items() if a in ("k", "v", "i", "strict", "same_unit"))
            allowed = ("ValueError",)
            try:
                if k == "values":
                    p.values = dec(op["v"])
                elif k == "dtype":
                    allowed = ("ValueError", "AttributeError")
                    mop["d"] = model_dtype(op["d"])
                    p.dtype = dec_dtype(op["d"])
                elif k == "append":
                    p.append(dec(op["v"]), strict=op["strict"])
                elif k == "extend":
                    p.extend(dec(op["v"]), strict=op["strict"])
                elif k == "insert":
                    p.insert(op["i"], dec(op["v"]), strict=op["strict"])
                elif k == "setitem":
                    if op["i"] < 0 or op["i"] > len(before["values"]):
                        allowed = ("ValueError", "IndexError")
                    p[op["i"]] = dec(op["v"])
                elif k == "remove":
                    v = op["v"]
                    if op["stored"] and before["values"]:
                        v = before["values"][op["pos"] % len(before["values"])]
                    mop["v"] = v
                    p.remove(dec(v))
                elif k in ("merge", "extend_prop"):
                    try:
                        other = odml.Property(name="p", dtype=dec_dtype(op["od"]), values=dec(op["ov"]))
                    except Exception:
                        other = odml.Property(name="p")
                    if k == "extend_prop" and not op["same_unit"]:
                        other.unit = "mV"
                    mop["vals"] = [enc(v) for v in other.values]
                    mop["d"] = enc_dtype(other.dtype)
                    if k == "merge":
                        p.merge(other, strict=op["strict"])
                    else:
                        p.extend(other)
                elif k == "clone":
                    q = p.clone()
                    if self.snap(q) != before:
                        fails.append("%s: the clone has values/dtype %s, the original %s" % (where, self.snap(q), before))
                    if self.snap(p) != before:
                        fails.append("%s: cloning changed the original" % where)
                    p = q
                outc = "ok"
            except Exception as exc:
                outc = fw.exc_name(exc)
            after = self.snap(p)
            trace.append(dict(after, outcome=outc))
            ops_model.append(mop)
            # clause 2/3: a refusal is a ValueError and changes nothing
            if outc != "ok":
                if outc not in allowed:
                    fails.append("%s: refused with %s, not ValueError" % (where, outc))
                if after != before:
                    fails.append("%s: refused with %s but values/dtype changed from %s to %s"
                                 % (where, outc, before, after))
            elif k == "dtype":
                want = enc_dtype(dec_dtype(op["d"]))
                if op["d"] is not None and (after["dtype"] or "").lower() != want.lower():
                    fails.append("%s: accepted but the dtype is %r" % (where, after["dtype"]))
                if len(after["values"]) < len(before["values"]):
                    fails.append("%s: dtype change lost %d value(s)"
                                 % (where, len(before["values"]) - len(after["values"])))
            self.check_object(p, "after " + where, fails)
        # clause 4: normal form
        final = self.snap(p)
        d = p.dtype
        for i, v in enumerate(p.values):
            try:
                txt = dtypes.set(v, d)
                back = dtypes.get(txt, d)
                if enc(back) != enc(v):
                    fails.append("normal form: value %r -> text %r -> %r" % (v, txt, back))
                if type(v) is not float and txt is not None:
                    back2 = dtypes.get(str(txt), d)
                    if enc(back2) != enc(v):
                        fails.append("normal form: value %r -> str %r -> %r" % (v, str(txt), back2))
            except Exception as exc:
                fails.append("normal form: value %r does not survive value -> text -> value (%s)"
                             % (v, fw.exc_name(exc)))
        try:
            p.values = p.values
            if self.snap(p) != final:
                fails.append("normal form: assigning the Property its own values changed %s to %s"
                             % (final, self.snap(p)))
        except Exception as exc:
            fails.append("normal form: assigning the Property its own values raised %s (state %s)"
                         % (fw.exc_name(exc), final))
        return {"ctor": "ok", "trace": trace, "fails": fails, "ops_model": ops_model}

    # -- model ---------------------------------------------------------------
    def in_model(self, case):
        if case.get("modelled") is False:
            return False
        st = case["stream"]
        if st == "history":
            c = case["ctor"]
            vals = [c["values"], c.get("value")] + [op.get("v") for op in case["ops"]] + \
                   [op.get("ov") for op in case["ops"]]
            return all(self.deep_ok(v) for v in vals)
        if st in ("get", "set", "infer"):
            if st == "set" and isinstance(case["v"], dict) and "o" in case["v"]:
                return False       # ";".join(dict) iterates the keys of the opaque dict
            return self.deep_ok(case["v"])
        return True

    def deep_ok(self, e):
        if isinstance(e, dict) and ("l" in e or "tu" in e):
            return all(self.deep_ok(x) for x in e.get("l", e.get("tu")))
        return modelled_value(e)

    def model_requests(self, case, obs):
        if not self.in_model(case):
            return []
        st = case["stream"]
        P = {"p": "C05", "now": obs["now"]}
        if st == "valid_type":
            return [dict(P, op="valid_type", d=model_dtype(case["d"]))]
        if st == "infer":
            return [dict(P, op="infer", v=case["v"])]
        if st in ("get", "set"):
            d = model_dtype(case["d"])
            return [dict(P, op=st, v=case["v"], d=d)]
        c = case["ctor"]
        return [dict(P, op="history", ctor={"d": model_dtype(c["d"]), "values": c["values"],
                                            "value": c.get("value")},
                     ops=obs["ops_model"])]

    def compare(self, case, obs, answers):
        if not answers:
            return []
        a = answers[0]
        st = case["stream"]
        out = []
        if st in ("valid_type", "infer"):
            if a != obs["r"]:
                out.append("%s: model %r, implementation %r" % (st, a, obs["r"]))
        elif st in ("get", "set"):
            if ("ok" in a) != ("ok" in obs):
                out.append("%s(%r, %r): model %s, implementation %s" % (st, case["v"], case["d"], a, obs))
            elif "ok" in a and a["ok"] != obs["ok"]:
                out.append("%s(%r, %r): model %s, implementation %s" % (st, case["v"], case["d"], a["ok"], obs["ok"]))
        else:
            if out_class(a["ctor"]) != out_class(obs["ctor"]):
                out.append("constructor: model %s, implementation %s" % (a["ctor"], obs["ctor"]))
            elif len(a["trace"]) != len(obs["trace"]):
                out.append("trace lengths differ: model %d, implementation %d" % (len(a["trace"]), len(obs["trace"])))
            else:
                for i, (m, r) in enumerate(zip(a["trace"], obs["trace"])):
                    if out_class(m["outcome"]) != out_class(r["outcome"]) or m["values"] != r["values"] \
                            or m["dtype"] != r["dtype"]:
                        out.append("step %d (%s): model %s, implementation %s"
                                   % (i, "ctor" if i == 0 else case["ops"][i - 1]["k"], m, r))
                        break
        return out

    # -- oracle --------------------------------------------------------------
    def oracle(self, case, obs):
        if "harness_exception" in obs:
            return []
        st = case["stream"]
        out = []
        if st == "valid_type":
            d = case["d"]
            name = d.get("member", 5) if isinstance(d, dict) else d
            want = name is None or (isinstance(name, str) and dtype_ok(name))
            if obs["r"] != want:
                out.append("valid_type(%r) is %s" % (name, obs["r"]))
        elif st == "infer":
            if obs["r"] not in CANON:
                out.append("infer_dtype returned %r, not an odML type" % (obs["r"],))
        elif st == "history":
            out.extend(obs.get("fails", []))
        return out

    def finding_key(self, case, obs, failure):
        if "tuple-none: value None stored in a" in failure:
            return "C05-tuple-empty-item-stored-as-none"
        return None

    def tag(self, case, obs):
        st = case["stream"]
        if st != "history":
            return (st, st in ("get", "set") and "ok" in obs)
        if obs.get("ctor") != "ok":
            return ("history:ctor-refused", False)
        tr = obs.get("trace", [])[1:]
        acc = any(t["outcome"] == "ok" and t["values"] for t in tr)
        ref = any(t["outcome"] != "ok" for t in tr)
        chg = any(a["dtype"] != b["dtype"] for a, b in zip(obs["trace"], tr))
        name = "history:%s" % dclass(case["ctor"]["d"])
        return (name + (":refusal" if ref else ""), acc and (ref or chg))


if __name__ == "__main__":
    sys.exit(fw.main(C05(), sys.argv[1:]))
