# -*- coding: utf-8 -*-
"""
C05 - Property values always conform to the Property's dtype, in normal form.

(see design.d/C05.md, "Strengthening after seeded round 3", for the streams marked 3x / 4x / 5x)

Tie between lean/OdmlModel/Model/DTypes.lean (+ Val, Py/Num, Py/Time) and /repo:
  * dtypes.valid_type / infer_dtype / get / set tabulated over the dtype-name pool x value pool
  * random histories  Property(...) ; values= / dtype= / append / extend / insert / [i]= /
    remove / merge / clone, strict on and off, observed after every call
plus the property restated over the public API (oracle), independent of the model.
"""
import array
import collections
import datetime as dt
import decimal
import enum
import fractions
import re
import sys

import framework as fw

CANON = ["string", "text", "int", "float", "url", "datetime", "date", "time", "boolean", "person"]
STR_CLASS = ("string", "text", "url", "person")
TUPLE_RE = re.compile(r"[1-9][0-9]*-tuple")


# ----------------------------------------------------------------------------- values outside the model
# (strengthening after seeded round 3) Python values the API accepts but the Lean value universe
# does not contain: objects that carry a time zone, instances of subclasses of the accepted types,
# the other members of the numeric tower, bytes, text with non-ASCII digits / Unicode white space /
# lone surrogates, iterables that are neither list nor tuple, index arguments that are not small
# ints. A case that contains one of them is oracle-only (model_requests returns []).
class XInt(int):
    pass


class XFloat(float):
    pass


class XStr(str):
    pass


class XDate(dt.date):
    pass


class XTime(dt.time):
    pass


class XDateTime(dt.datetime):
    pass


class XIntEnum(enum.IntEnum):
    zero = 0
    three = 3


class XStrEnum(str, enum.Enum):
    word = "word"


class XIndex(object):
    def __index__(self):
        return 1


class XTz(dt.tzinfo):
    """a hand-written tzinfo (what pytz / dateutil objects look like to the library)"""

    def utcoffset(self, _when):
        return dt.timedelta(hours=-5, minutes=-30)

    def dst(self, _when):
        return None

    def tzname(self, _when):
        return "X"


SUBCLASSES = (XInt, XFloat, XStr, XDate, XTime, XDateTime)


def _tz(hours, minutes=0, seconds=0, micro=0):
    return dt.timezone(dt.timedelta(hours=hours, minutes=minutes, seconds=seconds, microseconds=micro))


def _zone(name):
    from zoneinfo import ZoneInfo
    return ZoneInfo(name)


UTC = dt.timezone.utc
EXOTIC = {
    # ---- time: with a time zone (fixed offsets, named zone, hand-written tzinfo), fold, subclass, max
    "t_utc": lambda: dt.time(23, 59, 59, tzinfo=UTC),
    "t_p2_us": lambda: dt.time(10, 30, 15, 123456, tzinfo=_tz(2)),
    "t_m0530": lambda: dt.time(0, 0, 0, tzinfo=_tz(-5, -30)),
    "t_oddoff": lambda: dt.time(7, 8, 9, tzinfo=_tz(0, 0, 1, 5)),
    "t_xtz": lambda: dt.time(1, 2, 3, tzinfo=XTz()),
    "t_zone": lambda: dt.time(4, 5, 6, tzinfo=_zone("Europe/Berlin")),
    "t_fold": lambda: dt.time(1, 2, 3, fold=1),
    "t_max": lambda: dt.time.max,
    "t_sub": lambda: XTime(1, 2, 3, 4),
    "t_sub_aware": lambda: XTime(1, 2, 3, tzinfo=UTC),
    "t_arabic": lambda: u"\u0661\u0662:\u0663\u0660:\u0664\u0665",
    "t_text_aware": lambda: "10:30:15+02:00",
    # ---- datetime
    "dt_utc": lambda: dt.datetime(2020, 1, 5, 12, 30, 45, tzinfo=UTC),
    "dt_p2_us": lambda: dt.datetime(2020, 1, 5, 12, 30, 45, 123456, tzinfo=_tz(2)),
    "dt_m0530": lambda: dt.datetime(2020, 12, 31, 23, 59, 59, tzinfo=_tz(-5, -30)),
    "dt_xtz": lambda: dt.datetime(2020, 1, 5, 1, 2, 3, tzinfo=XTz()),
    "dt_zone": lambda: dt.datetime(2020, 7, 5, 1, 2, 3, tzinfo=_zone("Europe/Berlin")),
    "dt_year5_aware": lambda: dt.datetime(5, 1, 2, 3, 4, 5, 6, tzinfo=UTC),
    "dt_fold": lambda: dt.datetime(2020, 10, 25, 2, 30, 0, fold=1),
    "dt_max": lambda: dt.datetime.max,
    "dt_min": lambda: dt.datetime.min,
    "dt_sub": lambda: XDateTime(2020, 1, 5, 1, 2, 3, 7),
    "dt_sub_aware": lambda: XDateTime(2020, 1, 5, 1, 2, 3, tzinfo=_tz(9)),
    "dt_text_aware": lambda: "2020-01-05 12:30:45+00:00",
    "dt_text_iso_z": lambda: "2020-01-05T12:30:45Z",
    # ---- date
    "d_min": lambda: dt.date.min,
    "d_max": lambda: dt.date.max,
    "d_sub": lambda: XDate(2020, 2, 29),
    "d_arabic": lambda: u"\u0662\u0660\u0662\u0660-\u0660\u0661-\u0660\u0665",
    "d_ls": lambda: u"2020-01-05\u2028",
    # ---- int
    "i_sub": lambda: XInt(3),
    "i_sub0": lambda: XInt(0),
    "i_enum": lambda: XIntEnum.three,
    "i_enum0": lambda: XIntEnum.zero,
    "i_dec": lambda: decimal.Decimal("1.5"),
    "i_dec_nan": lambda: decimal.Decimal("NaN"),
    "i_dec_inf": lambda: decimal.Decimal("-Infinity"),
    "i_frac": lambda: fractions.Fraction(-7, 2),
    "i_complex": lambda: 1 + 2j,
    "i_bytes": lambda: b"12",
    "i_bytearray": lambda: bytearray(b"12"),
    "i_index": lambda: XIndex(),
    "i_arabic": lambda: u"\u0663",
    "i_fullwidth": lambda: u"\uff11\uff12",
    "i_ls": lambda: u" 12\u2028",
    "i_nel": lambda: u"\x8512\x85",
    "i_nbsp": lambda: u"\xa07",
    "i_big": lambda: 10 ** 400,
    "i_negbig": lambda: -10 ** 400,
    "i_bigstr": lambda: "1" * 400,
    "i_arabic_float": lambda: u"\u0661.\u0665",
    "i_hex": lambda: "0x10",
    "i_plus": lambda: "+5",
    # ---- float
    "f_sub": lambda: XFloat(1.5),
    "f_sub_nan": lambda: XFloat("nan"),
    "f_dec": lambda: decimal.Decimal("2.25"),
    "f_frac": lambda: fractions.Fraction(3, 2),
    "f_big": lambda: 10 ** 400,
    "f_bytes": lambda: b"1.5",
    "f_infinity": lambda: "Infinity",
    "f_negnan": lambda: "-NaN",
    "f_under": lambda: "1_0.5",
    "f_tiny": lambda: "1e-400",
    "f_hugeexp": lambda: "1e400",
    "f_minus0": lambda: "-0",
    "f_17digits": lambda: 0.1 + 0.2,
    "f_denorm": lambda: 5e-324,
    # ---- str
    "s_sub": lambda: XStr("abc"),
    "s_sub_empty": lambda: XStr(""),
    "s_enum": lambda: XStrEnum.word,
    "s_bytes": lambda: b"ab",
    "s_surrogate": lambda: u"a\ud800b",
    "s_nel": lambda: u"a\x85b",
    "s_ls": lambda: u"a\u2028b",
    "s_ls_only": lambda: u"\u2028",
    "s_nbsp": lambda: u"\xa0x\xa0",
    "s_nul": lambda: u"a\x00b",
    "s_astral": lambda: u"\U0001f600",
    "s_combining": lambda: u"e\u0301",
    "s_rtl": lambda: u"\u200fabc",
    "s_crlf": lambda: "a\r\nb",
    "s_long": lambda: "x" * 5000,
    "s_bracket_ls": lambda: u"[a,\u2028b]",
    "s_cjk": lambda: u"\u6f22\u5b57",
    # ---- boolean
    "b_xint1": lambda: XInt(1),
    "b_xint0": lambda: XInt(0),
    "b_xstr_true": lambda: XStr("True"),
    "b_xstr_f": lambda: XStr("f"),
    "b_dec1": lambda: decimal.Decimal(1),
    "b_complex1": lambda: 1 + 0j,
    "b_fullwidth": lambda: u"\uff54",
    "b_bytes": lambda: b"true",
    "b_dotted_i": lambda: u"\u0130",
    # ---- n-tuple values (2 items unless said otherwise)
    "tu_xstr_items": lambda: (XStr("a"), 1),
    "tu_semicolon": lambda: ("a;b", "c"),
    "tu_unicode": lambda: u"(\xe9;\u6f22)",
    "tu_ls": lambda: u"(a\u2028;\x85b)",
    "tu_none_item": lambda: ["a", None],
    "tu_bytes": lambda: [b"a", b"b"],
    "tu_empty_items": lambda: ("", ""),
    "tu_paren_items": lambda: ("(a", "b)"),
    "tu_deep": lambda: [["a", ["b"]]],
    "tu_xstr": lambda: XStr("(a;b)"),
    "tu_aware": lambda: (dt.time(1, 2, 3, tzinfo=UTC), dt.date(2020, 1, 5)),
    "tu_10_list": lambda: [str(k) for k in range(10)],
    "tu_10_text": lambda: "(" + ";".join(str(k) for k in range(10)) + ")",
    "tu_12_text": lambda: "(" + "; ".join("v%d" % k for k in range(12)) + ")",
    # ---- index arguments
    "ix_index": lambda: XIndex(),
    "ix_xint": lambda: XInt(1),
}
X_NATURAL = {
    "int": [n for n in sorted(EXOTIC) if n.startswith("i_")],
    "float": [n for n in sorted(EXOTIC) if n.startswith("f_")] + ["i_dec", "i_frac", "i_sub", "i_enum"],
    "boolean": [n for n in sorted(EXOTIC) if n.startswith("b_")] + ["i_enum0", "f_sub"],
    "str": [n for n in sorted(EXOTIC) if n.startswith("s_")] + ["t_utc", "i_complex", "i_dec", "dt_p2_us"],
    "date": [n for n in sorted(EXOTIC) if n.startswith("d_")] + ["dt_utc", "dt_sub"],
    "time": [n for n in sorted(EXOTIC) if n.startswith("t_")] + ["dt_utc"],
    "datetime": [n for n in sorted(EXOTIC) if n.startswith("dt_")] + ["d_sub", "t_utc"],
    "tuple": [n for n in sorted(EXOTIC) if n.startswith("tu_")] + ["s_sub", "s_ls"],
}
X_ALL = sorted(n for n in EXOTIC if not n.startswith("ix_"))
# iterables that are neither list nor tuple (what _convert_value_input turns into a list)
ITER_KINDS = ["gen", "iter", "set", "frozenset", "dict", "keys", "deque", "map", "range", "bytes", "array"]
# index / strict arguments of other shapes (JSON carries them as they are, except the two objects)
X_INDEX = [True, False, 1.0, 0.5, -1.0, "0", "1", None, 10 ** 30, -10 ** 30, 2 ** 31, -2 ** 63 - 1,
           {"x": "ix_index"}, {"x": "ix_xint"}]
X_STRICT = [True, False, 0, 1, None, "", "no", 2]


def unmodelled_enc(e):
    """Does the encoding of a stored value contain something the driver cannot read (a time
    zone, an object of a class enc does not know)? Never the case on a modelled input unless the
    implementation stores what it should not - which the oracle reports."""
    if isinstance(e, dict):
        if "tz" in e or "weird" in e:
            return True
        return any(unmodelled_enc(x) for x in e.get("l", e.get("tu", [])))
    if isinstance(e, list):
        return any(unmodelled_enc(x) for x in e)
    return False


def std_index(i):
    return type(i) is int and abs(i) < 2 ** 31


def tz_desc(v):
    try:
        off = v.utcoffset()
        off = None if off is None else off.total_seconds()
    except Exception as exc:
        off = type(exc).__name__
    return [type(v.tzinfo).__name__, off]


# ----------------------------------------------------------------------------- encodings
def enc(v):
    """Python value -> JSON encoding shared with the Lean driver. A time zone is part of the
    encoding (the model has none, so such a value never equals a model value); `fold` and the
    exact class of a subclass instance are not (Python's == ignores them too)."""
    if v is None or isinstance(v, (bool, str)):
        return v
    if isinstance(v, enum.Enum):
        return enc(v.value)
    if isinstance(v, int):
        return v
    if isinstance(v, float):
        return {"f": repr(v)}
    if isinstance(v, dt.datetime):
        e = {"dt": [v.year, v.month, v.day, v.hour, v.minute, v.second, v.microsecond]}
        if v.tzinfo is not None:
            e["tz"] = tz_desc(v)
        return e
    if isinstance(v, dt.date):
        return {"d": [v.year, v.month, v.day]}
    if isinstance(v, dt.time):
        e = {"t": [v.hour, v.minute, v.second, v.microsecond]}
        if v.tzinfo is not None:
            e["tz"] = tz_desc(v)
        return e
    if isinstance(v, dict):
        return {"o": str(v)}
    if isinstance(v, tuple):
        return {"tu": [enc(x) for x in v]}
    if isinstance(v, list):
        return {"l": [enc(x) for x in v]}
    return {"weird": repr(v)}


def dec(e):
    """JSON encoding -> a fresh Python value (never shares objects between calls)."""
    if e is None or isinstance(e, (bool, int, str, float)):
        return e
    if "x" in e:
        return EXOTIC[e["x"]]()
    if "it" in e:
        return dec_iterable(e["it"], [dec(x) for x in e["items"]])
    if "f" in e:
        return float(e["f"])
    if "dt" in e:
        return dt.datetime(*e["dt"])
    if "d" in e:
        return dt.date(*e["d"])
    if "t" in e:
        return dt.time(*e["t"])
    if "o" in e:
        return {} if e["o"] == "{}" else {"k": 1}
    if "tu" in e:
        return tuple(dec(x) for x in e["tu"])
    if "l" in e:
        return [dec(x) for x in e["l"]]
    raise ValueError(e)


def dec_iterable(kind, items):
    """a fresh iterable of the given kind over the items (hashable items only for set-like kinds)"""
    if kind == "gen":
        return (x for x in items)
    if kind == "iter":
        return iter(items)
    if kind == "set":
        return set(items)
    if kind == "frozenset":
        return frozenset(items)
    if kind == "dict":
        return dict((x, 1) for x in items)
    if kind == "keys":
        return dict((x, 1) for x in items).keys()
    if kind == "deque":
        return collections.deque(items)
    if kind == "map":
        return map(lambda x: x, items)
    if kind == "range":
        return range(len(items))
    if kind == "bytes":
        return bytes(bytearray(48 + (k % 10) for k in range(len(items))))
    if kind == "array":
        return array.array("d", [float(k) + 0.5 for k in range(len(items))])
    raise ValueError(kind)


def dec_dtype(d):
    """dtype argument: None, a str, {"member": name} (DType member), {"substr": name} (instance of
    a str subclass), {"bytes": name}, {"other": 1} (non-str)."""
    if d is None or isinstance(d, str):
        return d
    if "member" in d:
        from odml.dtypes import DType
        return DType[d["member"]]
    if "substr" in d:
        return XStr(d["substr"])
    if "bytes" in d:
        return d["bytes"].encode("ascii")
    return 5


def model_dtype(d):
    if isinstance(d, dict) and "member" in d:
        return d["member"]
    if isinstance(d, dict) and "substr" in d:
        return d["substr"]
    if isinstance(d, dict):
        return {"other": True}
    return d


def enc_dtype(d):
    if isinstance(d, enum.Enum):
        return d.value
    if d is None or isinstance(d, str):
        return d
    return {"weird": repr(d)}


def out_class(name):
    return name if name in ("ok", "ValueError") else "other"


def now_fields(n):
    return [n.year, n.month, n.day, n.hour, n.minute, n.second]


# ----------------------------------------------------------------------------- pools
DTYPES_VALID = CANON + ["str", "bool", "1-tuple", "2-tuple", "3-tuple"]
DTYPES_VARIANT = ["Int", "STRING", "Boolean", "DATE", "Float", "2-TUPLE", "Str", "BOOL", "DateTime"]
DTYPES_BAD = ["join", "upper", "integer", "", "tuple", "0-tuple", "02-tuple", "x-tuple", "2-tuple\n",
              "2-tuples", "name", "value", "-2-tuple", "strip", "__class__", "mro", "in t", "list"]
MEMBERS = [{"member": m} for m in CANON]

STRS = ["", "a", "abc", "1", "0", "-7", " 12 ", "1_000", "007", "1.5", "1e3", "2.7", "-0.5", "inf",
        "nan", "1e", "--1", ".5", "5.", "true", "True", "TRUE", "t", "F", "false", "yes", "T ",
        "2020-01-05", "2020-1-5", "2020-02-30", "2020-02-29", "2021-02-29", "2020-13-01",
        "0005-01-02", "2020-01- 5", "2020-01-05 ", "20-01-05",
        "12:30:45", "1:2:3", "24:00:00", "23:59:60", "12:30", "12:30:45.5",
        "2020-01-05 12:30:45", "2020-01-05  1:2:3", "2020-01-05T12:30:45", "0005-01-02 03:04:05",
        "2020-01-05\t12:30:45", "2020-01- 5 12:30:45", "2020-01-05 12:30:45 ",
        "(a;b)", "(a; b)", " ( a ; b ) ", "(a;b;c)", "(a)", "()", "(a;b", "a;b", "(;)", "(a;(b))",
        "[a, b]", "[1,2,3]", "[]", "[", "]", "[(a;b)]", "[(a;b),(c;d)]", "[ 1 , 2 ]", "[2020-01-05]",
        "a\nb", "x,y", "é", "a'b", "a\"b", "tab\there", " ", "None", " x ", "back\\slash"]
ATOMS = [None, True, False, 0, 1, -1, 2, 42, 10 ** 20, -10 ** 12,
         {"f": "0.0"}, {"f": "-0.0"}, {"f": "1.0"}, {"f": "1.5"}, {"f": "-2.25"}, {"f": "1000.0"},
         {"f": "0.001"}, {"f": "inf"}, {"f": "-inf"}, {"f": "nan"}, {"f": "1e+16"}, {"f": "1e-05"},
         {"f": "123456.789"}, {"f": "2.0"},
         {"d": [2020, 1, 5]}, {"d": [5, 1, 2]}, {"d": [2020, 2, 29]}, {"d": [9999, 12, 31]},
         {"t": [12, 30, 45, 0]}, {"t": [1, 2, 3, 4]}, {"t": [0, 0, 0, 0]}, {"t": [23, 59, 59, 999999]},
         {"dt": [2020, 1, 5, 12, 30, 45, 0]}, {"dt": [2020, 1, 5, 12, 30, 45, 123456]},
         {"dt": [5, 1, 2, 3, 4, 5, 0]}, {"dt": [2020, 1, 5, 0, 0, 0, 0]},
         {"o": "{}"}, {"o": "{'k': 1}"}] + STRS
SEQS = [{"l": []}, {"tu": []}, {"l": [1, 2]}, {"l": ["a", "b"]}, {"tu": ["a", "b"]}, {"l": ["a", "b", "c"]},
        {"l": [1, "a"]}, {"tu": [1]}, {"l": [None]}, {"l": [""]}, {"l": ["", "x"]}, {"l": [" a ", "b;c"]},
        {"l": [{"f": "1.5"}, 2]}, {"l": [{"d": [2020, 1, 5]}, "x"]}, {"l": [True, False]},
        {"l": ["a'b", "c\"d", "e\nf"]}, {"tu": [{"t": [1, 2, 3, 0]}, {"dt": [2020, 1, 5, 0, 0, 0, 0]}]}]
ELEMS = ATOMS + SEQS
NESTED = [{"l": [{"l": ["a", "b"]}, {"l": ["c", "d"]}]}, {"l": [{"l": ["a", "b"]}, {"l": ["c"]}]},
          {"l": [{"tu": ["a", "b"]}]}, {"l": [{"l": [1, 2]}]}, {"l": ["(a;b)", {"l": ["c", "d"]}]},
          {"l": ["(a;b)", 5]}, {"l": [5]}, {"l": [0]}, {"l": ["(a;b)", ""]}, {"l": ["(a;b)", None]},
          {"tu": ["(a;b)", "(c; d)"]}, {"l": ["[(a;b)]"]}, {"l": ["[(a;b),(c;d)]"]},
          {"l": [{"l": ["a", "b", "c"]}, {"l": [1, 2, 3]}]}, {"l": ["(1;2)", "(3;4)", "(5)"]}]

NATURAL = {
    "int": [0, 1, -1, 42, 7, "3", " 12 ", "-7", "1.5", "1e3", True, {"f": "2.0"}, {"f": "-2.25"}, None, ""],
    "float": [{"f": "1.5"}, {"f": "0.0"}, {"f": "-2.25"}, 3, "2.7", "1e3", ".5", True, None, "", {"f": "nan"}],
    "boolean": [True, False, "true", "False", "T", "f", "1", "0", 1, 0, {"f": "1.0"}, None, ""],
    "str": ["a", "abc", "x,y", "a\nb", "1", "", " ", "é", "[a, b]", 5, {"f": "1.5"}, True, None,
            {"d": [2020, 1, 5]}, {"l": [1, "a"]}, {"o": "{'k': 1}"}],
    "date": [{"d": [2020, 1, 5]}, {"d": [5, 1, 2]}, "2020-01-05", "2020-1-5", "0005-01-02", "2020-02-29", None,
             "", {"dt": [2020, 1, 5, 0, 0, 0, 0]}],
    "time": [{"t": [12, 30, 45, 0]}, {"t": [1, 2, 3, 4]}, "12:30:45", "1:2:3", "00:00:00", None, ""],
    "datetime": [{"dt": [2020, 1, 5, 12, 30, 45, 0]}, {"dt": [2020, 1, 5, 12, 30, 45, 123456]},
                 {"dt": [5, 1, 2, 3, 4, 5, 0]}, "2020-01-05 12:30:45", "2020-01-05  1:2:3",
                 "0005-01-02 03:04:05", None, ""],
    "tuple": ["(a;b)", "(a; b)", " ( c ; d ) ", "(1;2)", "(x;y;z)", "(a)", {"l": ["a", "b"]}, {"tu": ["c", "d"]},
              {"l": [1, 2]}, {"l": ["x", "y", "z"]}, "", None, "(a;b", 5],
}


def dclass(d):
    """dtype (encoded) -> key of NATURAL"""
    if isinstance(d, dict):
        d = d.get("member")
    if not isinstance(d, str):
        return "str"
    n = d.lower()
    n = {"str": "string", "bool": "boolean"}.get(n, n)
    if n.endswith("-tuple"):
        return "tuple"
    if n in ("int", "float", "boolean", "date", "time", "datetime"):
        return n
    return "str"


def modelled_value(e):
    """Inside the universe the Lean model is exact for? (see DTypes.lean / Num.lean headers)"""
    if isinstance(e, str):
        return all(ord(c) < 0x250 for c in e) and not any(c.isdigit() and not c.isascii() for c in e)
    if isinstance(e, bool) or e is None:
        return True
    if isinstance(e, int):
        return abs(e) < 10 ** 15 or e in (10 ** 20, -10 ** 12)
    if isinstance(e, float):
        return False
    if isinstance(e, dict):
        if "x" in e or "it" in e:
            return False
        if "f" in e:
            x = float(e["f"])
            if x != x or x in (float("inf"), float("-inf")):
                return True
            digits = repr(x).replace("-", "").replace(".", "").split("e")[0].strip("0")
            return len(digits) <= 15 and (x == 0 or 1e-200 < abs(x) < 1e200)
        for k in ("l", "tu"):
            if k in e:
                return all(modelled_value(x) for x in e[k])
    return True


# ----------------------------------------------------------------------------- oracle helpers
def norm_name(d):
    n = d.lower()
    return {"str": "string", "bool": "boolean"}.get(n, n)


def dtype_ok(d):
    """Is the (encoded) stored dtype a valid odML type? (names of the ten types, the documented
    shorthands str/bool, any case; n-tuple)"""
    if d is None:
        return True
    if not isinstance(d, str):
        return False
    n = norm_name(d)
    return n in CANON or TUPLE_RE.fullmatch(n) is not None


def value_conforms(v, d):
    """v: real Python value, d: encoded dtype. -> None or a complaint."""
    if d is None:
        return "a value is stored but the dtype is None"
    n = norm_name(d)

    if n == "int":
        ok = type(v) is int
    elif n == "float":
        ok = type(v) is float
    elif n == "boolean":
        ok = type(v) is bool
    elif n in STR_CLASS:
        ok = type(v) is str
    elif n == "date":
        ok = type(v) is dt.date
    elif n == "time":
        ok = type(v) is dt.time and v.microsecond == 0
    elif n == "datetime":
        ok = type(v) is dt.datetime and v.microsecond == 0
        if not ok and isinstance(v, dt.datetime) and v.microsecond == 0 and v.tzinfo is None:
            # every converter hands out the exact type for an instance of a subclass
            # (datetime_get since fix 664cdf1; this was finding C05-datetime-subclass-kept)
            return "datetime-subclass: value %r of class %s (a subclass of datetime) is stored as it is in a " \
                   "datetime Property" % (v, type(v).__name__)
    elif TUPLE_RE.fullmatch(n):
        cnt = int(n[:-6])
        if v is None:
            return "tuple-none: value None stored in a %s Property" % n
        ok = type(v) is list and len(v) == cnt and all(type(x) is str for x in v)
    else:
        return None        # invalid dtype is reported separately
    return None if ok else "value %r is not of the type of dtype %r" % (v, d)


class C05(fw.Check):
    prop = "C05"
    lean_targets = ["OdmlModel.Props.C05"]
    obligations = ["C05." + t for t in [
        "get_conforms", "conforms_step", "conforms_run", "conforms_ctor", "values_imply_dtype",
        "refused_unchanged", "refused_valueerror", "dtype_all_or_nothing", "normal_form_get",
        "normal_form_assign", "clone_same", "normal_form_assign_tuple", "normal_form_reachable",
        "text_roundtrip", "str_roundtrip_nonfloat",
        "tuple_none_only_from_falsy", "conforms_strict_partial", "tuple_none_counterexample",
        "valid_type_exact", "method_names_invalid", "empty_input_clears"]]
    trusted_base = [
        "Lean 4.33.0 kernel; axioms propext, Classical.choice, Quot.sound only (audited per theorem)",
        "hand-written model lean/OdmlModel/Model/{DTypes,Val}.lean, Py/{Num,Time,Str}.lean, tied to "
        "/repo by this correspondence run",
        "harness/extract_tables.py (DType members, _dtype_map, special_dtypes regenerated every run)",
        "Driver/*.lean JSON glue; harness/framework.py, harness/c05.py",
    ]
    assumptions = [
        "floats are modelled as decimals: exact for <= 15 significant digits inside the double range; "
        "other floats only go through the implementation-level oracle",
        "repr(float) -> float() is the identity (CPython contract), used by text_roundtrip for floats",
        "only ASCII digits / ASCII case mapping are modelled; str() of nested containers is modelled "
        "for two levels; time zones are not modelled",
        "datetime.now() is read before and after each implementation run and passed to the model",
    ]
    rule = ("tabulation of dtypes.valid_type/infer_dtype/get/set over the dtype-name pool (canonical, "
            "shorthands, case variants, DType members, str method names, near misses) x value pool "
            "(native values, text forms, near misses, None/empty, lists, tuples, dicts, bracketed "
            "strings, tuple syntax); random histories of <= 15 calls (constructor, values=, dtype=, "
            "append, extend, insert, item assignment, remove, merge, clone; strict on/off), 70% of "
            "the inputs natural for the current dtype. A history is non-trivial when at least one "
            "call after the constructor was accepted with values stored and at least one was "
            "refused or changed the dtype; distinct = distinct canonical JSON of the case. "
            "Since seeded round 3 also (oracle-only where the model has no such value): values "
            "outside the model - time / datetime objects with a time zone (fixed offset, named "
            "zone, hand-written tzinfo), fold, min / max, instances of subclasses of int / float / "
            "str / date / time / datetime, Decimal / Fraction / complex / bytes / enum members, "
            "non-ASCII digits, Unicode white space, lone surrogates, NUL - through the converters "
            "and through every entry point (constructor, values=, value=, append, extend, insert, "
            "item assignment, merge directly / through Section.merge / through a link, extend by a "
            "Property, clone, dtype change); iterables that are neither list nor tuple; index and "
            "strict arguments of other shapes; dtype names given as str-subclass instances, bytes, "
            "with white space / non-ASCII letters; 10- and 12-tuples; lists of ten and more values; "
            "Properties attached to a Section and with a values cardinality; the same source "
            "Property merged twice; clone and original both kept; the caller changing the list it "
            "passed in; text round trip after every call incl. value_str; final state saved to XML / "
            "JSON / YAML text and loaded again (non-text dtypes).")

    # -- generation ----------------------------------------------------------
    def all_dtypes(self):
        return [None] + DTYPES_VALID + DTYPES_VARIANT + DTYPES_BAD + MEMBERS + [{"other": 1}]

    def pick_value(self, rng, cls, level, x=False):
        """level 0: an element (atom or flat list) ; 1: a caller input (may be a list of elements).
        x: also draw from the values outside the model (EXOTIC) and wrap in other iterables."""
        r = rng.random()
        if x and r < 0.35:
            v = {"x": rng.choice(X_NATURAL[cls])}
        elif x and r < 0.45:
            v = {"x": rng.choice(X_ALL)}
        elif r < 0.6:
            v = rng.choice(NATURAL[cls])
        elif r < 0.8:
            v = rng.choice(ELEMS)
        else:
            v = rng.choice(NATURAL[rng.choice(sorted(NATURAL))])
        if level == 0:
            return v
        r = rng.random()
        if r < 0.45:
            return v
        if r < 0.55 and cls == "tuple":
            return rng.choice(NESTED)
        if r < 0.6:
            return rng.choice(NESTED + SEQS)
        k = rng.choice([0, 1, 2, 2, 3, 4])
        items = [self.pick_value(rng, cls, 0, x) if rng.random() < 0.85 else rng.choice(ELEMS) for _ in range(k)]
        if x and rng.random() < 0.3:
            kind = rng.choice(ITER_KINDS)
            if kind in ("set", "frozenset", "dict", "keys"):
                # hashable items only (no lists, no dicts); sets of str are ordered by the hash
                # seed of the process - the oracle never depends on the order
                items = [i for i in items if not (isinstance(i, dict) and ("l" in i or "o" in i or "it" in i
                                                                          or i.get("x", "").startswith("tu_")
                                                                          or i.get("x") == "i_bytearray"))]
            return {"it": kind, "items": items}
        return {rng.choice(["l", "l", "l", "tu"]): items}

    def pick_dtype(self, rng, x=False):
        r = rng.random()
        if x and r < 0.12:
            return rng.choice(["10-tuple", "12-tuple", {"substr": "int"}, {"substr": "Time"}, {"substr": "2-tuple"},
                               {"bytes": "int"}, u"İnt", u"ſtring", u"٢-tuple", u"int ",
                               " time", "datetime ", "date\x00"])
        if r < 0.7:
            return rng.choice(DTYPES_VALID + [None, None])
        if r < 0.8:
            return rng.choice(MEMBERS)
        if r < 0.9:
            return rng.choice(DTYPES_VARIANT)
        return rng.choice(DTYPES_BAD + [{"other": 1}])

    def gen_history(self, rng, maxops, x=False, long=False):
        """x: values / dtype / index / strict arguments of the shapes the model does not have
        (the case is then oracle-only). long: ten and more values, indices around the tenth."""
        d = self.pick_dtype(rng, x)
        cls = dclass(d)
        if d is None:
            cls = rng.choice(sorted(NATURAL))
        ctor = {"d": d, "values": self.pick_value(rng, cls, 1, x) if rng.random() < 0.85 else None,
                "value": self.pick_value(rng, cls, 1, x) if rng.random() < 0.1 else None}
        if long:
            ctor["values"] = {"l": [self.pick_value(rng, cls, 0) if rng.random() < 0.1 else rng.choice(NATURAL[cls])
                                    for _ in range(rng.randrange(9, 14))]}
        # configuration of the object: attached to a Section or free, with a values cardinality or
        # without (neither may change what is stored)
        r = rng.random()
        if r < 0.3:
            ctor["cfg"] = {"parent": rng.random() < 0.7,
                           "card": rng.choice([None, None, 1, [1, 2], [0, 0], [None, 10], [12, None]])}
        ops = []
        for _ in range(rng.randrange(0, maxops + 1)):
            k = rng.choice(["values", "values", "dtype", "dtype", "append", "append", "extend", "extend",
                            "insert", "setitem", "setitem", "remove", "merge", "clone", "extend_prop",
                            "value_alias" if rng.random() < 0.5 else "values"])
            strict = rng.random() < 0.5
            if x and rng.random() < 0.15:
                strict = rng.choice(X_STRICT)
            if k == "dtype":
                nd = self.pick_dtype(rng, x)
                ops.append({"k": k, "d": nd})
                if rng.random() < 0.5 and isinstance(nd, (str, dict)):
                    cls = dclass(nd)
            elif k in ("values", "extend", "value_alias"):
                op = {"k": k, "v": self.pick_value(rng, cls, 1, x)}
                if k == "extend":
                    op["strict"] = strict
                ops.append(op)
            elif k == "append":
                v = self.pick_value(rng, cls, 1 if rng.random() < 0.3 else 0, x)
                ops.append({"k": k, "v": v, "strict": strict})
            elif k == "insert":
                v = self.pick_value(rng, cls, 1 if rng.random() < 0.3 else 0, x)
                i = rng.choice([-7, -2, -1, 0, 0, 1, 2, 3, 9])
                if long:
                    i = rng.choice([-13, -10, -1, 0, 8, 9, 10, 11, 12, 13, 14, 20])
                if x and rng.random() < 0.25:
                    i = rng.choice(X_INDEX)
                ops.append({"k": k, "i": i, "v": v, "strict": strict})
            elif k == "setitem":
                i = rng.choice([-1, 0, 0, 0, 1, 1, 2, 3, 8])
                if long:
                    i = rng.choice([-1, 0, 8, 9, 9, 10, 10, 11, 12, 13, 14, 15])
                if x and rng.random() < 0.25:
                    i = rng.choice(X_INDEX)
                ops.append({"k": k, "i": i, "v": self.pick_value(rng, cls, 0, x)})
            elif k == "remove":
                ops.append({"k": k, "v": self.pick_value(rng, cls, 0, x), "stored": rng.random() < 0.6,
                            "pos": rng.randrange(0, 4 if not long else 14)})
            elif k == "merge":
                ocls = cls if rng.random() < 0.7 else rng.choice(sorted(NATURAL))
                od = rng.choice([None] + [y for y in DTYPES_VALID if dclass(y) == ocls])
                op = {"k": k, "od": od, "ov": self.pick_value(rng, ocls, 1, x), "strict": strict}
                r = rng.random()
                if r < 0.25:
                    op["via"] = "section"      # Section.merge of the parents reaches Property.merge
                elif r < 0.35:
                    op["via"] = "link"         # ... and so does resolving a link (always non-strict)
                    op["strict"] = False
                if rng.random() < 0.25:
                    op["reuse"] = True         # the source Property of the previous merge / extend again
                ops.append(op)
            elif k == "extend_prop":
                od = rng.choice([y for y in DTYPES_VALID if dclass(y) == cls] or [None])
                op = {"k": k, "od": od, "ov": self.pick_value(rng, cls, 1, x),
                      "same_unit": rng.random() < 0.85}
                if rng.random() < 0.25:
                    op["reuse"] = True
                ops.append(op)
            else:
                # keep: go on with the original instead of the clone; keep_id: the clone() option
                ops.append({"k": "clone", "keep": rng.random() < 0.4, "keep_id": rng.random() < 0.3})
        case = {"stream": "history", "ctor": ctor, "ops": ops}
        if x:
            case["x"] = True
        if rng.random() < (0.4 if x else 0.1):
            case["saved"] = True       # the final state is also written to XML / JSON / YAML and read again
        return case

    def generate(self, tier, rng):
        cases = []
        # 1. valid_type over names
        names = [d for d in self.all_dtypes()]
        names += sorted(set(n for n in dir(str) if not n.startswith("__")))[::3] + ["__len__", "__doc__"]
        names += [c.upper() for c in CANON] + [c.capitalize() for c in CANON] + ["%d-tuple" % k for k in (1, 9, 10, 293939)]
        # neighbours of the valid names: white space, non-ASCII letters whose lower() / upper() is
        # close to a valid name, non-ASCII digits, instances of a str subclass, bytes
        names += [" int", "int ", "\tint", "int\n", u"int ", u"İnt", u"ſtring", u"Kelvin",
                  u"٢-tuple", u"２-tuple", "2-tuple ", "2 -tuple", "2-Tuple", "+2-tuple", "2_0-tuple",
                  "1e1-tuple", "10-tuple", "12-TUPLE", "100-tuple", "text\x00", "url,", "person;"]
        names += [{"substr": "int"}, {"substr": "STRING"}, {"substr": "3-tuple"}, {"substr": "join"}, {"bytes": "int"}]
        for n in names:
            cases.append({"stream": "valid_type", "d": n})
        # 2. infer over values
        for v in ELEMS:
            cases.append({"stream": "infer", "v": v})
        for n in X_ALL:
            cases.append({"stream": "infer", "v": {"x": n}})
        # 3. get / set over dtype pool x value pool
        dts = [None] + DTYPES_VALID + DTYPES_VARIANT + ["", "tuple", "join", "x-tuple", "-2-tuple", "2-tuples"] + MEMBERS[2:4]
        vals = ELEMS if tier == "thorough" else None
        for d in dts:
            pool = vals if vals is not None else NATURAL[dclass(d)] + rng.sample(ELEMS, 25)
            for v in pool:
                cases.append({"stream": "get", "d": d, "v": v})
                cases.append({"stream": "set", "d": d, "v": v})
        # 3x. the same with the values outside the model (oracle-only): every such value through
        # the converter of its own class and of every other valid dtype
        for d in DTYPES_VALID + ["10-tuple", "12-tuple", "Time", "DATETIME", {"member": "time"}, {"member": "datetime"}]:
            own = X_NATURAL[dclass(d)]
            pool = X_ALL if tier == "thorough" else sorted(set(own + rng.sample(X_ALL, 12)))
            for n in pool:
                cases.append({"stream": "get", "d": d, "v": {"x": n}})
                cases.append({"stream": "set", "d": d, "v": {"x": n}})
        # multi-digit tuple sizes (the count is read from the text of the dtype name)
        ten = "(" + ";".join("abcdefghij") + ")"
        for d in ["10-tuple", "12-tuple", "1-tuple", "2-tuple"]:
            for v in [ten, ten[:-1] + ";k;l)", "(a)", "(a;b)", {"l": list("abcdefghij")}, {"l": list("abcdefghijkl")},
                      {"l": [ten, ten]}, {"l": [{"l": list("abcdefghij")}, ten]}, "", None]:
                if not (isinstance(v, dict) and any(isinstance(y, dict) for y in v["l"])):
                    cases.append({"stream": "get", "d": d, "v": v})
                cases.append({"stream": "history", "ctor": {"d": d, "values": v, "value": None}, "ops": [
                    {"k": "append", "v": ten, "strict": True}, {"k": "dtype", "d": "12-tuple"},
                    {"k": "dtype", "d": "10-tuple"}, {"k": "dtype", "d": "1-tuple"}, {"k": "dtype", "d": "string"},
                    {"k": "dtype", "d": d}, {"k": "setitem", "i": 1, "v": {"l": list("abcdefghij")}},
                    {"k": "clone"}]})
        # 4. single-call grid: constructor and values= / dtype= from a fresh Property
        for d in DTYPES_VALID + DTYPES_VARIANT[:3] + [None, "join"]:
            pool = NATURAL[dclass(d)] + (rng.sample(ELEMS + NESTED, 12) if tier == "quick" else ELEMS + NESTED)
            for v in pool:
                cases.append({"stream": "history", "ctor": {"d": d, "values": v, "value": None}, "ops": [
                    {"k": "values", "v": {"l": []}}, {"k": "values", "v": v}]})
        for d in DTYPES_VALID:
            for nd in DTYPES_VALID + ["Int", "join", None]:
                v = rng.choice(NATURAL[dclass(d)])
                cases.append({"stream": "history", "ctor": {"d": d, "values": {"l": [v, rng.choice(NATURAL[dclass(d)])]},
                                                            "value": None}, "ops": [{"k": "dtype", "d": nd}]})
        # 4x. every value outside the model through EVERY entry point of a Property of its own
        # class that already holds a plain value (and of a few other classes): constructor with
        # and without dtype, values=, the value alias, append, extend, insert, item assignment,
        # merge (directly and through the parent Sections), extend by a Property, clone, and a
        # dtype change away and back. One call per case so that no call hides behind another.
        for d in CANON + ["2-tuple", "10-tuple", None]:
            cls = dclass(d)
            own = X_NATURAL[cls] if d is not None else X_ALL
            pool = own + (rng.sample(X_ALL, 4) if tier == "quick" else X_ALL)
            plain = [v for v in NATURAL[cls] if v not in (None, "")][:2]
            if d == "10-tuple":
                plain = [ten]
            for n in sorted(set(pool)):
                xv = {"x": n}
                partner = {"x": rng.choice(own)}
                entries = [
                    [{"k": "values", "v": {"l": [plain[0], xv]}}],
                    [{"k": "value_alias", "v": xv}],
                    [{"k": "append", "v": xv, "strict": False}],
                    [{"k": "append", "v": xv, "strict": True}],
                    [{"k": "extend", "v": {"l": [xv, partner]}, "strict": False}],
                    [{"k": "extend", "v": {"it": "gen", "items": [plain[0], xv]}, "strict": True}],
                    [{"k": "insert", "i": 0, "v": xv, "strict": False}],
                    [{"k": "setitem", "i": 0, "v": xv}],
                    [{"k": "setitem", "i": 1, "v": xv}],
                    [{"k": "merge", "od": d, "ov": {"l": [xv]}, "strict": True}],
                    [{"k": "merge", "od": None, "ov": {"l": [xv]}, "strict": False, "via": "section"}],
                    [{"k": "merge", "od": d, "ov": {"l": [partner, xv]}, "strict": False, "via": "link"}],
                    [{"k": "extend_prop", "od": d, "ov": {"l": [xv]}, "same_unit": True}],
                    [{"k": "values", "v": {"tu": [xv]}}, {"k": "clone", "keep": False},
                     {"k": "dtype", "d": "string"}, {"k": "dtype", "d": d}],
                ]
                cases.append({"stream": "history", "x": True, "saved": True,
                              "ctor": {"d": d, "values": {"l": [xv, partner]}, "value": None}, "ops": []})
                cases.append({"stream": "history", "x": True, "saved": True,
                              "ctor": {"d": d, "values": None, "value": xv}, "ops": []})
                cases.append({"stream": "history", "x": True, "saved": True,
                              "ctor": {"d": None, "values": xv, "value": None},
                              "ops": [{"k": "dtype", "d": d}, {"k": "clone", "keep": False}]})
                for ops in entries:
                    cases.append({"stream": "history", "x": True, "saved": True,
                                  "ctor": {"d": d, "values": {"l": plain[:1]}, "value": None}, "ops": ops})
        # 5. random histories
        n = 10000 if tier == "quick" else 500000
        for _ in range(n):
            cases.append(self.gen_history(rng, 15 if rng.random() < 0.5 else 6))
        # 5x. random histories with values / dtype names / index and strict arguments outside the
        # model, and histories over long value lists (tenth value and beyond)
        n = 3000 if tier == "quick" else 150000
        for _ in range(n):
            cases.append(self.gen_history(rng, 15 if rng.random() < 0.5 else 6, x=True, long=rng.random() < 0.1))
        n = 600 if tier == "quick" else 30000
        for _ in range(n):
            cases.append(self.gen_history(rng, 10, long=True))
        # 6. implementation-only stream: floats / ints outside the modelled universe
        m = 150 if tier == "quick" else 5000
        for _ in range(m):
            x = rng.choice([rng.uniform(-1e6, 1e6), rng.random() * 10 ** rng.randrange(-30, 30), 0.1 + 0.2,
                            float(rng.randrange(10 ** 17, 10 ** 19)), 1e308, 5e-324])
            big = rng.randrange(10 ** 16, 10 ** 40)
            d = rng.choice(["float", "int", "string", None, "boolean"])
            cases.append({"stream": "history", "modelled": False,
                          "ctor": {"d": d, "values": {"l": [{"f": repr(x)}, rng.choice([big, repr(x), str(big)])]},
                                   "value": None},
                          "ops": [{"k": "dtype", "d": rng.choice(["string", "float", "int"])},
                                  {"k": "append", "v": {"f": repr(x)}, "strict": False},
                                  {"k": "dtype", "d": rng.choice(["string", "float", "int"])}]})
        return cases

    # -- implementation ------------------------------------------------------
    def impl(self, case):
        for _ in range(5):
            n0 = dt.datetime.now().replace(microsecond=0)
            obs = self.impl_once(case)
            n1 = dt.datetime.now().replace(microsecond=0)
            if n0 == n1:
                break
        obs["now"] = now_fields(n0)
        return obs

    @staticmethod
    def snap(p):
        return {"values": [enc(v) for v in p.values], "dtype": enc_dtype(p.dtype)}

    @staticmethod
    def text_roundtrip(v, d, fails, where, value_str=None):
        """clause 4 on one value: value -> text -> value is the identity (dtypes.set / dtypes.get,
        str() of that text, which is what the writers put into a file, and Property.value_str)"""
        from odml import dtypes
        try:
            txt = dtypes.set(v, d)
            back = dtypes.get(txt, d)
            if enc(back) != enc(v):
                fails.append("%s: normal form: value %r -> text %r -> %r" % (where, v, txt, back))
            if type(v) is not float and txt is not None:
                back2 = dtypes.get(str(txt), d)
                if enc(back2) != enc(v):
                    fails.append("%s: normal form: value %r -> str %r -> %r" % (where, v, str(txt), back2))
            if value_str is not None:
                via = value_str()
                back3 = dtypes.get(via, d)
                if enc(back3) != enc(v):
                    fails.append("%s: normal form: value %r -> value_str %r -> %r" % (where, v, via, back3))
        except Exception as exc:
            fails.append("%s: normal form: value %r does not survive value -> text -> value (%s)"
                         % (where, v, fw.exc_name(exc)))

    def check_object(self, p, where, fails):
        """clause 1 of the property on the current state of p, and the per-value part of clause 4
        (both hold "at every moment", so after every call, accepted or refused)"""
        d = enc_dtype(p.dtype)
        if not dtype_ok(d):
            fails.append("%s: dtype %r is not a valid odML type" % (where, d))
        vals = p.values
        if len(p) != len(vals):
            fails.append("%s: len(p) differs from len(p.values)" % where)
        for i, v in enumerate(vals):
            msg = value_conforms(v, d) if dtype_ok(d) else None
            if msg:
                fails.append("%s: %s" % (where, msg))
            if enc(p[i]) != enc(v):
                fails.append("%s: p[%d] differs from p.values[%d]" % (where, i, i))
            if dtype_ok(d):
                self.text_roundtrip(v, p.dtype, fails, where, lambda: p.value_str(i))

    def saved_and_loaded(self, p, fails):
        """clause 4 through the library's own text forms: a document holding the Property is
        written to an XML / JSON / YAML string and read again; the Property read has the same
        values and dtype. Only for the six non-text dtypes (how the writers quote text and tuples
        is the business of other properties) and only when every stored value conforms (otherwise
        the failure is reported already)."""
        try:
            import odml
            from odml.tools import ODMLWriter, ODMLReader
        except ImportError:
            return
        d = enc_dtype(p.dtype)
        if not p.values or not isinstance(d, str) or \
                norm_name(d) not in ("int", "float", "boolean", "date", "time", "datetime"):
            return
        if any(value_conforms(v, d) for v in p.values):
            return
        want = self.snap(p)
        # The document written holds nothing but a copy of the Property (copy.copy semantics, no
        # re-conversion of the values): what else the history put around the Property - a merge source
        # with text XML cannot represent, a linked Section - is not this clause's business.
        doc = odml.Document()
        sec = odml.Section("s", "t", parent=doc)
        sec.append(p.clone(keep_id=True))
        if self.snap(sec.properties[p.name]) != want:
            return                 # the copy differs: C11's business, nothing to say here
        for fmt in ("XML", "JSON", "YAML"):
            try:
                text = ODMLWriter(fmt).to_string(doc)
            except Exception as exc:
                fails.append("normal form: a document with the Property in state %s cannot be written as %s (%s)"
                             % (want, fmt, fw.exc_name(exc)))
                continue
            try:
                got = self.snap(ODMLReader(fmt).from_string(text).sections[sec.name].properties[p.name])
            except Exception as exc:
                fails.append("normal form: the %s text of a document with the Property in state %s cannot be "
                             "loaded again (%s)" % (fmt, want, fw.exc_name(exc)))
                continue
            if got != want:
                fails.append("normal form: state %s saved as %s and loaded again is %s" % (want, fmt, got))

    @staticmethod
    def disturb(arg):
        """The caller goes on using the object it passed in: a list (and the lists inside) gets
        another item, one that conforms to no dtype (a bytes object; one item too many inside an
        n-tuple value). -> whether anything was changed. The stored values must still conform."""
        done = False
        if isinstance(arg, (list, tuple)):
            for x in arg:
                if isinstance(x, list):
                    x.append(b"zz")
                    done = True
        if isinstance(arg, list):
            arg.append(b"zz")
            done = True
        return done

    def impl_once(self, case):
        import odml
        from odml import dtypes
        st = case["stream"]
        if st == "valid_type":
            return {"r": bool(dtypes.valid_type(dec_dtype(case["d"])))}
        if st == "infer":
            return {"r": dtypes.infer_dtype(dec(case["v"]))}
        if st in ("get", "set"):
            fn = dtypes.get if st == "get" else dtypes.set
            d = dec_dtype(case["d"])
            try:
                res = fn(dec(case["v"]), d)
            except Exception as exc:
                return {"raised": fw.exc_name(exc)}
            fails = []
            de = enc_dtype(d)
            if st == "get" and res is not None and de is not None and isinstance(de, str) and dtype_ok(de):
                # what get hands out is what a Property stores: of the class of the dtype and in
                # normal form (None for an empty n-tuple item is the known finding, not re-reported here)
                msg = value_conforms(res, de)
                if msg:
                    fails.append("get: " + msg)
                else:
                    self.text_roundtrip(res, d, fails, "get")
            return {"ok": enc(res), "fails": fails}
        # history
        fails = []
        c = case["ctor"]
        cfg = c.get("cfg") or {}
        kw = {"name": "p", "dtype": dec_dtype(c["d"])}
        if c["values"] is not None:
            kw["values"] = dec(c["values"])
        if c.get("value") is not None:
            kw["value"] = dec(c["value"])
        if cfg.get("parent"):
            kw["parent"] = odml.Section("s", "t")
        if cfg.get("card") is not None:
            card = cfg["card"]
            kw["val_cardinality"] = tuple(card) if isinstance(card, list) else card
        try:
            p = odml.Property(**kw)
        except Exception as exc:
            name = fw.exc_name(exc)
            if name != "ValueError":
                fails.append("constructor: unconvertible input raised %s, not ValueError" % name)
            return {"ctor": name, "trace": [], "fails": fails, "ops_model": []}
        trace = [dict(self.snap(p), outcome="ok")]
        self.check_object(p, "after the constructor", fails)
        if any([self.disturb(kw[a]) for a in ("values", "value") if a in kw]):
            self.check_object(p, "after the constructor, once the caller has changed the list it had passed in", fails)
        ops_model = []
        bystanders = []          # (what, object, snapshot): objects that must stay as they are
        other = None
        for idx, op in enumerate(case["ops"]):
            before = self.snap(p)
            k = op["k"]
            where = "call %d (%s)" % (idx, k)
            mop = dict((a, b) for a, b in op.items() if a in ("k", "v", "i", "strict", "same_unit"))
            allowed = ("ValueError",)
            arg = None
            try:
                if k in ("values", "value_alias"):
                    mop["k"] = "values"
                    arg = dec(op["v"])
                    if k == "values":
                        p.values = arg
                    else:
                        p.value = arg         # the deprecated alias is an entry point as well
                elif k == "dtype":
                    allowed = ("ValueError", "AttributeError")
                    mop["d"] = model_dtype(op["d"])
                    p.dtype = dec_dtype(op["d"])
                elif k == "append":
                    arg = dec(op["v"])
                    p.append(arg, strict=op["strict"])
                elif k == "extend":
                    arg = dec(op["v"])
                    p.extend(arg, strict=op["strict"])
                elif k == "insert":
                    if not std_index(op["i"]):
                        allowed = None        # an index of another shape: any refusal, nothing changed
                    arg = dec(op["v"])
                    p.insert(dec(op["i"]), arg, strict=op["strict"])
                elif k == "setitem":
                    if not std_index(op["i"]):
                        allowed = None
                    elif op["i"] < 0 or op["i"] > len(before["values"]):
                        allowed = ("ValueError", "IndexError")
                    arg = dec(op["v"])
                    p[dec(op["i"])] = arg
                elif k == "remove":
                    v = op["v"]
                    rv = None
                    if op["stored"] and before["values"]:
                        pos = op["pos"] % len(before["values"])
                        v = before["values"][pos]
                        rv = p.values[pos]
                    mop["v"] = v
                    # a fresh equal object (a stored nan is then not found, as in the model);
                    # the stored object itself only where the encoding cannot be decoded
                    # (a value with a time zone, an object of an unknown class)
                    p.remove(rv if unmodelled_enc(v) else dec(v))
                elif k in ("merge", "extend_prop"):
                    if not (op.get("reuse") and other is not None):
                        try:
                            other = odml.Property(name="p", dtype=dec_dtype(op["od"]), values=dec(op["ov"]))
                        except Exception:
                            other = odml.Property(name="p")
                    other.unit = "mV" if k == "extend_prop" and not op["same_unit"] else None
                    mop["vals"] = [enc(v) for v in other.values]
                    mop["d"] = enc_dtype(other.dtype)
                    bystanders.append(("the source Property of " + where, other, None))
                    if k == "extend_prop":
                        p.extend(other)
                    elif op.get("via") == "section":
                        if p.parent is None:
                            p.parent = odml.Section("s", "t")
                        other.parent = odml.Section("s", "t")
                        p.parent.merge(other.parent, strict=op["strict"])
                    elif op.get("via") == "link" and (p.parent is None or p.parent.link is None):
                        # resolving a link is a non-strict merge of the two Sections
                        mop["strict"] = False
                        if p.parent is None:
                            p.parent = odml.Section("s", "t")
                        if p.parent.parent is None:
                            odml.Document().append(p.parent)
                        target = odml.Section("target%d" % idx, "t", parent=p.parent.document)
                        other.parent = target
                        p.parent.link = "/target%d" % idx
                    else:
                        p.merge(other, strict=op["strict"])
                elif k == "clone":
                    q = p.clone(keep_id=True) if op.get("keep_id") else p.clone()
                    if self.snap(q) != before:
                        fails.append("%s: the clone has values/dtype %s, the original %s" % (where, self.snap(q), before))
                    if self.snap(p) != before:
                        fails.append("%s: cloning changed the original" % where)
                    if op.get("keep"):
                        bystanders.append(("the clone made by " + where, q, self.snap(q)))
                    else:
                        bystanders.append(("the original cloned by " + where, p, before))
                        p = q
                outc = "ok"
            except Exception as exc:
                outc = fw.exc_name(exc)
            after = self.snap(p)
            trace.append(dict(after, outcome=outc))
            ops_model.append(mop)
            # clause 2/3: a refusal is a ValueError and changes nothing
            if outc != "ok":
                if allowed is not None and outc not in allowed:
                    fails.append("%s: refused with %s, not ValueError" % (where, outc))
                if after != before:
                    fails.append("%s: refused with %s but values/dtype changed from %s to %s"
                                 % (where, outc, before, after))
            elif k == "dtype":
                want = enc_dtype(dec_dtype(op["d"]))
                if op["d"] is not None and (after["dtype"] or "").lower() != want.lower():
                    fails.append("%s: accepted but the dtype is %r" % (where, after["dtype"]))
                if len(after["values"]) < len(before["values"]):
                    fails.append("%s: dtype change lost %d value(s)"
                                 % (where, len(before["values"]) - len(after["values"])))
            self.check_object(p, "after " + where, fails)
            if arg is not None and self.disturb(arg):
                self.check_object(p, "after %s, once the caller has changed the list it had passed in" % where, fails)
        # Properties that took part earlier (clones / originals, merge sources) are Properties too:
        # still conforming; a clone and its original are not changed by what happened to the other
        # one afterwards (for the source of a merge the property does not say so: not demanded)
        for what, obj, snapshot in bystanders[-6:]:
            self.check_object(obj, what + " at the end", fails)
            if snapshot is not None and self.snap(obj) != snapshot:
                fails.append("%s changed from %s to %s through later calls on the other object"
                             % (what, snapshot, self.snap(obj)))
        # clause 4: normal form
        final = self.snap(p)
        try:
            p.values = p.values
            if self.snap(p) != final:
                fails.append("normal form: assigning the Property its own values changed %s to %s"
                             % (final, self.snap(p)))
        except Exception as exc:
            fails.append("normal form: assigning the Property its own values raised %s (state %s)"
                         % (fw.exc_name(exc), final))
        if case.get("saved"):
            self.saved_and_loaded(p, fails)
        return {"ctor": "ok", "trace": trace, "fails": fails, "ops_model": ops_model}

    # -- model ---------------------------------------------------------------
    def in_model(self, case):
        if case.get("modelled") is False:
            return False
        st = case["stream"]
        if st == "history":
            c = case["ctor"]
            vals = [c["values"], c.get("value")] + [op.get("v") for op in case["ops"]] + \
                   [op.get("ov") for op in case["ops"]]
            if not all(self.deep_ok(v) for v in vals):
                return False
            # argument shapes the model does not have: index / strict that are not int / bool,
            # dtype names outside ASCII or given as bytes
            for op in case["ops"]:
                if "i" in op and not std_index(op["i"]):
                    return False
                if "strict" in op and not isinstance(op["strict"], bool):
                    return False
            for d in [c["d"]] + [op.get("d") for op in case["ops"]] + [op.get("od") for op in case["ops"]]:
                if isinstance(d, str) and not all(0x20 <= ord(ch) < 0x7f or ch in "\t\n" for ch in d):
                    return False
                if isinstance(d, dict) and "bytes" in d:
                    return False
            return True
        if st in ("get", "set", "infer"):
            if st == "set" and isinstance(case["v"], dict) and "o" in case["v"]:
                return False       # ";".join(dict) iterates the keys of the opaque dict
            return self.deep_ok(case["v"])
        if st == "valid_type":
            d = case["d"]
            return not (isinstance(d, str) and not d.isascii())
        return True

    def deep_ok(self, e):
        if isinstance(e, dict) and ("l" in e or "tu" in e):
            return all(self.deep_ok(x) for x in e.get("l", e.get("tu")))
        return modelled_value(e)

    def model_requests(self, case, obs):
        if not self.in_model(case):
            return []
        st = case["stream"]
        P = {"p": "C05", "now": obs["now"]}
        if st == "valid_type":
            return [dict(P, op="valid_type", d=model_dtype(case["d"]))]
        if st == "infer":
            return [dict(P, op="infer", v=case["v"])]
        if st in ("get", "set"):
            d = model_dtype(case["d"])
            return [dict(P, op=st, v=case["v"], d=d)]
        c = case["ctor"]
        if any(unmodelled_enc(m.get("v")) or unmodelled_enc(m.get("vals")) for m in obs["ops_model"]):
            return []          # see unmodelled_enc: the oracle has reported this history
        for op, m in zip(case["ops"], obs["ops_model"]):
            if op.get("reuse") and {"f": "nan"} in (m.get("vals") or []):
                # a source Property used twice hands over the same nan OBJECT twice; `in` finds an
                # object by identity before it compares, the model's nan is never equal to anything
                return []
        return [dict(P, op="history", ctor={"d": model_dtype(c["d"]), "values": c["values"],
                                            "value": c.get("value")},
                     ops=obs["ops_model"])]

    def compare(self, case, obs, answers):
        if not answers:
            return []
        a = answers[0]
        st = case["stream"]
        out = []
        if st in ("valid_type", "infer"):
            if a != obs["r"]:
                out.append("%s: model %r, implementation %r" % (st, a, obs["r"]))
        elif st in ("get", "set"):
            if ("ok" in a) != ("ok" in obs):
                out.append("%s(%r, %r): model %s, implementation %s" % (st, case["v"], case["d"], a, obs))
            elif "ok" in a and a["ok"] != obs["ok"]:
                out.append("%s(%r, %r): model %s, implementation %s" % (st, case["v"], case["d"], a["ok"], obs["ok"]))
        else:
            if out_class(a["ctor"]) != out_class(obs["ctor"]):
                out.append("constructor: model %s, implementation %s" % (a["ctor"], obs["ctor"]))
            elif len(a["trace"]) != len(obs["trace"]):
                out.append("trace lengths differ: model %d, implementation %d" % (len(a["trace"]), len(obs["trace"])))
            else:
                for i, (m, r) in enumerate(zip(a["trace"], obs["trace"])):
                    if out_class(m["outcome"]) != out_class(r["outcome"]) or m["values"] != r["values"] \
                            or m["dtype"] != r["dtype"]:
                        out.append("step %d (%s): model %s, implementation %s"
                                   % (i, "ctor" if i == 0 else case["ops"][i - 1]["k"], m, r))
                        break
        return out

    # -- oracle --------------------------------------------------------------
    def oracle(self, case, obs):
        if "harness_exception" in obs:
            return []
        st = case["stream"]
        out = []
        if st == "valid_type":
            d = case["d"]
            name = d.get("member", d.get("substr", 5)) if isinstance(d, dict) else d
            want = name is None or (isinstance(name, str) and dtype_ok(name))
            if obs["r"] != want:
                out.append("valid_type(%r) is %s" % (name, obs["r"]))
        elif st == "infer":
            if obs["r"] not in CANON:
                out.append("infer_dtype returned %r, not an odML type" % (obs["r"],))
        elif st in ("history", "get"):
            out.extend(obs.get("fails", []))
        return out

    def finding_key(self, case, obs, failure):
        if "tuple-none: value None stored in a" in failure:
            return "C05-tuple-empty-item-stored-as-none"
        # C05-datetime-subclass-kept (fixed 664cdf1) and C05-empty-iterable-indexerror (fixed
        # 646f02a) are not classified any more: a regression is a VIOLATION.
        return None

    def tag(self, case, obs):
        st = case["stream"]
        if st != "history":
            return (st, st in ("get", "set") and "ok" in obs)
        if obs.get("ctor") != "ok":
            return ("history%s:ctor-refused" % ("-x" if case.get("x") else ""), False)
        tr = obs.get("trace", [])[1:]
        acc = any(t["outcome"] == "ok" and t["values"] for t in tr)
        ref = any(t["outcome"] != "ok" for t in tr)
        chg = any(a["dtype"] != b["dtype"] for a, b in zip(obs["trace"], tr))
        name = "history%s:%s" % ("-x" if case.get("x") else "", dclass(case["ctor"]["d"]))
        return (name + (":refusal" if ref else ""), acc and (ref or chg))


if __name__ == "__main__":
    sys.exit(fw.main(C05(), sys.argv[1:]))
